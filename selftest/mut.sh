#!/bin/bash
# usage: mut.sh <ID[,ID...]> <tier> <sed-expr> <file-in-repo>     (applies an in-place sed mutation to /repo, runs checks, reverts)
#    or: mut.sh <ID[,ID...]> <tier> --patch <patchfile> [-R]
IDS=$1; TIER=$2; shift 2
cd /repo || exit 2
if [ -n "$(git status --porcelain)" ]; then echo "repo dirty"; exit 2; fi
if [ "$1" = "--patch" ]; then git apply $3 "$2" || { echo "patch failed"; exit 2; }
else sed -i "$1" "$2"; fi
if [ -z "$(git status --porcelain)" ]; then echo "MUTATION HAD NO EFFECT"; exit 2; fi
export GOFLAGS=-mod=mod GOPROXY=off GOSUMDB=off GOTOOLCHAIN=local
if ! go build ./... 2>/tmp/mut-build.log; then echo "mutant does not compile"; cat /tmp/mut-build.log; git checkout -- .; git clean -fdq; exit 2; fi
rc=0
for id in ${IDS//,/ }; do
  out=$(cd /verif && ./check $id $TIER 2>&1); code=$?
  echo "$out" | grep -E "VIOLATION|KNOWN|INCONCLUSIVE|seed=" | head -8
  echo "== $id exit=$code"
done
git checkout -- .; git clean -fdq
