#!/usr/bin/env python3
"""Re-runs the checks against kept changes that are not sub-agent mutants (seeded/historic-*, seeded/own-*): the patch is applied
to a scratch worktree of /repo (never to /repo itself), the checks named in meta.json (properties / property) build their worker
from it through VERIF_REPO, and the outcome is written back to meta.json under "checks".
usage: recheck.py <seeded-dir-name> ...      env: VERIF_ROOT (snapshot of /verif to run from), SW (scratch worktree path)"""
import sys, os, subprocess, json, shutil, re
ENV = dict(os.environ, GOFLAGS="-mod=mod", GOPROXY="off", GOSUMDB="off", GOTOOLCHAIN="local")
def sh(cmd, cwd=None, timeout=3600):
    p = subprocess.run(cmd, shell=True, cwd=cwd, env=ENV, capture_output=True, text=True, timeout=timeout)
    return p.returncode, (p.stdout + p.stderr)
sw = os.environ.get("SW", "/tmp/sw-recheck")
VROOT = os.environ.get("VERIF_ROOT", "/verif")
ENV["VERIF_REPO"] = sw
for name in sys.argv[1:]:
    d = f"/verif/seeded/{name}"
    meta = json.load(open(d + "/meta.json"))
    props = meta.get("properties") or [meta.get("property")]
    sh(f"git -C /repo worktree remove --force {sw}"); shutil.rmtree(sw, ignore_errors=True)
    sh(f"git -C /repo worktree add --detach {sw} HEAD")
    try:
        rc, out = sh(f"git apply {d}/patch.diff", cwd=sw)
        meta["applies_to_repaired_tree"] = rc == 0
        if rc != 0:
            meta["note"] = "patch does not apply: " + out.strip()[:300]
            continue
        rc, out = sh("go build ./... && go build -tags verif ./...", cwd=sw)
        meta["compiles"] = rc == 0
        meta["checks"] = {}
        for c in props:
            rc, out = sh(f"./check {c} quick", cwd=VROOT)
            v = [l for l in out.splitlines() if l.startswith("VIOLATION")]
            keys = sorted(set(re.findall(r'"key": "([^"]+)"', " ".join(open(l.split("replay=")[1]).read() for l in v if os.path.exists(l.split("replay=")[1])))))
            meta["checks"][c] = {"tier": "quick", "exit": rc, "violation_lines": len(v), "keys": keys[:6], "first": next((l.strip() for l in out.splitlines() if l.startswith("  ")), "")[:300]}
    finally:
        sh(f"git -C /repo worktree remove --force {sw}"); shutil.rmtree(sw, ignore_errors=True)
        json.dump(meta, open(d + "/meta.json", "w"), indent=1)
        print(name, {c: (v["exit"], v["violation_lines"]) for c, v in (meta.get("checks") or {}).items()})
