#!/usr/bin/env python3
"""Prints one line per seeded change: confirmed?, which checks fired (keys)."""
import json,glob,os,sys
for d in sorted(glob.glob('/verif/seeded/*/')):
    n=os.path.basename(d.rstrip('/'))
    if len(sys.argv)>1 and not any(n.startswith(a) for a in sys.argv[1:]): continue
    try: m=json.load(open(d+'meta.json'))
    except Exception as e: print(n,'no meta'); continue
    ok=all(m.get(k) for k in ('applies_to_repaired_tree','compiles','existing_suite_passes_with_change','demo_fails_with_change','demo_passes_without_change')) if 'compiles' in m and 'demo_fails_with_change' in m else None
    ch=[]
    for c,v in (m.get('checks') or {}).items():
        ch.append(f"{c}:{'CAUGHT' if v.get('exit')==1 else ('inconcl' if v.get('exit')==2 else 'missed')}({v.get('violation_lines')}) {','.join(v.get('keys',[]))[:120]}")
    print(f"{n:14s} confirmed={ok} | "+' | '.join(ch))
