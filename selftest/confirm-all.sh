#!/bin/bash
# usage: confirm-all.sh ID[:checks] ...
for spec in "$@"; do id=${spec%%:*}; extra=""; [ "$spec" != "$id" ] && extra="checks=${spec#*:}"; for x in ${LETTERS:-C D E}; do [ -f /tmp/wt/out/$id/$x/patch.diff ] || [ -f /verif/seeded/$id-$x/patch.diff ] || continue; echo "=== $id-$x"; VERIF_ROOT=/tmp/verif-snap python3 /verif/selftest/confirm.py $id $x $extra 2>&1 | tail -1 | python3 -c "
import sys,json
try:
  d=json.loads(sys.stdin.read())
  print({k:d.get(k) for k in ('applies_to_repaired_tree','compiles','existing_suite_passes_with_change','demo_fails_with_change','demo_passes_without_change')})
  for c,v in d.get('checks',{}).items(): print('  ',c,'exit',v['exit'],'viol',v['violation_lines'],v.get('keys'),v['first'][:200])
except Exception as e: print('ERR',e)
"; done; done
