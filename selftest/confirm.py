#!/usr/bin/env python3
"""Confirms a sub-agent mutant in a scratch worktree and records it under /verif/seeded/<ID>-<X>/.
usage: confirm.py <ID> <X> [patchfile-override] [checks=ID,ID]"""
import sys, os, subprocess, json, shutil, glob, re
ENV = dict(os.environ, GOFLAGS="-mod=mod", GOPROXY="off", GOSUMDB="off", GOTOOLCHAIN="local")
def sh(cmd, cwd=None, timeout=1800):
    p = subprocess.run(cmd, shell=True, cwd=cwd, env=ENV, capture_output=True, text=True, timeout=timeout)
    return p.returncode, (p.stdout + p.stderr)
pid, x = sys.argv[1], sys.argv[2]
src = f"/tmp/wt/out/{pid}/{x}"
if not os.path.isdir(src):
    src = f"/verif/seeded/{pid}-{x}"  # re-confirmation from the kept copy
patch = sys.argv[3] if len(sys.argv) > 3 and not sys.argv[3].startswith("checks=") else f"{src}/patch.diff"
checks = [pid]
for a in sys.argv[3:]:
    if a.startswith("checks="): checks = a[7:].split(",")
sw = os.environ.get("SW", "/tmp/sw-confirm")
# VERIF_ROOT: run the checks from a snapshot of /verif (git worktree) so that work in /verif can go on meanwhile;
# the checks build the worker from the scratch worktree through VERIF_REPO, /repo itself is never touched.
VROOT = os.environ.get("VERIF_ROOT", "/verif")
ENV["VERIF_REPO"] = sw
sh(f"git -C /repo worktree remove --force {sw}"); shutil.rmtree(sw, ignore_errors=True)
rc, out = sh(f"git -C /repo worktree add --detach {sw} HEAD")
meta = {"property": pid, "mutant": x, "source": "independent sub-agent given only the property text and a scratch worktree", "patch": os.path.basename(patch)}
try:
    rc, out = sh(f"git apply {patch}", cwd=sw)
    meta["applies_to_repaired_tree"] = rc == 0
    if rc != 0:
        meta["note"] = "patch does not apply to the repaired tree: " + out.strip()[:300]
        raise SystemExit
    # FAST=1: a mutant that was confirmed before (suite passes, demo fails with / passes without the change) keeps those
    # facts when the patch still applies and compiles; only the checks are run again
    old = {}
    if os.environ.get("FAST") and os.path.exists(f"/verif/seeded/{pid}-{x}/meta.json"):
        old = json.load(open(f"/verif/seeded/{pid}-{x}/meta.json"))
    fast = all(old.get(k) for k in ("existing_suite_passes_with_change", "demo_fails_with_change", "demo_passes_without_change"))
    rc, out = sh("go build ./... && go build -tags verif ./...", cwd=sw)
    meta["compiles"] = rc == 0
    if fast and rc == 0:
        for k in ("existing_suite_passes_with_change", "demo_fails_with_change", "demo_passes_without_change", "demo_cmd"):
            if k in old: meta[k] = old[k]
        meta["checks"] = {}
        for c in checks:
            rc, out = sh(f"./check {c} quick", cwd=VROOT)
            v = [l for l in out.splitlines() if l.startswith("VIOLATION")]
            keys = sorted(set(re.findall(r'"key": "([^"]+)"', " ".join(open(l.split("replay=")[1]).read() for l in v if os.path.exists(l.split("replay=")[1])))))
            meta["checks"][c] = {"tier": "quick", "exit": rc, "violation_lines": len(v), "keys": keys[:6], "first": next((l.strip() for l in out.splitlines() if l.startswith("  ")), "")[:300]}
        raise SystemExit
    rc, out = sh("unshare -n sh -c 'ip link set lo up; go test -vet=off -count=1 ./...'", cwd=sw)
    meta["existing_suite_passes_with_change"] = rc == 0 and "FAIL" not in out
    # demo files
    demos = [f for f in glob.glob(src + "/**/*_test.go", recursive=True)]
    pkgdirs = {"uhppote": "uhppote", "types": "types", "messages": "messages", "bcd": "encoding/bcd", "UTO311_L0x": "encoding/UTO311-L0x", "uhppote_test": "uhppote", "types_test": "types", "messages_test": "messages", "bcd_test": "encoding/bcd", "UTO311_L0x_test": "encoding/UTO311-L0x"}
    dirs = set()
    for f in demos:
        pkg = re.search(r"^package (\w+)", open(f).read(), re.M).group(1)
        d = pkgdirs[pkg]; dirs.add(d)
        shutil.copy(f, os.path.join(sw, d, os.path.basename(f)))
    run = "unshare -n sh -c 'ip link set lo up; go test -vet=off -count=1 -run \"TestVerifDemo|TestDemo\" " + " ".join("./" + d + "/" for d in sorted(dirs)) + "'"
    meta["demo_cmd"] = run
    rc1, out1 = sh(run, cwd=sw)
    meta["demo_fails_with_change"] = rc1 != 0
    sh(f"git apply -R {patch}", cwd=sw)
    rc2, out2 = sh(run, cwd=sw)
    meta["demo_passes_without_change"] = rc2 == 0
    for f in demos:
        os.remove(os.path.join(sw, pkgdirs[re.search(r"^package (\w+)", open(f).read(), re.M).group(1)], os.path.basename(f)))
    # my checks against it (worker built from the scratch worktree with the change applied)
    sh(f"git apply {patch}", cwd=sw)
    meta["checks"] = {}
    for c in checks:
        rc, out = sh(f"./check {c} quick", cwd=VROOT)
        v = [l for l in out.splitlines() if l.startswith("VIOLATION")]
        keys = sorted(set(re.findall(r'"key": "([^"]+)"', " ".join(open(l.split("replay=")[1]).read() for l in v if os.path.exists(l.split("replay=")[1])))))
        meta["checks"][c] = {"tier": "quick", "exit": rc, "violation_lines": len(v), "keys": keys[:6], "first": next((l.strip() for l in out.splitlines() if l.startswith("  ")), "")[:300]}
finally:
    sh(f"git -C /repo worktree remove --force {sw}"); shutil.rmtree(sw, ignore_errors=True)
    dst = f"/verif/seeded/{pid}-{x}"
    os.makedirs(dst, exist_ok=True)
    if os.path.abspath(src) != os.path.abspath(dst):
        shutil.copy(patch, dst + "/patch.diff")
        for f in glob.glob(src + "/**/*_test.go", recursive=True): shutil.copy(f, dst + "/" + os.path.basename(f))
        if os.path.exists(src + "/notes.md"): shutil.copy(src + "/notes.md", dst + "/notes.md")
    notes = open(src + "/notes.md").read() if os.path.exists(src + "/notes.md") else ""
    m = re.search(r"(?is)(needs|trigger|manifest)[^\n]*\n(.{0,600})", notes)
    meta["needs_to_manifest"] = (m.group(0).strip()[:600] if m else "see notes.md")
    json.dump(meta, open(dst + "/meta.json", "w"), indent=1)
    print(json.dumps({k: v for k, v in meta.items() if k not in ("needs_to_manifest",)}, indent=None)[:900])
