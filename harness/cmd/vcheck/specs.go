package main

import "time"

func n(tier string, quick, thorough int) int {
	if tier == "thorough" {
		return thorough
	}
	return quick
}

func same(k int, b Batch) []Batch {
	out := make([]Batch, k)
	for i := range out {
		out[i] = b
	}
	return out
}

var hookAssumption = "the in-memory driver installed through the verif hook stands in for the network: it sees exactly what the real ut0311 driver would be handed"
var refAssumption = "the frozen protocol table (design/protocol-table.md) transcribed at the pinned commit is the protocol"

func init() {
	specs["C01"] = &Spec{ID: "C01", Level: "exploration", Parallel: 8,
		Assumptions: []string{refAssumption, hookAssumption, "32-bit arguments are sampled (boundaries, bit walks, random), not enumerated"},
		Plan: func(tier string) []Batch { return same(n(tier, 8, 16), Batch{Timeout: 20 * time.Minute}) }}
}

func init() {
	specs["C02"] = &Spec{ID: "C02", Level: "exploration", Parallel: 8,
		Assumptions: []string{refAssumption, hookAssumption, "process time zone UTC (zone dependence is C13's subject)", "two digit system years >= 69, BCD year 0000 and the date 0001-01-01 are outside the stated domain (don't-care)"},
		Plan: func(tier string) []Batch { return same(n(tier, 8, 16), Batch{Timeout: 30 * time.Minute}) }}
}

func init() {
	specs["C12"] = &Spec{ID: "C12", Level: "exploration", Parallel: 12,
		Assumptions: []string{"beyond the enumerated lengths the coding is position independent (stated in the property); the random part samples lengths up to 64"},
		Plan: func(tier string) []Batch { return same(n(tier, 12, 24), Batch{Timeout: 20 * time.Minute}) }}
	specs["C15"] = &Spec{ID: "C15", Level: "exploration", Parallel: 16,
		Assumptions: []string{"strings that contain a dotted quad but are not exactly a.b.c.d[:port] in canonical decimal are don't-care (the statement is silent about them)"},
		Plan: func(tier string) []Batch { return same(n(tier, 16, 32), Batch{Timeout: 30 * time.Minute, Procs: 1}) }}
	specs["C16"] = &Spec{ID: "C16", Level: "exploration", Parallel: 8,
		Assumptions: []string{hookAssumption, "DateTime.Before is judged for instants from 1970 on, as the property states"},
		Plan: func(tier string) []Batch { return same(n(tier, 8, 16), Batch{Timeout: 30 * time.Minute}) }}
}
