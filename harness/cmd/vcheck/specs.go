package main

import "time"

func n(tier string, quick, thorough int) int {
	if tier == "thorough" {
		return thorough
	}
	return quick
}

func same(k int, b Batch) []Batch {
	out := make([]Batch, k)
	for i := range out {
		out[i] = b
	}
	return out
}

var hookAssumption = "the in-memory driver installed through the verif hook stands in for the network: it sees exactly what the real ut0311 driver would be handed"
var refAssumption = "the frozen protocol table (design/protocol-table.md) transcribed at the pinned commit is the protocol"

func init() {
	specs["C01"] = &Spec{ID: "C01", Level: "exploration", Parallel: 8,
		Assumptions: []string{refAssumption, hookAssumption, "32-bit arguments are sampled (boundaries, bit walks, random), not enumerated"},
		Plan: func(tier string) []Batch {
			b := same(n(tier, 8, 16), Batch{Timeout: 20 * time.Minute})
			// what actually arrives at real sockets (count and bytes): the workload of C06's loopback and network-namespace layers
			keys := []string{":count", "request-bytes", "panic"}
			b = append(b, same(n(tier, 1, 3), Batch{Mode: "loopback", RunAs: "C06", Keys: keys, Timeout: 30 * time.Minute, Procs: 8})...)
			b = append(b, same(n(tier, 1, 2), Batch{Mode: "netns", RunAs: "C06", Keys: keys, Netns: true, Timeout: 30 * time.Minute, Procs: 4})...)
			// dates are calendar days whatever the process zone does around them: the date-bearing operations in zones with skipped midnights
			for _, z := range []string{"America/Havana", "America/Santiago", "America/Asuncion", "America/Sao_Paulo", "Asia/Beirut", "Atlantic/Azores", "Africa/Cairo", "Australia/Lord_Howe"}[:n(tier, 4, 8)] {
				b = append(b, Batch{Mode: "tz", Env: []string{"TZ=" + z}, Timeout: 20 * time.Minute, Procs: 1})
			}
			// "never of earlier calls on the same or another client": an earlier call that failed to open its socket must not keep later
			// calls from sending their request (port-queue phase of C09's workload)
			return append(b, Batch{Mode: "port-queue", RunAs: "C09", Keys: []string{"hang", "failed-without-asking", "not-served-in-turn", "panic"}, Timeout: 20 * time.Minute, Procs: 8})
		}}
}

func init() {
	specs["C02"] = &Spec{ID: "C02", Level: "exploration", Parallel: 8,
		Assumptions: []string{refAssumption, hookAssumption, "process time zone UTC for the byte-pattern sweeps; six DST zones (all zones in thorough) for the date / date-time fields on transition days; civil times that do not exist in the zone are don't-care", "two digit system years >= 69, BCD year 0000 and the date 0001-01-01 are outside the stated domain (don't-care)"},
		Plan: func(tier string) []Batch {
			b := same(n(tier, 8, 16), Batch{Timeout: 30 * time.Minute})
			// decoding under concurrency over the real transport: the workload of C08's hammer phase (every result compared with the
			// reference decoding of the reply to its own request)
			b = append(b, Batch{Mode: "hammer", RunAs: "C08", Keys: []string{"crossed-reply", "panic"}, Timeout: 30 * time.Minute, Procs: 8})
			b = append(b, Batch{Mode: "hammer", RunAs: "C08", Keys: []string{"crossed-reply", "panic"}, Race: true, Timeout: 30 * time.Minute, Procs: 8}) // + the race detector on the receive path
			// the one operation whose replies come from many controllers: GetDevices (the hooked layer of C11's workload)
			b = append(b, Batch{Mode: "hook", RunAs: "C11", Keys: []string{"hook:", "noise-fails-call", "panic"}, Timeout: 20 * time.Minute})
			// the decoded result over the real driver, which handles the received bytes before the decoder sees them (in debug mode it
			// also dumps them): every result carries the marker of the accepted datagram (loopback layer of C03's workload)
			b = append(b, Batch{Mode: "loopback", RunAs: "C03", Keys: []string{"foreign-content", "panic"}, Timeout: 20 * time.Minute, Procs: 8})
			// status datagrams that arrive unasked (events, also with the v6.62 protocol id 0x19) are decoded by the same rules: the
			// content oracle of C10's listener workload
			b = append(b, Batch{Mode: "plain", RunAs: "C10", Keys: []string{"event:content", "event:lost", "from-invalid-datagram", "panic"}, Timeout: 30 * time.Minute, Procs: 4})
			if tier == "thorough" {
				return append(b, zoneBatches(0, "tz", 20*time.Minute)...)
			}
			for _, z := range []string{"America/New_York", "Europe/London", "America/Santiago", "Australia/Lord_Howe", "Asia/Beirut", "Pacific/Apia"} {
				b = append(b, Batch{Mode: "tz", Env: []string{"TZ=" + z}, Timeout: 20 * time.Minute, Procs: 1})
			}
			return b
		}}
}

func init() {
	specs["C12"] = &Spec{ID: "C12", Level: "exploration", Parallel: 12,
		Assumptions: []string{"beyond the enumerated lengths the coding is position independent (stated in the property); the random part samples lengths up to 64"},
		Plan:        func(tier string) []Batch { return same(n(tier, 12, 24), Batch{Timeout: 20 * time.Minute}) }}
	specs["C15"] = &Spec{ID: "C15", Level: "exploration", Parallel: 16,
		Assumptions: []string{"strings that contain a dotted quad but are not exactly a.b.c.d[:port] in canonical decimal are don't-care (the statement is silent about them)"},
		Plan:        func(tier string) []Batch { return same(n(tier, 16, 32), Batch{Timeout: 30 * time.Minute, Procs: 1}) }}
	specs["C16"] = &Spec{ID: "C16", Level: "exploration", Parallel: 8,
		Assumptions: []string{hookAssumption, "DateTime.Before is judged for instants from 1970 on, and for date-times before 1970 that carry no fraction of a second (the library truncates milliseconds toward zero)", "date order is also checked in processes started with TZ=<zone> (16 zones quick, every zone thorough); days with no instant in the zone are skipped"},
		Plan: func(tier string) []Batch {
			b := same(n(tier, 8, 16), Batch{Timeout: 30 * time.Minute})
			return append(b, zoneBatches(n(tier, 16, 0), "tz", 20*time.Minute)...)
		}}
}

func init() {
	specs["C07"] = &Spec{ID: "C07", Level: "exploration", Parallel: 8,
		Assumptions: []string{hookAssumption, "Wiegand-26 = decimal FFFNNNNN, at most 8 digits, F<=255, N<=65535; unknown card formats match nothing"},
		Plan: func(tier string) []Batch {
			b := same(n(tier, 8, 16), Batch{Timeout: 40 * time.Minute})
			// "a call is rejected only for these reasons": valid calls that had to wait their turn for a fixed bind port on the real
			// transport must still be sent (the port-queue phase of C09's workload)
			return append(b, Batch{Mode: "port-queue", RunAs: "C09", Keys: []string{"failed-without-asking", "early-timeout-after-queueing", "not-served-in-turn", "panic"}, Timeout: 20 * time.Minute, Procs: 8})
		}}
}

var currentSeed uint64 = 1

func zoneBatches(k int, mode string, timeout time.Duration) []Batch {
	out := []Batch{}
	for _, z := range pickZones(k, currentSeed) {
		out = append(out, Batch{Mode: mode, Env: []string{"TZ=" + z}, Timeout: timeout, Procs: 1})
	}
	return out
}

func init() {
	specs["C05"] = &Spec{ID: "C05", Level: "exploration", Parallel: 16,
		Assumptions: []string{refAssumption, "in-domain date-times are civil times that exist in the process zone (built UTC->local); system dates 2000..2068", "tz database: the one installed under /usr/share/zoneinfo (fallback: Go's embedded time/tzdata)"},
		Plan: func(tier string) []Batch {
			b := same(n(tier, 4, 8), Batch{Mode: "utc-deep", Timeout: 20 * time.Minute})
			b = append(b, same(n(tier, 2, 4), Batch{Mode: "race", Race: true, Timeout: 20 * time.Minute, Procs: 8})...)
			// event messages as the listener decodes them while datagrams arrive back to back: each delivered status is the decoding
			// of its own datagram (the listener workload of C10)
			b = append(b, Batch{Mode: "plain", RunAs: "C10", Keys: []string{"event:content", "event:lost", "event:duplicate", "panic"}, Timeout: 30 * time.Minute, Procs: 4})
			return append(b, zoneBatches(n(tier, 40, 0), "tz", 10*time.Minute)...)
		}}
}

func init() {
	specs["C18"] = &Spec{ID: "C18", Level: "exploration", Parallel: 8,
		Assumptions: []string{"layouts are built with reflect.StructOf (exported field names; one level of embedding through an anonymous StructOf struct)", "for byte fields an unprefixed value: digit string is hexadecimal by the codec's own convention (a decimal reading is not asserted)", "process time zone UTC plus three odd zones"},
		Plan: func(tier string) []Batch {
			b := same(n(tier, 8, 16), Batch{Timeout: 20 * time.Minute})
			b = append(b, same(n(tier, 1, 2), Batch{Race: true, Timeout: 30 * time.Minute, Procs: 8})...)
			for _, z := range []string{"America/Santiago", "Asia/Kathmandu", "Pacific/Apia"} {
				b = append(b, Batch{Env: []string{"TZ=" + z}, Timeout: 20 * time.Minute})
			}
			return b
		}}
}

func init() {
	specs["C13"] = &Spec{ID: "C13", Level: "exploration", Parallel: 16,
		Assumptions: []string{"tz database: the one installed under /usr/share/zoneinfo (fallback: Go's embedded time/tzdata); Go extrapolates a zone's last DST rule to year 9999", "existence of a civil time / of a calendar day in a zone is decided with the UTC->local direction only", hookAssumption + " (GetStatus and Listen clauses)", "two digit system years are taken as 2000..2068"},
		Plan: func(tier string) []Batch {
			b := zoneBatches(n(tier, 48, 0), "tz", 20*time.Minute)
			for _, z := range []string{"America/New_York", "Europe/London"}[:n(tier, 1, 2)] {
				b = append(b, Batch{Mode: "tz", Race: true, Env: []string{"TZ=" + z}, Timeout: 30 * time.Minute, Procs: 8})
			}
			for _, z := range []string{"America/Santiago", "Australia/Lord_Howe", "Europe/Dublin"}[:n(tier, 2, 3)] {
				b = append(b, Batch{Mode: "tz", Env: []string{"TZ=" + z}, Timeout: 30 * time.Minute, Procs: 8}) // multi-processor batches for the concurrent phase
			}
			return b
		}}
}

func init() {
	specs["C14"] = &Spec{ID: "C14", Level: "exploration", Parallel: 16,
		Assumptions: []string{"in-domain values as the statement and the existing suite define them: cards have non-zero dates, segments are a contiguous prefix of 1..3, control state 1..3, task type 0..12, PIN 0..999999", "a date-time whose civil time + abbreviation does not identify one instant of the zone is compared by civil fields only", "reject side: only the classes the statement lists are asserted", "tz database as installed"},
		Plan: func(tier string) []Batch {
			b := same(n(tier, 4, 8), Batch{Mode: "utc-deep", Timeout: 20 * time.Minute})
			b = append(b, Batch{Mode: "tz", Race: true, Env: []string{"TZ=Europe/London"}, Timeout: 20 * time.Minute, Procs: 8}, Batch{Mode: "tz", Env: []string{"TZ=America/Santiago"}, Timeout: 20 * time.Minute, Procs: 8})
			return append(b, zoneBatches(n(tier, 38, 0), "tz", 15*time.Minute)...)
		}}
}

func init() {
	specs["C17"] = &Spec{ID: "C17", Level: "exploration", Parallel: 8,
		Assumptions: []string{hookAssumption, "door names held in the map returned by DeviceList are not asserted to be insulated (the statement only promises that changing that map does not change where requests go)"},
		Plan: func(tier string) []Batch {
			b := same(n(tier, 8, 16), Batch{Timeout: 30 * time.Minute})
			for _, z := range []string{"Pacific/Auckland", "America/New_York", "Asia/Kathmandu", "America/Santiago"}[:n(tier, 2, 4)] {
				b = append(b, Batch{Env: []string{"TZ=" + z}, Timeout: 30 * time.Minute}) // zero dates, clones and snapshots in other process zones
			}
			return append(b, same(n(tier, 2, 4), Batch{Mode: "loopback", Timeout: 30 * time.Minute, Procs: 4})...)
		}}
}

var loopAssumption = "loopback (127.0.0.0/8) sockets stand in for the network; datagrams sent by one farm goroutine arrive in order"

func init() {
	specs["C03"] = &Spec{ID: "C03", Level: "fault_enumeration", Parallel: 6,
		Assumptions: []string{hookAssumption + " (hooked layer: BroadcastTo callback loop emulated)", loopAssumption, "on TCP one write is one 'datagram'; zero-length datagrams do not exist on TCP", "operations without a boolean / system date-time field have no 'malformed field' class"},
		Plan: func(tier string) []Batch {
			b := same(n(tier, 4, 8), Batch{Mode: "hook", Timeout: 20 * time.Minute})
			b = append(b, same(n(tier, 2, 6), Batch{Mode: "loopback", Timeout: 20 * time.Minute, Procs: 8})...)
			// "the content of any other datagram never appears in a returned result": results retained across later calls and
			// listener bursts on the real transport (the workload of C17's loopback layer)
			b = append(b, same(n(tier, 1, 2), Batch{Mode: "loopback", RunAs: "C17", Keys: []string{"result-aliases-buffer", "event-from-another-datagram", "event-changes-after-delivery", "panic"}, Timeout: 20 * time.Minute, Procs: 4})...)
			// "datagrams of the wrong length or with another serial number are ignored and the call keeps waiting for S until its deadline":
			// a flood of such datagrams must not move the deadline (the flood phases of C09's workload)
			b = append(b, Batch{Mode: "flood", RunAs: "C09", Keys: []string{"late-return", "hang", "unexpected-success", "panic"}, Timeout: 20 * time.Minute, Procs: 8})
			// "keeps waiting for S until its deadline": the deadline is the call's own - also when the call first had to wait its turn for a
			// fixed bind port (fixed-port rounds of C09's workload)
			return append(b, Batch{Mode: "port-queue", RunAs: "C09", Keys: []string{"early-timeout-after-queueing", "panic"}, Timeout: 20 * time.Minute, Procs: 8})
		}}
}

func init() {
	specs["C06"] = &Spec{ID: "C06", Level: "exploration", Parallel: 6,
		Assumptions: []string{loopAssumption, hookAssumption, "a private network segment in a network namespace (unshare -n) stands in for a LAN with real limited broadcast; where that is not permitted the netns batches are skipped (listed under skipped_batches) and the hooked layer alone decides the unset default 255.255.255.255:60000", "arrivals are attributed to calls by content (the reference encodings of the last 64 requests of a worker): the farm's log is not ordered with the cases", "controllers are told apart by unique serial numbers; each worker goroutine owns its farm and runs its cases one at a time"},
		Plan: func(tier string) []Batch {
			b := same(n(tier, 2, 8), Batch{Mode: "hook", Timeout: 20 * time.Minute})
			b = append(b, same(n(tier, 2, 6), Batch{Mode: "loopback", Timeout: 30 * time.Minute, Procs: 8})...)
			b = append(b, same(n(tier, 2, 4), Batch{Mode: "netns", Netns: true, Timeout: 30 * time.Minute, Procs: 4})...)
			// "a connected UDP socket by default": what another host sends to the request's source port is not the controller's reply
			// (the decoy cases of C03's loopback layer)
			return append(b, Batch{Mode: "loopback", RunAs: "C03", Keys: []string{"foreign-content", "panic"}, Timeout: 20 * time.Minute, Procs: 8})
		}}
}

func init() {
	specs["C08"] = &Spec{ID: "C08", Level: "exploration", Parallel: 4,
		Assumptions: []string{loopAssumption, "the race detector reports only accesses that executed (happens-before based): silence means no race on the calls and interleavings listed here", "a call is judged only when the farm measurably sent its reply within 0.85 T of receiving the request (planned delays <= 0.7 T)", "successful TCP calls from a fixed bind port are left out of the plans (a 4-tuple cannot be reused within TIME_WAIT - kernel behaviour, not the library's); a refused TCP controller is included; two overlapping calls to one TCP controller from a fixed port are judged only on whether the second waited its turn (failed inside the window in which the farm held the first request = violation), never on the connect outcome after its turn", "schedules are perturbed (GOMAXPROCS 2/4/16, adversarial reply delays), not enumerated"},
		Plan: func(tier string) []Batch {
			// "with or without a fixed bind port ... even if the call first had to wait its turn": the fixed-port rounds of C09's
			// workload (calls of several clients queued on one port, overlapping bind addresses, two TCP calls in a row from one port)
			queue := Batch{Mode: "port-queue", RunAs: "C09", Keys: []string{"second-call-cannot-bind", "not-served-in-turn", "hang", "rejected-in-time-reply", "panic"}, Timeout: 20 * time.Minute, Procs: 8}
			// "the event listener": what it delivers while datagrams arrive back to back is each datagram's own content, once, in order
			// (the listener workload of C10; a receive path that hands a shared buffer to another goroutine shows there, not in a race report:
			// the conflicting write happens inside the kernel)
			listener := Batch{Mode: "plain", RunAs: "C10", Keys: []string{"event:content", "event:lost", "event:duplicate", "event:reordered", "from-invalid-datagram", "changed-after-delivery", "panic"}, Timeout: 30 * time.Minute, Procs: 4}
			// "the reply to its own request": a datagram that reaches a directed call's port from another address than its controller's -
			// the late reply of another controller, any other host - is not it (decoy cases of C03's loopback layer)
			decoy := Batch{Mode: "loopback", RunAs: "C03", Keys: []string{"reply-from-another-address", "after-a-late-reply", "panic"}, Timeout: 20 * time.Minute, Procs: 8}
			if tier == "thorough" {
				return []Batch{{Mode: "race", Race: true, Procs: 2, Timeout: 40 * time.Minute}, {Mode: "race", Race: true, Procs: 4, Timeout: 40 * time.Minute}, {Mode: "race", Race: true, Procs: 16, Timeout: 40 * time.Minute},
					{Mode: "race", Race: true, Procs: 8, Timeout: 40 * time.Minute}, {Mode: "plain", Procs: 2, Timeout: 40 * time.Minute}, {Mode: "plain", Procs: 16, Timeout: 40 * time.Minute}, {Mode: "plain", Procs: 4, Timeout: 40 * time.Minute}, {Mode: "plain", Procs: 8, Timeout: 40 * time.Minute}, queue, listener, listener, decoy}
			}
			return []Batch{{Mode: "race", Race: true, Procs: 4, Timeout: 15 * time.Minute}, {Mode: "race", Race: true, Procs: 16, Timeout: 15 * time.Minute}, {Mode: "plain", Procs: 2, Timeout: 15 * time.Minute}, {Mode: "plain", Procs: 8, Timeout: 15 * time.Minute}, queue, listener, decoy}
		}}
}

func init() {
	specs["C09"] = &Spec{ID: "C09", Level: "fault_enumeration", Parallel: 3,
		Assumptions: []string{loopAssumption, "time is the property: verdicts use measured times with 1.5 s of scheduling slack on the late side and 7% on the early side; an in-time reply creates an obligation only if the farm measurably sent it within 0.8 T of receiving the request; in the parallel leak batches a failed must-succeed call is confirmed by a second attempt", "library sockets are recognised by their local address (clients bind 127.0.0.2, listeners 127.0.0.3; the farm lives on 127.0.0.1)", "SYN black holes and ARP failure are produced in a network namespace (unshare -n, veth pair with a static neighbour entry); where that is not permitted the netns batch is skipped and listed under skipped_batches", "timing verdicts about a call during which a 2 ms heartbeat overslept by more than 25 ms (host stall) are inconclusive"},
		Plan: func(tier string) []Batch {
			if tier == "thorough" {
				return []Batch{{Mode: "plain", Procs: 8, Timeout: 60 * time.Minute}, {Mode: "plain", Procs: 8, Timeout: 60 * time.Minute}, {Mode: "race", Race: true, Procs: 8, Timeout: 60 * time.Minute}, {Mode: "plain", Procs: 2, Timeout: 60 * time.Minute},
					{Mode: "netns", Netns: true, Procs: 4, Timeout: 30 * time.Minute}, {Mode: "netns", Netns: true, Race: true, Procs: 4, Timeout: 30 * time.Minute}}
			}
			return []Batch{{Mode: "plain", Procs: 8, Timeout: 20 * time.Minute}, {Mode: "race", Race: true, Procs: 8, Timeout: 20 * time.Minute}, {Mode: "netns", Netns: true, Procs: 4, Timeout: 20 * time.Minute}}
		}}
}

func init() {
	specs["C10"] = &Spec{ID: "C10", Level: "exploration", Parallel: 6,
		Assumptions: []string{loopAssumption, "senders are paced by acknowledgement and /proc/net/snmp RcvbufErrors is read around every cycle: a kernel drop makes a missing event inconclusive", "an event whose timestamp is BCD-clean but not a calendar date/time, or whose hidden fields are malformed, may be delivered (zero timestamp) or reported as an error - exactly one of the two", "callbacks are not promised to have completed when Listen returns: the harness waits 20 ms before reading its logs", "system date-times that do not exist in the process zone are don't-care"},
		Plan: func(tier string) []Batch {
			b := same(n(tier, 2, 6), Batch{Mode: "plain", Timeout: 30 * time.Minute, Procs: 4})
			b = append(b, same(n(tier, 1, 3), Batch{Mode: "race", Race: true, Timeout: 30 * time.Minute, Procs: 4})...)
			zones := []string{"America/New_York", "Europe/London", "America/Santiago", "Australia/Lord_Howe", "Asia/Beirut", "Pacific/Auckland"}
			if tier == "thorough" {
				zones = append(zones, "Europe/Berlin", "America/Sao_Paulo", "America/Havana", "Asia/Tehran", "Africa/Cairo", "America/St_Johns", "Pacific/Chatham", "Asia/Gaza", "Atlantic/Azores", "America/Asuncion")
			}
			for _, z := range zones {
				b = append(b, Batch{Mode: "tz", Env: []string{"TZ=" + z}, Timeout: 20 * time.Minute, Procs: 4})
			}
			// a listener that hears nothing for 33 s (thorough: 33 s, 65 s, 125 s): still one session, the address bound all the time
			return append(b, same(n(tier, 1, 3), Batch{Mode: "idle", Timeout: 20 * time.Minute, Procs: 2})...)
		}}
}

func init() {
	specs["C11"] = &Spec{ID: "C11", Level: "exploration", Parallel: 6,
		Assumptions: []string{hookAssumption, loopAssumption, "a reply counts as received before the timeout only if it measurably left the farm within 0.6 T; replies sent between 0.6 T and T+0.3 s are don't-care", "a get-device reply whose date is BCD-clean but not a calendar date may yield an entry with the zero date or no entry", "a reply that reports serial number 0 is a well-formed reply like any other ('all field values'): one entry"},
		Plan: func(tier string) []Batch {
			b := same(n(tier, 4, 8), Batch{Mode: "hook", Timeout: 20 * time.Minute})
			b = append(b, same(n(tier, 1, 3), Batch{Mode: "loopback", Timeout: 30 * time.Minute, Procs: 8})...)
			b = append(b, Batch{Mode: "race", Race: true, Timeout: 30 * time.Minute, Procs: 8})
			// a discovery after a call that could not open its socket on a fixed bind port (port-queue phase of C09's workload)
			// ... and a discovery that has to wait its turn for a fixed bind port which another client holds through the wildcard address
			return append(b, Batch{Mode: "port-queue", RunAs: "C09", Keys: []string{"hang", "not-served-in-turn:discovery", "panic"}, Timeout: 20 * time.Minute, Procs: 8})
		}}
}

func init() {
	specs["C04"] = &Spec{ID: "C04", Level: "exploration", Parallel: 8,
		Assumptions: []string{hookAssumption, "a nil result pointer is the API's 'no card / no event / no profile': calling a value-receiver String on it is the caller's bug and is not done", "rendering caller-built enum values outside their range (TaskType, CardFormat) is not exercised: the API never returns them", "a panic in a goroutine spawned by the library ends the worker: the parent reports the crash trace"},
		Plan: func(tier string) []Batch {
			b := same(n(tier, 8, 16), Batch{Timeout: 30 * time.Minute})
			return append(b, same(n(tier, 2, 4), Batch{Mode: "loopback", Timeout: 30 * time.Minute, Procs: 4})...)
		}}
}
