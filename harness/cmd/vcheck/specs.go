package main

import "time"

func n(tier string, quick, thorough int) int {
	if tier == "thorough" {
		return thorough
	}
	return quick
}

func same(k int, b Batch) []Batch {
	out := make([]Batch, k)
	for i := range out {
		out[i] = b
	}
	return out
}

var hookAssumption = "the in-memory driver installed through the verif hook stands in for the network: it sees exactly what the real ut0311 driver would be handed"
var refAssumption = "the frozen protocol table (design/protocol-table.md) transcribed at the pinned commit is the protocol"

func init() {
	specs["C01"] = &Spec{ID: "C01", Level: "exploration", Parallel: 8,
		Assumptions: []string{refAssumption, hookAssumption, "32-bit arguments are sampled (boundaries, bit walks, random), not enumerated"},
		Plan: func(tier string) []Batch { return same(n(tier, 8, 16), Batch{Timeout: 20 * time.Minute}) }}
}
