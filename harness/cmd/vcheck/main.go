// vcheck is the parent of every check: it plans the batches of a property's workload, runs one worker
// child per batch (the worker is the only program linked with the library under test), merges what the
// monitors observed, filters known findings, writes the evidence file and prints the verdict.
//
// exit 0: the property held on everything observed      exit 1: VIOLATION line(s) printed
// exit 2: inconclusive (worker could not be built/run, watchdog fired, monitors observed nothing)
package main

import (
	"bytes"
	"encoding/binary"
	"encoding/json"
	"flag"
	"fmt"
	"os"
	"os/exec"
	"path/filepath"
	"regexp"
	"sort"
	"strconv"
	"strings"
	"sync"
	"time"

	"verif/harness/wk"
)

type Batch struct {
	Mode    string
	Env     []string // extra environment (TZ=...)
	Race    bool     // use the -race worker
	Strace  string   // non-empty: run under strace with these extra args, log to <out>.strace
	Procs   int      // GOMAXPROCS for the child (0 = default share)
	RunAs   string   // run the workload of this (other) property; its violations are reported under the check's own property
	Keys    []string // with RunAs: only violations whose key contains one of these are relevant to the borrowing property
	Netns   bool     // run the child in a fresh network namespace (unshare -n); the worker configures a veth pair in it
	Timeout time.Duration
}

type Spec struct {
	ID          string
	Level       string
	Assumptions []string
	Plan        func(tier string) []Batch
	Parallel    int // children run concurrently (0 = 8)
}

var specs = map[string]*Spec{}

type Finding struct {
	Property string `json:"property"`
	Key      string `json:"key"`
	Status   string `json:"status"` // open | fixed
	Commit   string `json:"commit,omitempty"`
	What     string `json:"what"`
}

func loadFindings(root string) []Finding {
	var f struct {
		Findings []Finding `json:"findings"`
	}
	b, err := os.ReadFile(filepath.Join(root, "known-findings.json"))
	if err != nil {
		return nil
	}
	if err := json.Unmarshal(b, &f); err != nil {
		fmt.Fprintf(os.Stderr, "vcheck: known-findings.json: %v\n", err)
		os.Exit(2)
	}
	return f.Findings
}

type childResult struct {
	batch  int
	spec   Batch
	res    *wk.Result
	err    error
	stderr string
	out    string
	wall   time.Duration
	crash  string // go panic / fatal error text when the child died
	timed  bool
	skip   string // batch not run (reason)
}

var racePat = regexp.MustCompile(`(?s)WARNING: DATA RACE.*?==================`)

func main() {
	prop := flag.String("prop", "", "property id")
	tier := flag.String("tier", "quick", "quick|thorough")
	root := flag.String("root", "/verif", "verification root")
	worker := flag.String("worker", "", "worker binary")
	raceWorker := flag.String("race-worker", "", "worker binary built with -race")
	replay := flag.String("replay", "", "replay file")
	needsRace := flag.Bool("needs-race", false, "print yes/no: does the plan of this property and tier contain a -race batch")
	flag.Parse()
	if *needsRace {
		if sp := specs[*prop]; sp != nil && (anyRace(sp.Plan("quick")) || anyRace(sp.Plan("thorough"))) {
			fmt.Println("yes")
		} else {
			fmt.Println("no")
		}
		return
	}

	spec := specs[*prop]
	if spec == nil {
		fmt.Fprintf(os.Stderr, "vcheck: no check for %q\n", *prop)
		os.Exit(2)
	}
	seed := uint64(1)
	if s := os.Getenv("VERIF_SEED"); s != "" {
		if v, err := strconv.ParseInt(s, 10, 64); err == nil {
			seed = uint64(v)
		}
	}
	if t := os.Getenv("VERIF_TIER"); t == "quick" || t == "thorough" {
		if flag.Lookup("tier").Value.String() == "quick" && !isFlagSet("tier") {
			*tier = t
		}
	}
	start := time.Now()
	currentSeed = seed

	plan := spec.Plan(*tier)
	only := -1
	if *replay != "" {
		var rp struct {
			Property string `json:"property"`
			Seed     uint64 `json:"seed"`
			Tier     string `json:"tier"`
			Batch    int    `json:"batch"`
		}
		b, err := os.ReadFile(*replay)
		if err != nil || json.Unmarshal(b, &rp) != nil || rp.Property != *prop {
			fmt.Fprintf(os.Stderr, "vcheck: cannot read replay file %s\n", *replay)
			os.Exit(2)
		}
		seed, *tier, only = rp.Seed, rp.Tier, rp.Batch
		currentSeed = seed
		plan = spec.Plan(*tier)
	}

	runDir := filepath.Join(*root, ".build", *prop, fmt.Sprintf("run-%d", os.Getpid()))
	os.MkdirAll(runDir, 0o755)
	defer os.RemoveAll(runDir)

	par := spec.Parallel
	if par == 0 {
		par = 8
	}
	sem := make(chan struct{}, par)
	results := make([]childResult, len(plan))
	var wg sync.WaitGroup
	netnsOK, netnsWhy := true, ""
	for _, b := range plan {
		if b.Netns {
			if out, err := exec.Command("unshare", "-n", "sh", "-c", "ip link set lo up && ip link add vprobe0 type veth peer name vprobe1").CombinedOutput(); err != nil {
				netnsOK, netnsWhy = false, fmt.Sprintf("%v: %s", err, truncate(string(out), 200))
			}
			break
		}
	}
	for i, b := range plan {
		if only >= 0 && i != only {
			continue
		}
		if b.Netns && !netnsOK {
			results[i] = childResult{batch: i, spec: b, skip: "network namespaces with veth are not available here (" + netnsWhy + ")"}
			continue
		}
		wg.Add(1)
		go func(i int, b Batch) {
			defer wg.Done()
			sem <- struct{}{}
			defer func() { <-sem }()
			bin := *worker
			if b.Race {
				bin = *raceWorker
			}
			// index of the batch among the batches of the same mode (exhaustive enumerations are partitioned per mode)
			mi, mn := 0, 0
			for j, o := range plan {
				if o.Mode == b.Mode && o.RunAs == b.RunAs {
					if j < i {
						mi++
					}
					mn++
				}
			}
			results[i] = runChild(bin, *prop, *tier, seed, i, len(plan), mi, mn, b, runDir, par)
		}(i, b)
	}
	wg.Wait()

	// ---- merge
	findings := loadFindings(*root)
	merged := wk.New(*prop, *tier, seed, -1)
	distinct := map[uint64]struct{}{}
	type viol struct {
		wk.Violation
		Batch int
	}
	viols := []viol{}
	inconclusive := []string{}
	ran := 0
	exhaustive := true
	notes := map[string]string{}
	raceReports := 0
	envs := map[string]int{}
	skipped := []string{}
	for i, cr := range results {
		if only >= 0 && i != only {
			continue
		}
		if cr.skip != "" {
			skipped = append(skipped, fmt.Sprintf("batch %d (%s): %s", i, cr.spec.Mode, cr.skip))
			continue
		}
		ran++
		if cr.crash != "" {
			viols = append(viols, viol{wk.Violation{Key: *prop + ":crash:" + crashKey(faultingGoroutine(cr.crash)), What: "worker process died inside the library: " + firstLine(cr.crash), Witness: map[string]any{"trace": truncate(cr.crash, 6000), "mode": cr.spec.Mode, "env": cr.spec.Env}}, i})
		}
		if cr.timed {
			inconclusive = append(inconclusive, fmt.Sprintf("batch %d (%s): watchdog fired after %v", i, cr.spec.Mode, cr.spec.Timeout))
		} else if cr.err != nil && cr.crash == "" {
			inconclusive = append(inconclusive, fmt.Sprintf("batch %d (%s): %v: %s", i, cr.spec.Mode, cr.err, truncate(cr.stderr, 400)))
		}
		if cr.spec.Race {
			for _, rep := range racePat.FindAllString(cr.stderr, -1) {
				raceReports++
				key, lib := raceKey(rep)
				if lib {
					viols = append(viols, viol{wk.Violation{Key: *prop + ":race:" + key, What: "data race reported by the Go race detector in library code: " + key, Witness: map[string]any{"report": truncate(rep, 5000)}}, i})
				} else {
					inconclusive = append(inconclusive, "race report without a library frame (harness?): "+key)
				}
			}
		}
		if cr.res == nil {
			continue
		}
		r := cr.res
		merged.Evaluations += r.Evaluations
		merged.Inconclusive += r.Inconclusive
		merged.InconclWhy = append(merged.InconclWhy, r.InconclWhy...)
		for k, v := range r.Observed {
			if strings.HasPrefix(k, "max:") {
				if v > merged.Observed[k] {
					merged.Observed[k] = v
				}
			} else {
				merged.Observed[k] += v
			}
		}
		for k, v := range r.Notes {
			if k != "wall_s" {
				notes[k] = v
			}
		}
		envs[r.Env]++
		if len(merged.Samples) < 8 && len(r.Samples) > 0 {
			n := 2
			if n > len(r.Samples) {
				n = len(r.Samples)
			}
			merged.Samples = append(merged.Samples, r.Samples[:n]...)
		}
		if r.Rule != "" {
			merged.Rule = r.Rule
		}
		exhaustive = exhaustive && r.Exhaustive
		for _, v := range r.Violations {
			viols = append(viols, viol{v, i})
		}
		if r.NViolations > int64(len(r.Violations)) {
			merged.Observed["violations-not-listed(same keys)"] += r.NViolations - int64(len(r.Violations))
		}
		if r.DistinctFile != "" {
			if b, err := os.ReadFile(r.DistinctFile); err == nil {
				for j := 0; j+8 <= len(b); j += 8 {
					distinct[binary.LittleEndian.Uint64(b[j:])] = struct{}{}
				}
			}
		}
	}

	// ---- known findings
	known := map[string]bool{}
	real := []viol{}
	for _, v := range viols {
		matched := false
		for _, f := range findings {
			if f.Status == "open" && f.Property == *prop && strings.HasPrefix(v.Key, f.Key) {
				matched = true
				if !known[f.Key] {
					known[f.Key] = true
					fmt.Printf("KNOWN-FINDING: property=%s %s\n", *prop, f.What)
				}
			}
		}
		if !matched {
			real = append(real, v)
		}
	}

	// ---- evidence
	wall := time.Since(start).Seconds()
	cov := map[string]any{
		"evaluations":         merged.Evaluations,
		"distinct_nontrivial": len(distinct),
		"rule":                merged.Rule,
		"samples":             merged.Samples,
		"observed":            merged.Observed,
		"batches":             ran,
		"inconclusive_cases":  merged.Inconclusive,
		"exhaustive":          exhaustive && ran > 0,
	}
	if len(merged.InconclWhy) > 0 {
		cov["inconclusive_why"] = headStr(merged.InconclWhy, 10)
	}
	if len(inconclusive) > 0 {
		cov["inconclusive_batches"] = inconclusive
	}
	if len(notes) > 0 {
		cov["notes"] = notes
	}
	if len(skipped) > 0 {
		cov["skipped_batches"] = skipped
	}
	if len(envs) > 0 {
		ek := []string{}
		for k := range envs {
			ek = append(ek, k)
		}
		sort.Strings(ek)
		cov["environments"] = headStr(ek, 12)
		cov["environments_n"] = len(ek)
	}
	if raceReports > 0 || anyRace(plan) {
		cov["race_detector_reports"] = raceReports
	}
	if len(known) > 0 {
		kk := []string{}
		for k := range known {
			kk = append(kk, k)
		}
		cov["known_findings_seen"] = kk
	}
	if merged.Samples == nil {
		cov["samples"] = []any{}
	}
	ev := map[string]any{
		"property_id": *prop,
		"tier":        *tier,
		"seed":        int64(seed),
		"level":       spec.Level,
		"coverage":    cov,
		"assumptions": spec.Assumptions,
		"wall_s":      wall,
		"violations":  len(real),
	}
	if *replay == "" {
		os.MkdirAll(filepath.Join(*root, "evidence"), 0o755)
		b, _ := json.MarshalIndent(ev, "", " ")
		os.WriteFile(filepath.Join(*root, "evidence", *prop+".json"), append(b, '\n'), 0o644)
	}

	fmt.Printf("%s %s seed=%d: %d evaluations, %d distinct, %d batches, %.1fs; violations=%d known=%d inconclusive-cases=%d\n",
		*prop, *tier, seed, merged.Evaluations, len(distinct), ran, wall, len(real), len(known), merged.Inconclusive)

	if *replay == "" {
		// replay files of an earlier run with this seed describe another run (another tree, perhaps): they do not survive this one
		if old, _ := filepath.Glob(filepath.Join(*root, "replays", fmt.Sprintf("%s-%d-*.json", *prop, seed))); len(old) > 0 {
			for _, f := range old {
				os.Remove(f)
			}
		}
	}
	if len(real) > 0 {
		os.MkdirAll(filepath.Join(*root, "replays"), 0o755)
		seen := map[string]int{}
		for n, v := range real {
			seen[v.Key]++
			if seen[v.Key] > 2 {
				continue
			}
			path := filepath.Join(*root, "replays", fmt.Sprintf("%s-%d-%d.json", *prop, seed, n))
			b, _ := json.MarshalIndent(map[string]any{"property": *prop, "seed": seed, "tier": *tier, "batch": v.Batch, "case": v.Case, "key": v.Key, "what": v.What, "witness": v.Witness}, "", " ")
			os.WriteFile(path, b, 0o644)
			fmt.Printf("  %s\n", v.What)
			fmt.Printf("VIOLATION property=%s replay=%s\n", *prop, path)
		}
		os.Exit(1)
	}
	if len(inconclusive) > 0 {
		for _, s := range inconclusive {
			fmt.Printf("INCONCLUSIVE: %s\n", s)
		}
		os.Exit(2)
	}
	if merged.Evaluations == 0 {
		fmt.Printf("INCONCLUSIVE: the monitors observed nothing\n")
		os.Exit(2)
	}
}

func isFlagSet(name string) bool {
	set := false
	flag.Visit(func(f *flag.Flag) {
		if f.Name == name {
			set = true
		}
	})
	return set
}

func anyRace(plan []Batch) bool {
	for _, b := range plan {
		if b.Race {
			return true
		}
	}
	return false
}

func headStr(s []string, n int) []string {
	if len(s) > n {
		return s[:n]
	}
	return s
}

func truncate(s string, n int) string {
	if len(s) > n {
		return s[:n] + "…"
	}
	return s
}

func firstLine(s string) string {
	if i := strings.IndexByte(s, '\n'); i >= 0 {
		return s[:i]
	}
	return s
}

// faultingGoroutine: the part of a Go crash trace that belongs to the goroutine that panicked (the message and the first
// goroutine block) - other goroutines that merely happen to be inside the library at that moment say nothing about the crash.
func faultingGoroutine(trace string) string {
	i := strings.Index(trace, "\ngoroutine ")
	if i < 0 {
		return trace
	}
	rest := trace[i+1:]
	if j := strings.Index(rest, "\n\n"); j >= 0 {
		return trace[:i+1+j]
	}
	return trace
}

var frameRe = regexp.MustCompile(`github\.com/uhppoted/uhppote-core/([\w\-/]+)\.([\w\.\(\)\*\[\]]+)`)

// crashKey names a crash by its first library frame.
func crashKey(trace string) string {
	if m := frameRe.FindStringSubmatch(trace); m != nil {
		return m[1] + "." + m[2]
	}
	if strings.Contains(trace, "main.renderDelivered") {
		return "concurrent-map-access-to-a-delivered-value"
	}
	return "unknown"
}

// libraryCrash: the goroutine that brought the process down was inside the library - or it was the worker's renderDelivered, which
// only reads values the library handed to the event callback, and the runtime found one of their maps being written at the same
// time ("fatal error: concurrent map read and map write" / "... iteration and map write"): the harness never writes them, so the
// writer is the library.
func libraryCrash(trace string) bool {
	fg := faultingGoroutine(trace)
	if strings.Contains(fg, "uhppoted/uhppote-core/") {
		return true
	}
	return strings.HasPrefix(trace, "fatal error: concurrent map") && strings.Contains(fg, "main.renderDelivered")
}

// raceKey: pair of outermost library functions of the two stacks, line numbers stripped. A report is the library's when at
// least one of the two conflicting accesses was made by library code - the innermost frame of that stack that is neither
// runtime nor standard library belongs to the library. A report in which both accesses were made by harness code (an
// unsynchronised field of a test double, say), however deep inside a library call, is the harness's own and never a verdict.
func raceKey(rep string) (string, bool) {
	parts := regexp.MustCompile(`(?m)^(Write at|Read at|Previous write at|Previous read at|Goroutine \d+ .*created at)`).Split(rep, -1)
	fr := []string{}
	libAccess := false
	for n, p := range parts[1:] {
		if m := frameRe.FindStringSubmatch(p); m != nil && len(fr) < 2 {
			fr = append(fr, m[1]+"."+m[2])
		}
		if n < 2 {
			// who made this access: the first frame that is library or harness code
			for _, line := range strings.Split(p, "\n") {
				t := strings.TrimSpace(line)
				if strings.HasPrefix(t, "github.com/uhppoted/uhppote-core/") {
					libAccess = true
					break
				}
				if strings.HasPrefix(t, "verif/harness/") || strings.HasPrefix(t, "main.") {
					break
				}
			}
		}
	}
	if len(fr) == 0 {
		return "no-library-frame", false
	}
	sort.Strings(fr)
	if !libAccess {
		return "both-accesses-in-harness-code:" + strings.Join(fr, "|"), false
	}
	return strings.Join(fr, "|"), true
}

func runChild(bin, prop, tier string, seed uint64, i, n, mi, mn int, b Batch, dir string, par int) childResult {
	out := filepath.Join(dir, fmt.Sprintf("b%03d.json", i))
	wprop := prop
	if b.RunAs != "" {
		wprop = b.RunAs
	}
	args := []string{"-prop", wprop, "-tier", tier, "-seed", fmt.Sprint(seed), "-batch", fmt.Sprint(i), "-nbatch", fmt.Sprint(n), "-mbatch", fmt.Sprint(mi), "-mnbatch", fmt.Sprint(mn), "-mode", b.Mode, "-out", out}
	if b.RunAs != "" {
		args = append(args, "-report-as", prop, "-only-keys", strings.Join(b.Keys, ","))
	}
	timeout := b.Timeout
	if timeout == 0 {
		timeout = 10 * time.Minute
	}
	var cmd *exec.Cmd
	if b.Strace != "" {
		sargs := append([]string{"-f", "-ttt", "-o", out + ".strace"}, strings.Fields(b.Strace)...)
		sargs = append(sargs, bin)
		sargs = append(sargs, args...)
		cmd = exec.Command("strace", sargs...)
	} else if b.Netns {
		cmd = exec.Command("unshare", append([]string{"-n", bin}, args...)...)
	} else {
		cmd = exec.Command(bin, args...)
	}
	procs := b.Procs
	if procs == 0 {
		procs = 16 / par
		if procs < 2 {
			procs = 2
		}
	}
	cmd.Env = append(os.Environ(), "GOMAXPROCS="+fmt.Sprint(procs), "GOTRACEBACK=all", "VERIF_STRACE_LOG="+out+".strace")
	if b.Race {
		cmd.Env = append(cmd.Env, "GORACE=halt_on_error=0 exitcode=0 history_size=3")
	}
	hasTZ := false
	for _, e := range b.Env {
		if strings.HasPrefix(e, "TZ=") {
			hasTZ = true
		}
	}
	if !hasTZ {
		cmd.Env = append(cmd.Env, "TZ=UTC")
	}
	cmd.Env = append(cmd.Env, b.Env...)
	var stderr bytes.Buffer
	cmd.Stderr = &stderr
	cmd.Stdout = &stderr
	start := time.Now()
	cr := childResult{batch: i, spec: b, out: out}
	if err := cmd.Start(); err != nil {
		cr.err = err
		return cr
	}
	done := make(chan error, 1)
	go func() { done <- cmd.Wait() }()
	select {
	case err := <-done:
		cr.err = err
	case <-time.After(timeout):
		cmd.Process.Signal(os.Interrupt)
		time.Sleep(200 * time.Millisecond)
		cmd.Process.Kill()
		<-done
		cr.timed = true
		cr.err = fmt.Errorf("timeout")
	}
	cr.wall = time.Since(start)
	cr.stderr = stderr.String()
	if cr.err != nil && !cr.timed {
		s := cr.stderr
		if ix := strings.Index(s, "\npanic: "); ix >= 0 || strings.HasPrefix(s, "panic: ") {
			if ix < 0 {
				ix = 0
			}
			cr.crash = s[ix:]
		} else if ix := strings.Index(s, "fatal error: "); ix >= 0 {
			cr.crash = s[ix:]
		}
		if cr.crash != "" && !libraryCrash(cr.crash) {
			// a crash of the harness itself is never a verdict on the library
			cr.err = fmt.Errorf("worker crashed outside the library: %s", firstLine(cr.crash))
			cr.stderr = truncate(cr.crash, 1500)
			cr.crash = ""
		}
	}
	if b, err := os.ReadFile(out); err == nil {
		var r wk.Result
		if json.Unmarshal(b, &r) == nil {
			cr.res = &r
		}
	}
	return cr
}
