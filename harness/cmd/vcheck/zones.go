package main

import (
	"crypto/sha1"
	"fmt"
	"os"
	"path/filepath"
	"sort"
	"strings"
)

// fallbackZones is used when the system tz database cannot be listed (the worker embeds time/tzdata).
var fallbackZones = []string{"UTC", "America/Santiago", "America/Havana", "America/Asuncion", "America/Sao_Paulo", "Atlantic/Azores", "Europe/London", "Europe/Lisbon",
	"Asia/Kathmandu", "Australia/Eucla", "Asia/Tehran", "Pacific/Apia", "Pacific/Kiritimati", "Pacific/Chatham", "Australia/Lord_Howe", "America/New_York", "America/St_Johns",
	"Asia/Kolkata", "Africa/Cairo", "Asia/Beirut", "Asia/Gaza", "America/Godthab", "Etc/GMT+12", "Etc/GMT-14", "Asia/Tokyo", "Europe/Berlin", "America/Los_Angeles", "Pacific/Auckland", "Africa/Casablanca", "Asia/Amman"}

// oddZones are always part of the quick selection: skipped-midnight zones, numeric abbreviations, extremes, date-line hoppers,
// zones whose abbreviation is the same on both sides of a transition (SAST 1942-44, IST 1941-45).
var oddZones = []string{"UTC", "Africa/Johannesburg", "Asia/Kolkata", "America/Santiago", "America/Havana", "America/Asuncion", "America/Sao_Paulo", "Atlantic/Azores", "America/Scoresbysund", "Asia/Beirut", "Asia/Gaza", "Asia/Amman", "Asia/Damascus", "Africa/Cairo",
	"Europe/London", "Asia/Kathmandu", "Australia/Eucla", "Asia/Tehran", "Pacific/Apia", "Pacific/Kiritimati", "Pacific/Kwajalein", "Pacific/Chatham", "Australia/Lord_Howe", "America/New_York",
	"America/St_Johns", "Etc/GMT+12", "Etc/GMT-14", "America/Campo_Grande", "America/Cuiaba", "America/Bahia", "Asia/Tokyo", "Europe/Berlin", "America/Los_Angeles", "Pacific/Auckland", "America/Godthab", "Antarctica/Troll", "Africa/Casablanca", "America/Punta_Arenas"}

type zoneInfo struct {
	Name string
	Hash string
}

var zoneCache []zoneInfo

// allZones lists the IANA zone names installed, one per distinct zone file.
func allZones() []zoneInfo {
	if zoneCache != nil {
		return zoneCache
	}
	root := "/usr/share/zoneinfo"
	seen := map[string]string{}
	names := []string{}
	filepath.Walk(root, func(p string, info os.FileInfo, err error) error {
		if err != nil || info.IsDir() {
			return nil
		}
		rel := strings.TrimPrefix(p, root+"/")
		if strings.HasPrefix(rel, "posix/") || strings.HasPrefix(rel, "right/") || !strings.Contains(rel, "/") && rel != "UTC" {
			return nil
		}
		if rel[0] < 'A' || rel[0] > 'Z' {
			return nil
		}
		b, err := os.ReadFile(p)
		if err != nil || len(b) < 4 || string(b[:4]) != "TZif" {
			return nil
		}
		names = append(names, rel)
		seen[rel] = fmt.Sprintf("%x", sha1.Sum(b))
		return nil
	})
	sort.Strings(names)
	out := []zoneInfo{}
	if len(names) < 50 {
		for _, n := range fallbackZones {
			out = append(out, zoneInfo{n, n})
		}
		zoneCache = out
		return out
	}
	byHash := map[string]bool{}
	// prefer the well known names for a file shared by several links
	pref := map[string]bool{}
	for _, z := range oddZones {
		pref[z] = true
	}
	for _, n := range names {
		if pref[n] && !byHash[seen[n]] {
			byHash[seen[n]] = true
			out = append(out, zoneInfo{n, seen[n]})
		}
	}
	for _, n := range names {
		if !byHash[seen[n]] {
			byHash[seen[n]] = true
			out = append(out, zoneInfo{n, seen[n]})
		}
	}
	sort.Slice(out, func(i, j int) bool { return out[i].Name < out[j].Name })
	zoneCache = out
	return out
}

// pickZones: the odd zones plus a seed-rotated sample, k in total (k<=0: all distinct zone files).
func pickZones(k int, seed uint64) []string {
	all := allZones()
	if k <= 0 || k >= len(all) {
		out := []string{}
		for _, z := range all {
			out = append(out, z.Name)
		}
		return out
	}
	have := map[string]bool{}
	out := []string{}
	installed := map[string]bool{}
	for _, z := range all {
		installed[z.Name] = true
	}
	for _, z := range oddZones {
		if len(out) < k && installed[z] && !have[z] {
			have[z] = true
			out = append(out, z)
		}
	}
	// rotate through the rest by seed
	start := int(seed*7919) % len(all)
	for i := 0; len(out) < k && i < len(all); i++ {
		z := all[(start+i*37)%len(all)].Name
		if !have[z] {
			have[z] = true
			out = append(out, z)
		}
	}
	return out
}
