package main

import (
	"bufio"
	"context"
	"fmt"
	"github.com/uhppoted/uhppote-core/uhppote"
	"net"
	"os"
	"strconv"
	"strings"
	"sync"
	"sync/atomic"
	"syscall"
	"time"

	"github.com/uhppoted/uhppote-core/encoding/bcd"
	"github.com/uhppoted/uhppote-core/types"

	"verif/harness/adapter"
	"verif/harness/farm"
	"verif/harness/gen"
	rm "verif/harness/refmodel"
	"verif/harness/wk"
)

func init() { registry["C10"] = c10 }

type c10Datagram struct {
	sender  int
	n       int // position in the sender's stream
	data    []byte
	class   string
	verdict string // event | error | either
	exp     rm.CallExp
	serial  uint32
	seqid   uint32
	sentAt  int64
}

type c10Delivered struct {
	t        int64
	status   *types.Status
	fields   rm.Vals // projection at delivery (compared with the reference decoding of the datagram)
	snapshot string  // its rendering
	mine     string  // rendering after the application has written into the status it was given (compared again at the end)
	serial   uint32
	seqid    uint32
	instant  string // non-empty: a date-time of the status denotes another instant than its civil fields read in the process zone
}

// notLocal: the date-times of a status are civil times in the process zone (that is how GetStatus decodes the same datagram, and
// what Before/After and the JSON form go by): a value whose instant, seen in the process zone, shows other civil fields is not the
// decoding of the datagram even though it prints the same. Either instant of a repeated hour passes.
func notLocal(name string, dt types.DateTime) string {
	t := time.Time(dt)
	if t.IsZero() {
		return ""
	}
	const f = "2006-01-02 15:04:05"
	if a, b := t.Format(f), t.In(time.Local).Format(f); a != b {
		return fmt.Sprintf("%s prints %s but denotes %s in the process zone (location %v)", name, a, b, t.Location())
	}
	return ""
}

type c10Listener struct {
	mu             sync.Mutex
	connected      []int64
	events         []c10Delivered
	errors         []string
	acks           atomic.Int64
	slowEvery      int
	errFalse       bool          // OnError returns false
	scribble       bool          // the callback writes into the maps of the status it is given
	blockAt        int           // > 0: the callback of the blockAt-th event blocks until release is closed
	release        chan struct{} // (a burst piles up behind one busy callback)
	boundAtConnect bool
	addr           string
}

func (l *c10Listener) OnConnected() {
	// the socket must be bound by now: binding the same address again must fail
	bound := false
	if pc, err := net.ListenPacket("udp4", l.addr); err != nil {
		bound = true
	} else {
		pc.Close()
	}
	l.mu.Lock()
	l.connected = append(l.connected, farm.Mono())
	l.boundAtConnect = bound
	l.mu.Unlock()
}

func (l *c10Listener) OnEvent(s *types.Status) {
	fields := adapter.PStatus(s)
	d := c10Delivered{t: farm.Mono(), status: s, fields: fields, snapshot: fields.String(), serial: uint32(s.SerialNumber), seqid: s.SequenceId}
	if d.instant = notLocal("SystemDateTime", s.SystemDateTime); d.instant == "" {
		d.instant = notLocal("Event.Timestamp", s.Event.Timestamp)
	}
	if l.scribble {
		// the status is the application's: it flips every door flag in it - no other status, earlier or later, is affected
		for k, v := range s.DoorState {
			s.DoorState[k] = !v
		}
		for k, v := range s.DoorButton {
			s.DoorButton[k] = !v
		}
	}
	d.mine = adapter.PStatus(s).String()
	l.mu.Lock()
	l.events = append(l.events, d)
	n := len(l.events)
	l.mu.Unlock()
	if l.blockAt > 0 && n == l.blockAt {
		select {
		case <-l.release:
		case <-time.After(5 * time.Second):
		}
	}
	if l.slowEvery > 0 && n%l.slowEvery == 0 {
		time.Sleep(3 * time.Millisecond) // a slow consumer: datagrams pile up behind this callback
	}
	l.acks.Add(1)
}

func (l *c10Listener) OnError(err error) bool {
	l.mu.Lock()
	l.errors = append(l.errors, err.Error())
	l.mu.Unlock()
	l.acks.Add(1)
	return !l.errFalse // the library must cope with either answer
}

// c10Signal: an application defined os.Signal.
type c10Signal string

func (s c10Signal) String() string { return string(s) }
func (s c10Signal) Signal()        {}

// rxQueue: bytes waiting in the receive queue of the UDP socket bound to 127.0.0.3:port (-1: no such socket).
func rxQueue(port int) int64 {
	b, err := os.ReadFile("/proc/net/udp")
	if err != nil {
		return -1
	}
	want := fmt.Sprintf("0300007F:%04X", port)
	for _, line := range strings.Split(string(b), "\n") {
		f := strings.Fields(line)
		if len(f) > 4 && f[1] == want {
			if i := strings.IndexByte(f[4], ':'); i >= 0 {
				v, _ := strconv.ParseInt(f[4][i+1:], 16, 64)
				return v
			}
		}
	}
	return -1
}

// c10StopWithEventInHand: the callback is busy with event 1; event 2 has been read from the socket (the socket's receive queue is
// empty) and is waiting to be handed over; the stop signal arrives; only then does the callback return. Both events were received
// while listening: both are delivered, once, in order, and Listen returns nil.
func c10StopWithEventInHand(c *Ctx, r gen.R, round int) {
	port := freePort("127.0.0.3")
	if port == 0 {
		return
	}
	addr := fmt.Sprintf("127.0.0.3:%d", port)
	u := mkClient(ClientCfg{Bind: "127.0.0.1:0", Listen: addr, Timeout: time.Second})
	lst := &c10Listener{addr: addr, blockAt: 1, release: make(chan struct{})}
	q := make(chan os.Signal, 1)
	done := make(chan error, 1)
	go func() { done <- u.Listen(lst, q) }()
	for k := 0; k < 3000; k++ {
		lst.mu.Lock()
		n := len(lst.connected)
		lst.mu.Unlock()
		if n > 0 {
			break
		}
		time.Sleep(time.Millisecond)
	}
	conn, err := net.Dial("udp4", addr)
	if err != nil {
		q <- os.Interrupt
		return
	}
	defer conn.Close()
	ev := func(k uint32) []byte { return c17Event(0x0a000000+uint32(round), uint32(round)<<8+k) }
	extra := 1 + r.Pick(3)
	conn.Write(ev(1))
	for k := 0; k < 2000; k++ { // the callback has event 1
		lst.mu.Lock()
		n := len(lst.events)
		lst.mu.Unlock()
		if n >= 1 {
			break
		}
		time.Sleep(time.Millisecond)
	}
	for k := 0; k < extra; k++ {
		conn.Write(ev(uint32(2 + k)))
	}
	// the library has taken event 2 off the socket (it reads one datagram ahead of the busy callback); any further ones stay queued
	wantQueued := int64(extra - 1)
	read := false
	for k := 0; k < 1000; k++ {
		if v := rxQueue(port); v >= 0 && ((wantQueued == 0 && v == 0) || (wantQueued > 0 && v > 0 && k > 20)) {
			read = true
			break
		}
		time.Sleep(time.Millisecond)
	}
	time.Sleep(5 * time.Millisecond)
	c.Res.Eval(1)
	c.Res.DistinctKey("stop-with-event-in-hand", extra)
	c.Res.Count("cycles:stop-with-an-event-read-but-not-yet-delivered", 1)
	q <- os.Interrupt
	time.Sleep(time.Duration(5+r.Pick(40)) * time.Millisecond)
	close(lst.release)
	var lerr error
	select {
	case lerr = <-done:
	case <-liveAfter(5 * time.Second):
		c.Res.Violate("C10:stop:hang", "Listen did not return within 5 s of the stop signal (callback busy, an event in hand)", nil, int64(round))
		return
	}
	if lerr != nil {
		c.Res.Violate("C10:stop:error", "Listen returned an error after the stop signal: "+lerr.Error(), nil, int64(round))
	}
	time.Sleep(50 * time.Millisecond) // the dispatch goroutine may still be finishing its last callbacks
	lst.mu.Lock()
	defer lst.mu.Unlock()
	got := []uint32{}
	for _, e := range lst.events {
		got = append(got, e.seqid&0xff)
	}
	w := map[string]any{"delivered_sequence_ids": got, "sent": 1 + extra, "read_ahead_observed": read}
	if !read {
		c.Res.Inconcl("stop-with-event-in-hand: could not observe the socket's receive queue draining")
		return
	}
	// events 1 and 2 were received before the stop: they must be there, in order; later ones (still in the socket) may or may not be
	if len(got) < 2 || got[0] != 1 || got[1] != 2 {
		c.Res.Violate("C10:event:lost-at-stop", fmt.Sprintf("an event that had been read from the socket before the stop signal (the callback was busy with the one before it) was not delivered: delivered sequence ids %v", got), w, int64(round))
		return
	}
	for i := 1; i < len(got); i++ {
		if got[i] != got[i-1]+1 {
			c.Res.Violate("C10:event:order", fmt.Sprintf("events delivered out of order or twice around the stop: %v", got), w, int64(round))
			return
		}
	}
}

func rcvbufErrors() int64 {
	f, err := os.Open("/proc/net/snmp")
	if err != nil {
		return -1
	}
	defer f.Close()
	sc := bufio.NewScanner(f)
	var hdr []string
	for sc.Scan() {
		fs := strings.Fields(sc.Text())
		if len(fs) > 0 && fs[0] == "Udp:" {
			if hdr == nil {
				hdr = fs
				continue
			}
			for i, h := range hdr {
				if h == "RcvbufErrors" && i < len(fs) {
					var v int64
					fmt.Sscan(fs[i], &v)
					return v
				}
			}
		}
	}
	return -1
}

// c10Make builds the datagram stream of one sender.
func c10Make(r gen.R, z *zoneOracle, sender, count int, serialBase uint32, transitionDays []civil) []*c10Datagram {
	op := rm.FindOp("GetStatus")
	l := op.ReplyLayout()
	out := []*c10Datagram{}
	for n := 0; n < count; n++ {
		d := &c10Datagram{sender: sender, n: n}
		serial := serialBase + uint32(r.Pick(4))
		seqid := uint32(sender)<<24 | uint32(n+1)
		if sender%2 == 1 {
			seqid = uint32(sender)<<24 | uint32(count-n) // this controller's sequence ids run backwards (a restarted or restored controller): still one event each
		}
		mk := func(wellFormed bool) []byte {
			som := byte(0x17)
			if r.Chance(0.3) {
				som = 0x19 // v6.62 framing
			}
			msg := r.Reply(op, som, serial, rm.Vals{}, wellFormed)
			rm.EncodeField(msg, *l.Field("SequenceId"), rm.UVal(rm.U32, uint64(seqid)))
			return msg
		}
		switch k := r.Pick(20); {
		case k < 11:
			d.class = "valid"
			d.data = mk(true)
			if len(transitionDays) > 0 && r.Chance(0.5) { // system date on a day the zone changes its offset
				cv := transitionDays[r.Pick(len(transitionDays))]
				rm.EncodeField(d.data, *l.Field("SystemDate"), rm.Val{K: rm.SysDate, Y: cv.y, Mo: cv.m, D: cv.d})
				rm.EncodeField(d.data, *l.Field("SystemTime"), rm.Val{K: rm.SysTime, H: r.Pick(24), Mi: r.Pick(60), S: r.Pick(60)})
			}
		case k < 13:
			d.class = "any-field-values"
			d.data = mk(false)
		case k == 13:
			d.class = "wrong-length"
			n := []int{0, 1, 4, 7, 8, 63, 65, 66, 128, 1024, 2047, 2048, 2049, 3000, r.Pick(64), 65 + r.Pick(1500)}[r.Pick(16)]
			b := mk(true)
			if n <= 64 {
				d.data = b[:n]
			} else {
				d.data = append(b, make([]byte, n-64)...)
			}
		case k == 14:
			d.class = "serial-0"
			d.data = mk(true)
			copy(d.data[4:8], []byte{0, 0, 0, 0})
		case k == 15:
			d.class = "bad-protocol-id"
			d.data = mk(true)
			d.data[0] = []byte{0x00, 0x16, 0x18, 0x1a, 0xff}[r.Pick(5)]
		case k == 16:
			d.class = "wrong-function-code"
			d.data = mk(true)
			d.data[1] = []byte{0x00, 0x21, 0x94, 0xb0, 0x30, 0xff}[r.Pick(6)]
			if d.data[0] == 0x19 {
				d.data[0] = 0x17
			}
		case k == 17:
			d.class = "bad-boolean"
			d.data = mk(true)
			rm.EncodeField(d.data, *l.Field("EventIndex"), rm.UVal(rm.U32, uint64(1+r.Pick(1000))))
			f := []string{"Granted", "Door1State", "Door2State", "Door3State", "Door4State", "Door1Button", "Door4Button"}[r.Pick(7)]
			d.data[l.Field(f).Offset] = byte(2 + r.Pick(254))
		case k == 18:
			d.class = "bad-bcd"
			d.data = mk(true)
			f := []string{"SystemDate", "SystemTime", "Timestamp"}[r.Pick(3)]
			d.data[l.Field(f).Offset+r.Pick(3)] = byte(0xa0 + r.Pick(0x5f))
		default:
			d.class = "impossible-system-date-time"
			d.data = mk(true)
			if r.Chance(0.5) {
				copy(d.data[l.Field("SystemDate").Offset:], []byte{0x24, 0x02, 0x30})
			} else {
				copy(d.data[l.Field("SystemTime").Offset:], []byte{0x25, 0x00, 0x00})
			}
		}
		d.serial, d.seqid = serial, seqid
		// ---- verdict from the reference model
		switch {
		case len(d.data) != 64:
			d.verdict = "error"
		case d.data[4] == 0 && d.data[5] == 0 && d.data[6] == 0 && d.data[7] == 0:
			d.verdict = "error"
		case d.data[0] != 0x17 && d.data[0] != 0x19:
			d.verdict = "error"
		case d.data[1] != 0x20:
			d.verdict = "error"
		default:
			d.serial = uint32(d.data[4]) | uint32(d.data[5])<<8 | uint32(d.data[6])<<16 | uint32(d.data[7])<<24
			d.exp = op.Expect(d.serial, rm.Vals{}, d.data)
			switch {
			case d.exp.AcceptValue && !d.exp.AcceptErr:
				d.verdict = "event"
			case !d.exp.AcceptValue:
				d.verdict = "error"
			default:
				d.verdict = "either"
			}
			// a system date-time that does not exist in the process zone: its value is don't-care
			if e, ok := d.exp.Fields["SystemDateTime"]; ok && e.Mode == rm.Must && !e.V.Zero && z != nil {
				if !z.civilExists(e.V.Y, e.V.Mo, e.V.D, e.V.H, e.V.Mi, e.V.S) {
					e.Mode = rm.DontCare
					d.exp.Fields["SystemDateTime"] = e
				}
			}
			if e, ok := d.exp.Fields["Timestamp"]; ok && e.Mode == rm.Must && !e.V.Zero && z != nil {
				if !z.civilExists(e.V.Y, e.V.Mo, e.V.D, e.V.H, e.V.Mi, e.V.S) {
					e.Mode = rm.DontCare
					d.exp.Fields["Timestamp"] = e
				}
			}
		}
		out = append(out, d)
	}
	return out
}

func c10(c *Ctx) {
	zone := time.Local.String()
	c.Res.Rule = "start/stop cycles of the real listener on a loopback socket: 1-4 senders stream datagrams mixing valid events (all field values, index 0 and non-zero, zero and non-zero system date, 0x17 and 0x19 framing, system dates on the zone's transition days) with every malformed class, paced by acknowledgement (<= 24 outstanding) so that the kernel cannot drop; an offline checker compares the callback log with the send log: every must-deliver event exactly once with every field equal to the reference decoding, per-sender order, no event for invalid datagrams, one error callback per invalid datagram, connected exactly once after the socket is bound, stop returns nil within the watchdog and the address can be re-bound at once, delivered statuses unchanged at the end of the run; distinct = distinct (datagram class, verdict, senders, stop mode) + distinct datagrams"
	c.Res.Note("zone", zone)
	r := c.Rng("main/" + zone)
	if c.Mode == "idle" {
		c10Idle(c, r)
		return
	}
	z := newZoneOracle(time.Local)
	// transition days of the zone within the range of two digit system years
	tdays := []civil{}
	for i := 1; i < len(z.periods); i++ {
		if s := z.periods[i].start; s >= civilUnix(2000, 1, 2, 0, 0, 0) && s < civilUnix(2068, 12, 30, 0, 0, 0) {
			tdays = append(tdays, civilOf(s, time.Local), civilOf(s-3600, time.Local))
		}
	}
	cycles := c.N(10, 100)
	if c.Mode == "tz" {
		cycles = c.N(3, 10)
	}
	op := rm.FindOp("GetStatus")
	var prevU uhppote.IUHPPOTE
	var prevAddr string
	prevSelfPort := 0
	for cycle := 0; cycle < cycles; cycle++ {
		port := freePort("127.0.0.3")
		if port == 0 {
			c.Res.Inconcl("no free port")
			continue
		}
		addr := fmt.Sprintf("127.0.0.3:%d", port)
		// the first two senders' controllers are configured, each with a time zone of its own (far from the process zone)
		devs := []DevCfg{}
		for s := 0; s < 2; s++ {
			for k := 0; k < 4; k++ {
				devs = append(devs, DevCfg{ID: uint32(0x1a000000) + uint32(cycle)<<8 + uint32(s)<<4 + 1 + uint32(k), Name: fmt.Sprintf("c%d%d", s, k), Addr: "127.0.0.1:60000", Proto: "udp", NewDevice: k%2 == 0, TZ: []string{"Pacific/Kiritimati", "America/Anchorage", "Asia/Kathmandu", "UTC"}[(s*4+k+cycle)%4]})
			}
		}
		// the client's request timeout has nothing to do with listening: a listen-only application may well configure 0
		// round 11: every other fresh client has a FIXED bind port, and the first sender sends from exactly that address and port (a
		// controller may well sit there as far as the listener is concerned: the bind address is where requests leave from, it says
		// nothing about whose events are welcome; seeded C10-X: datagrams from the bind address:port are dropped as 'our own')
		bindAddr := "127.0.0.1:0"
		selfPort := 0
		if cycle%4 == 2 {
			if selfPort = unlistenedPort("127.0.0.1"); selfPort != 0 {
				bindAddr = fmt.Sprintf("127.0.0.1:%d", selfPort)
			}
		}
		u := mkClient(ClientCfg{Bind: bindAddr, Listen: addr, Timeout: []time.Duration{time.Second, 0, 2500 * time.Millisecond, -time.Second}[(cycle/2)%4], Devices: devs})
		if cycle%2 == 1 && prevU != nil {
			// the same client listens again on the same address: a second session is as good as the first
			u, addr = prevU, prevAddr
			selfPort = prevSelfPort
			c.Res.Count("cycles:same-client-listening-again", 1)
		}
		prevU, prevAddr, prevSelfPort = u, addr, selfPort
		lst := &c10Listener{addr: addr, errFalse: cycle%2 == 1, scribble: cycle%3 == 0}
		if cycle%3 == 1 {
			lst.slowEvery = 5 + r.Pick(10)
		}
		// every fifth cycle: one callback stays busy while a burst of 30..180 datagrams arrives behind it
		window := int64(24)
		if cycle%5 == 2 {
			lst.blockAt, lst.release = 1+r.Pick(20), make(chan struct{})
			window = int64(30 + r.Pick(150))
			c.Res.Count("cycles:burst-behind-a-busy-callback", 1)
			c.Res.Max("max:burst-behind-a-busy-callback", window)
		}
		q := make(chan os.Signal, 1)
		done := make(chan error, 1)
		dropsBefore := rcvbufErrors()
		go func() { done <- u.Listen(lst, q) }()
		okConn := false
		for k := 0; k < 3000; k++ {
			lst.mu.Lock()
			n := len(lst.connected)
			lst.mu.Unlock()
			if n > 0 {
				okConn = true
				break
			}
			select {
			case err := <-done:
				c.Res.Violate("C10:listen-returned-early", fmt.Sprintf("Listen returned %v before it was signalled", err), map[string]any{"zone": zone}, int64(cycle))
				k = 3000
			default:
				time.Sleep(time.Millisecond)
			}
		}
		if !okConn {
			c.Res.Violate("C10:connected:never", "the connected callback did not fire within 3 s", map[string]any{"zone": zone}, int64(cycle))
			q <- os.Interrupt
			continue
		}

		// every seventh cycle somebody else tries to take the listen address with SO_REUSEADDR set: it is in use (if the bind is
		// let through, whatever that socket swallows is missing from the callbacks below)
		if cycle%7 == 3 {
			lc := net.ListenConfig{Control: func(network, address string, rc syscall.RawConn) error {
				var serr error
				rc.Control(func(fd uintptr) { serr = syscall.SetsockoptInt(int(fd), syscall.SOL_SOCKET, syscall.SO_REUSEADDR, 1) })
				return serr
			}}
			if pc, err := lc.ListenPacket(context.Background(), "udp4", addr); err == nil {
				defer pc.Close()
				c.Res.Count("cycles:foreign-bind-of-the-listen-address-succeeded", 1)
			} else {
				c.Res.Count("cycles:foreign-bind-of-the-listen-address-refused", 1)
			}
		}
		// every third cycle the application's other goroutines are busy with the library too while the events come in: they decode
		// controller dates and times of their own (as polling GetTime / GetStatus does)
		busyStop := make(chan struct{})
		var busy sync.WaitGroup
		if cycle%3 == 0 {
			c.Res.Count("cycles:other-goroutines-decoding-dates-and-times-meanwhile", 1)
			for g := 0; g < 3; g++ {
				busy.Add(1)
				go func(g int) {
					defer busy.Done()
					defer func() { recover() }()
					t0 := time.Now()
					for k := 0; ; k++ {
						select {
						case <-busyStop:
							return
						default:
						}
						if k%512 == 511 && time.Since(t0) > 5*time.Second {
							return // (a cycle that was abandoned does not leave them spinning)
						}
						b := []byte{0x20, byte(0x10 + (k+g)%10), 0x12, 0x31, byte(0x10 + g), byte(k % 6 << 4), byte(k % 10)}
						bcd.Decode(b)
						var dt types.DateTime
						dt.UnmarshalUT0311L0x(b)
						var d types.Date
						d.UnmarshalUT0311L0x(b[:4])
						bcd.Encode(fmt.Sprintf("%08d", 20240101+k%28))
					}
				}(g)
			}
		}
		stopBusy := func() { close(busyStop); busy.Wait() }
		nSenders := 1 + r.Pick(4)
		perSender := c.N(60, 250) + r.Pick(100)
		stopMid := cycle%4 == 3
		streams := make([][]*c10Datagram, nSenders)
		for s := 0; s < nSenders; s++ {
			streams[s] = c10Make(r, z, s, perSender, uint32(0x1a000000)+uint32(cycle)<<8+uint32(s)<<4+1, tdays)
		}
		var sentTotal atomic.Int64
		var stalled atomic.Bool // a sender gave up waiting for acknowledgements (the checker below reports what is missing)
		var wg sync.WaitGroup
		stopSending := make(chan struct{})
		sentUpTo := make([]int, nSenders)
		for s := 0; s < nSenders; s++ {
			wg.Add(1)
			go func(s int) {
				defer wg.Done()
				var conn net.Conn
				var err error
				if s == 0 && selfPort != 0 {
					if ra, e := net.ResolveUDPAddr("udp4", addr); e == nil {
						if uc, e2 := net.DialUDP("udp4", &net.UDPAddr{IP: net.IPv4(127, 0, 0, 1), Port: selfPort}, ra); e2 == nil {
							conn = uc
							c.Res.Count("cycles:sender-at-the-clients-bind-address", 1)
						}
					}
				}
				if conn == nil {
					conn, err = net.Dial("udp4", addr)
				}
				if err != nil {
					return
				}
				defer conn.Close()
				for i, d := range streams[s] {
					waited := 0
					for sentTotal.Load()-lst.acks.Load() >= window {
						select {
						case <-stopSending:
							return
						default:
							time.Sleep(20 * time.Microsecond)
						}
						if waited++; waited > 40000 { // >= 0.8 s of sleeps (several seconds in practice) without an acknowledgement: the listener is not delivering
							stalled.Store(true)
							return
						}
					}
					select {
					case <-stopSending:
						return
					default:
					}
					d.sentAt = farm.Mono()
					sentTotal.Add(1)
					if _, err := conn.Write(d.data); err != nil {
						sentTotal.Add(-1)
						d.sentAt = 0
						continue
					}
					sentUpTo[s] = i + 1
				}
			}(s)
		}
		if lst.blockAt > 0 {
			// release the busy callback once the burst is in the socket buffer (or the senders have nothing left)
			go func() {
				for k := 0; k < 2000; k++ {
					if sentTotal.Load()-lst.acks.Load() >= window-1 {
						break
					}
					time.Sleep(time.Millisecond)
					if k > 50 && sentTotal.Load() >= int64(nSenders*perSender) {
						break
					}
				}
				time.Sleep(2 * time.Millisecond)
				close(lst.release)
			}()
		}
		if stopMid {
			time.Sleep(time.Duration(2+r.Pick(10)) * time.Millisecond)
			close(stopSending)
			wg.Wait()
		} else {
			wg.Wait()
			close(stopSending)
			// wait for the acknowledgements of everything sent
			for k := 0; k < 4000 && lst.acks.Load() < sentTotal.Load(); k++ {
				time.Sleep(time.Millisecond)
			}
		}
		stopBusy()
		stopWith := []os.Signal{os.Interrupt, syscall.SIGTERM, syscall.SIGUSR1, syscall.SIGHUP, syscall.SIGUSR2, c10Signal("stop")}[cycle%6] // whatever arrives on the channel stops the listener
		fullyAcked := lst.acks.Load() >= sentTotal.Load()
		if stalled.Load() {
			c.Res.Count("cycles:senders-gave-up-waiting-for-acknowledgements", 1)
		}
		tSignal := farm.Mono()
		q <- stopWith
		c.Res.Count("stop-signal:"+stopWith.String(), 1)
		var lerr error
		returned := false
		select {
		case lerr = <-done:
			returned = true
		case <-liveAfter(5 * time.Second):
		}
		tReturn := farm.Mono()
		c.Res.Eval(1)
		w := func(extra map[string]any) map[string]any {
			m := map[string]any{"zone": zone, "cycle": cycle, "senders": nSenders, "stop_mid_stream": stopMid, "slow_consumer_every": lst.slowEvery, "sent": sentTotal.Load(), "acks": lst.acks.Load()}
			for k, v := range extra {
				m[k] = v
			}
			return m
		}
		if !returned {
			c.Res.Violate("C10:stop:hang", "Listen did not return within 5 s of the stop signal", w(nil), int64(cycle))
			continue
		}
		if lerr != nil {
			c.Res.Violate("C10:stop:error", "Listen returned an error after the stop signal: "+lerr.Error(), w(nil), int64(cycle))
		}
		if pc, err := net.ListenPacket("udp4", addr); err != nil {
			c.Res.Violate("C10:stop:address-not-released", "the listen address cannot be bound right after Listen returned: "+err.Error(), w(nil), int64(cycle))
		} else {
			pc.Close()
		}
		c.Res.Max("max:stop-latency-us", (tReturn-tSignal)/1000)
		// the dispatch goroutine may still be finishing its last callback (not promised to be done at return)
		time.Sleep(20 * time.Millisecond)

		lst.mu.Lock()
		events := append([]c10Delivered{}, lst.events...)
		errs := append([]string{}, lst.errors...)
		connected := append([]int64{}, lst.connected...)
		bound := lst.boundAtConnect
		lst.mu.Unlock()
		dropped := rcvbufErrors() != dropsBefore

		if len(connected) != 1 {
			c.Res.Violate("C10:connected:count", fmt.Sprintf("the connected callback fired %d times", len(connected)), w(nil), int64(cycle))
		} else if !bound {
			c.Res.Violate("C10:connected:before-bind", "the connected callback fired before the listen socket was bound", w(nil), int64(cycle))
		}
		if len(events) > 0 && len(connected) > 0 && events[0].t < connected[0] {
			c.Res.Violate("C10:connected:after-event", "an event was delivered before the connected callback", w(nil), int64(cycle))
		}

		// ---- match deliveries to datagrams
		byID := map[[2]uint32]*c10Datagram{}
		for s := range streams {
			for _, d := range streams[s][:sentUpTo[s]] {
				if len(d.data) == 64 {
					byID[[2]uint32{d.serial, d.seqid}] = d
				}
			}
		}
		delivered := map[*c10Datagram]int{}
		lastN := map[int]int{}
		for _, ev := range events {
			c.Res.Eval(1)
			d := byID[[2]uint32{ev.serial, ev.seqid}]
			if d == nil {
				c.Res.Violate("C10:event:unknown", fmt.Sprintf("an event was delivered that no sender sent: serial %d sequence id %#x: %s", ev.serial, ev.seqid, ev.snapshot), w(nil), int64(cycle))
				continue
			}
			delivered[d]++
			if d.verdict == "error" {
				c.Res.Violate("C10:event:from-invalid-datagram:"+d.class, fmt.Sprintf("a %s datagram produced an event: %s", d.class, ev.snapshot), w(map[string]any{"datagram": wk.Hex(d.data)}), int64(cycle))
				continue
			}
			if delivered[d] > 1 {
				c.Res.Violate("C10:event:duplicate", fmt.Sprintf("event (serial %d, sequence id %#x) was delivered %d times", d.serial, d.seqid, delivered[d]), w(map[string]any{"datagram": wk.Hex(d.data)}), int64(cycle))
				continue
			}
			if prev, ok := lastN[d.sender]; ok && d.n < prev {
				c.Res.Violate("C10:event:reordered", fmt.Sprintf("sender %d: datagram #%d was delivered after #%d", d.sender, d.n, prev), w(nil), int64(cycle))
			}
			lastN[d.sender] = d.n
			// every field is the protocol decoding of that datagram
			if msg := d.exp.Judge(rm.Outcome{Fields: ev.fields}); msg != "" {
				key := "C10:event:content"
				if strings.Contains(msg, "SystemDateTime") {
					key = "C10:event:content:SystemDateTime"
				}
				c.Res.Violate(key, fmt.Sprintf("delivered event differs from the protocol decoding of its datagram: %s", msg), w(map[string]any{"datagram": wk.Hex(d.data), "delivered": ev.snapshot}), int64(cycle))
			}
			if ev.instant != "" {
				c.Res.Violate("C10:event:content:instant", "delivered event differs from the protocol decoding of its datagram: "+ev.instant, w(map[string]any{"datagram": wk.Hex(d.data), "delivered": ev.snapshot}), int64(cycle))
			}
			// ... and does not change afterwards
			if now := adapter.PStatus(ev.status).String(); now != ev.mine {
				c.Res.Violate("C10:event:changed-after-delivery", fmt.Sprintf("a delivered status changed after the callback: %s -> %s", ev.snapshot, now), w(nil), int64(cycle))
			}
			c.Res.DistinctHash(wk.Hash("dg", d.data))
		}
		// ---- losses and error callbacks (only when the stream was completely acknowledged)
		mustErr, either, eitherNoEvent, mustEvent := 0, 0, 0, 0
		for s := range streams {
			for _, d := range streams[s][:sentUpTo[s]] {
				c.Res.DistinctKey(d.class, d.verdict, nSenders, stopMid)
				c.Res.Count("datagrams:"+d.class, 1)
				switch d.verdict {
				case "error":
					mustErr++
				case "either":
					either++
					if delivered[d] == 0 {
						eitherNoEvent++
					}
				case "event":
					mustEvent++
					if delivered[d] == 0 && (fullyAcked || (stalled.Load() && !stopMid && d.sentAt != 0)) {
						// (stalled: the senders waited for seconds without a single callback although the socket was bound and the kernel
						// dropped nothing - the listener is not delivering what it receives)
						if dropped {
							c.Res.Inconcl("a valid event is missing but the kernel reported receive buffer drops")
						} else {
							c.Res.Violate("C10:event:lost", fmt.Sprintf("a valid event (sender %d #%d, serial %d, sequence id %#x) was never delivered", d.sender, d.n, d.serial, d.seqid), w(map[string]any{"datagram": wk.Hex(d.data)}), int64(cycle))
						}
					}
				}
			}
		}
		if fullyAcked && !dropped {
			wantErr := mustErr + eitherNoEvent
			if len(errs) != wantErr {
				c.Res.Violate("C10:error-callbacks:count", fmt.Sprintf("%d error callbacks for %d invalid datagrams (%d must-error + %d optional ones that produced no event)", len(errs), wantErr, mustErr, eitherNoEvent), w(map[string]any{"first_errors": headOf(errs, 5)}), int64(cycle))
			}
		} else if !fullyAcked && !stopMid {
			c.Res.Inconcl(fmt.Sprintf("stream not fully acknowledged: sent %d acks %d", sentTotal.Load(), lst.acks.Load()))
		}
		c.Res.Count("cycles", 1)
		c.Res.Count("events-delivered", int64(len(events)))
		c.Res.Count("error-callbacks", int64(len(errs)))
		c.Res.Count("must-deliver-events-sent", int64(mustEvent))
		if cycle == 0 && len(events) > 0 {
			c.Res.Sample(map[string]any{"zone": zone, "senders": nSenders, "sent": sentTotal.Load(), "events": len(events), "errors": len(errs), "first_event": events[0].snapshot})
		}
	}
	_ = op

	// ---- the stop signal arrives while an event that has been read is waiting behind a busy callback
	for k := 0; k < c.N(6, 60); k++ {
		c10StopWithEventInHand(c, r, k)
	}

	// ---- the stop signal is in the channel before Listen is called (Ctrl-C during start-up): the listener stops all the same
	for k := 0; k < c.N(6, 40); k++ {
		c10SignalledBeforeStart(c, k)
	}

	// ---- rapid start/stop cycles without traffic: the address must be free the moment Listen returns
	if c.Mode != "tz" {
		rapid := c.N(1500, 12000)
		fails := 0
		for i := 0; i < rapid; i++ {
			addr := fmt.Sprintf("127.0.0.3:%d", 20000+(c.Batch*13000+i)%40000)
			probe, err := net.ListenPacket("udp4", addr)
			if err != nil {
				continue // somebody else's port
			}
			probe.Close()
			u := mkClient(ClientCfg{Listen: addr, Timeout: time.Second})
			lst := &c08Listener{}
			q := make(chan os.Signal, 1)
			done := make(chan error, 1)
			go func() { done <- u.Listen(lst, q) }()
			ok := false
			for k := 0; k < 20000; k++ {
				if lst.connected.Load() > 0 {
					ok = true
					break
				}
				time.Sleep(50 * time.Microsecond)
			}
			q <- os.Interrupt
			select {
			case err := <-done:
				if err != nil && ok {
					c.Res.Violate("C10:stop:error", "Listen returned an error after the stop signal: "+err.Error(), nil, int64(i))
				}
			case <-liveAfter(5 * time.Second):
				c.Res.Violate("C10:stop:hang", "Listen did not return within 5 s of the stop signal (rapid cycle)", nil, int64(i))
				return
			}
			c.Res.Eval(1)
			if pc, err := net.ListenPacket("udp4", addr); err != nil {
				fails++
				if fails <= 2 {
					c.Res.Violate("C10:stop:address-not-released", "the listen address cannot be bound right after Listen returned (rapid start/stop cycle): "+err.Error(), map[string]any{"cycle": i}, int64(i))
				}
			} else {
				pc.Close()
			}
		}
		c.Res.Count("rapid-start-stop-cycles", int64(rapid))
		c.Res.DistinctKey("rapid-cycles", c.Batch)
	}
}

func headOf(s []string, n int) []string {
	if len(s) > n {
		return s[:n]
	}
	return s
}

// c10SignalledBeforeStart: the application's signal channel (buffered, as signal.Notify wants it) already holds the stop signal when
// Listen is called. "The listener stops when signalled, returns without error, and the listen address can be bound again."
func c10SignalledBeforeStart(c *Ctx, k int) {
	port := freePort("127.0.0.3")
	if port == 0 {
		return
	}
	addr := fmt.Sprintf("127.0.0.3:%d", port)
	u := mkClient(ClientCfg{Bind: "127.0.0.1:0", Listen: addr, Timeout: time.Second})
	lst := &c10Listener{addr: addr}
	q := make(chan os.Signal, 1+k%2)
	sig := []os.Signal{os.Interrupt, syscall.SIGTERM, syscall.SIGHUP}[k%3]
	q <- sig
	done := make(chan error, 1)
	go func() { done <- u.Listen(lst, q) }()
	c.Res.Eval(1)
	c.Res.DistinctKey("signalled-before-start", sig.String(), cap(q))
	c.Res.Count("cycles:stop-signal-in-the-channel-before-listen-is-called", 1)
	select {
	case err := <-done:
		if err != nil {
			if strings.Contains(err.Error(), "address already in use") {
				c.Res.Inconcl("bind collision on the listen port: " + err.Error())
				return
			}
			c.Res.Violate("C10:stop:error", fmt.Sprintf("Listen, called with the stop signal (%v) already in the channel, returned an error: %v", sig, err), nil, int64(k))
			return
		}
	case <-liveAfter(5 * time.Second):
		c.Res.Violate("C10:stop:hang", fmt.Sprintf("Listen, called with the stop signal (%v) already in the channel, did not return within 5 s", sig), nil, int64(k))
		q <- sig // let it go if it still can
		return
	}
	lst.mu.Lock()
	n := len(lst.connected)
	lst.mu.Unlock()
	if n > 1 {
		c.Res.Violate("C10:connected:count", fmt.Sprintf("the connected callback fired %d times in one session", n), nil, int64(k))
	}
	if pc, err := net.ListenPacket("udp4", addr); err != nil {
		c.Res.Violate("C10:rebind", "the listen address cannot be bound right after Listen returned: "+err.Error(), nil, int64(k))
	} else {
		pc.Close()
	}
}

// c10Idle: a listener that hears nothing for a long while (a quiet site at night) is still the same session afterwards: the
// connected callback has fired once, the address has been bound all the time (somebody else's bind is refused at every probe), the
// events that finally arrive are delivered, and it stops when signalled.
func c10Idle(c *Ctx, r gen.R) {
	idle := 33 * time.Second
	if c.Thorough() {
		idle = []time.Duration{33 * time.Second, 65 * time.Second, 125 * time.Second}[c.MBatch%3]
	}
	port := freePort("127.0.0.3")
	if port == 0 {
		c.Res.Inconcl("no free port")
		return
	}
	addr := fmt.Sprintf("127.0.0.3:%d", port)
	u := mkClient(ClientCfg{Bind: "127.0.0.1:0", Listen: addr, Timeout: time.Second})
	lst := &c10Listener{addr: addr}
	q := make(chan os.Signal, 1)
	done := make(chan error, 1)
	go func() { done <- u.Listen(lst, q) }()
	for k := 0; k < 3000; k++ {
		lst.mu.Lock()
		n := len(lst.connected)
		lst.mu.Unlock()
		if n > 0 {
			break
		}
		time.Sleep(time.Millisecond)
	}
	c.Res.Eval(1)
	c.Res.DistinctKey("idle", idle.String())
	c.Res.Note("idle", fmt.Sprintf("listener left without traffic for %v", idle))
	start := time.Now()
	probes, unbound := 0, 0
	for time.Since(start) < idle {
		select {
		case err := <-done:
			c.Res.Violate("C10:listen-returned-early", fmt.Sprintf("Listen returned %v after %v without traffic and without a stop signal", err, time.Since(start).Round(time.Millisecond)), nil, 0)
			return
		default:
		}
		if pc, err := net.ListenPacket("udp4", addr); err == nil {
			pc.Close()
			unbound++
		}
		probes++
		time.Sleep(25 * time.Millisecond)
	}
	c.Res.Count("idle:bind-probes", int64(probes))
	if unbound > 0 {
		c.Res.Violate("C10:idle:address-unbound", fmt.Sprintf("while the listener was idle its listen address could be bound by somebody else (%d of %d probes)", unbound, probes), nil, 0)
	}
	// the events that finally arrive
	if conn, err := net.Dial("udp4", addr); err == nil {
		for k := 0; k < 20; k++ {
			conn.Write(c17Event(0x0b000001, uint32(k+1)))
			time.Sleep(time.Millisecond)
		}
		conn.Close()
	}
	for k := 0; k < 2000; k++ {
		lst.mu.Lock()
		n := len(lst.events)
		lst.mu.Unlock()
		if n >= 20 {
			break
		}
		time.Sleep(time.Millisecond)
	}
	lst.mu.Lock()
	nev, ncon, nerr := len(lst.events), len(lst.connected), len(lst.errors)
	lst.mu.Unlock()
	c.Res.Count("idle:events-delivered-after-the-quiet-period", int64(nev))
	if ncon != 1 {
		c.Res.Violate("C10:connected:count", fmt.Sprintf("the connected callback fired %d times in one session (%v without traffic)", ncon, idle), nil, 0)
	}
	if nev != 20 || nerr != 0 {
		c.Res.Violate("C10:event:lost", fmt.Sprintf("after %v without traffic 20 valid events were sent: %d delivered, %d error callbacks", idle, nev, nerr), nil, 0)
	}
	q <- os.Interrupt
	select {
	case err := <-done:
		if err != nil {
			c.Res.Violate("C10:stop:error", "Listen returned an error after the stop signal: "+err.Error(), nil, 0)
		}
	case <-liveAfter(5 * time.Second):
		c.Res.Violate("C10:stop:hang", "Listen did not return within 5 s of the stop signal (after a long quiet period)", nil, 0)
		return
	}
	if pc, err := net.ListenPacket("udp4", addr); err != nil {
		c.Res.Violate("C10:rebind", "the listen address cannot be bound right after Listen returned: "+err.Error(), nil, 0)
	} else {
		pc.Close()
	}
}
