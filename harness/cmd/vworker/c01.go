package main

import (
	"fmt"
	"strings"
	"sync"
	"time"

	"github.com/uhppoted/uhppote-core/encoding/bcd"
	"github.com/uhppoted/uhppote-core/types"
	"github.com/uhppoted/uhppote-core/uhppote"

	"verif/harness/adapter"
	"verif/harness/gen"
	rm "verif/harness/refmodel"
	"verif/harness/wk"
)

func init() { registry["C01"] = c01 }

type memClient struct {
	u   uhppote.IUHPPOTE
	d   *adapter.MemDriver
	cfg ClientCfg
}

// c01Configs: the request bytes must not depend on how the controller is reached.
func c01Clients(r gen.R, known []uint32) []memClient {
	cfgs := []ClientCfg{
		{Bind: "0.0.0.0:0", Broadcast: "192.168.1.255:60000", Listen: "0.0.0.0:60001"},
		{Bind: "", Broadcast: "", Listen: ""},
	}
	protos := []string{"udp", "tcp", "", "any"}
	for i, id := range known {
		addr := fmt.Sprintf("10.1.%d.%d:%d", i/250, 1+i%250, 60000+i%3)
		if i%4 == 3 {
			addr = ""
		}
		// (each configured controller has a time zone of its own: neither requests nor results depend on it)
		cfgs[0].Devices = append(cfgs[0].Devices, DevCfg{ID: id, Name: fmt.Sprintf("dev%d", i), Addr: addr, Proto: protos[i%4], NewDevice: i%2 == 0, TZ: []string{"Pacific/Auckland", "America/New_York", "Asia/Kolkata"}[i%3],
			// (... and door names of its own - all four, fewer, some blank: the bytes of a request are those of the call's arguments)
			Doors: [][]string{{"front", "", "side", ""}, {"only"}, {"a", "b", "c", "d"}, nil, {"", "", "", ""}}[i%5]})
	}
	out := []memClient{}
	for _, cfg := range cfgs {
		u, d := mkMemClient(cfg)
		out = append(out, memClient{u, d, cfg})
	}
	return out
}

type c01Case struct {
	op     *rm.Op
	serial uint32
	args   rm.Vals
	pres   gen.Presentation
}

func c01Check(c *Ctx, mc memClient, cs c01Case, script adapter.Script, caseNo int64, tag string) {
	op := cs.op
	aux := toAux(cs.pres)
	fixArgs(op, cs.args, aux)
	mc.d.Reset()
	mc.d.Script = script

	var panicked bool
	var out rm.Outcome
	if op.Discovery {
		func() {
			defer func() {
				if r := recover(); r != nil {
					panicked, out = true, rm.Outcome{Err: fmt.Sprintf("panic: %v", r)}
				}
			}()
			_, err := mc.u.GetDevices()
			if err != nil {
				out.Err = err.Error()
			}
		}()
	} else {
		if caseNo%4 == 1 {
			c01ScribbleEncodings(c, cs.args)
		}
		out, panicked = adapter.SafeCall(mc.u, op.Name, cs.serial, cs.args, aux)
	}
	c.Res.Eval(1)
	c.Res.Count("calls:"+op.Name, 1)

	witness := func(extra map[string]any) map[string]any {
		w := map[string]any{"op": op.Name, "serial": cs.serial, "args": cs.args.String(), "presentation": fmt.Sprintf("%+v", cs.pres), "mode": tag, "outcome": out.Err}
		for k, v := range extra {
			w[k] = v
		}
		return w
	}
	if panicked {
		c.Res.Violate("C01:"+op.Name+":panic", "accepted call panicked instead of sending a request: "+out.Err, witness(nil), caseNo)
		return
	}

	serial := cs.serial
	if op.Discovery {
		serial = 0
	}
	want := op.Request(serial, cs.args)
	inv := mc.d.Invocations()
	if len(inv) != 1 {
		c.Res.Violate("C01:"+op.Name+":count", fmt.Sprintf("%s: %d requests reached the driver for one accepted call (expected exactly 1); outcome=%q", op.Name, len(inv), out.Err),
			witness(map[string]any{"requests": len(inv)}), caseNo)
		return
	}
	got := inv[0].Request
	c.Res.Count("requests-observed", 1)
	c.Res.DistinctKey(got)
	if len(got) != 64 || string(got) != string(want) {
		diff := diffOffsets(want, got)
		names := map[string]bool{}
		first := ""
		for _, i := range diff {
			n := fieldAt(op.ReqLayout(), i)
			if !names[n] && first == "" {
				first = n
			}
			names[n] = true
		}
		c.Res.Violate("C01:"+op.Name+":"+first, fmt.Sprintf("%s: request bytes differ from the protocol encoding at offsets %v (%s)", op.Name, diff, first),
			witness(map[string]any{"expected": wk.Hex(want), "got": wk.Hex(got), "offsets": diff}), caseNo)
		return
	}
	if caseNo%997 == 0 {
		c.Res.Sample(map[string]any{"op": op.Name, "serial": cs.serial, "args": cs.args.String(), "request": wk.Hex(got)})
	}
}

func c01(c *Ctx) {
	if c.Mode == "tz" {
		c01Zone(c)
		return
	}
	c.Res.Rule = "random interleaved call histories over all 32 operations on two clients per goroutine (two goroutines), plus per-field sweeps; every request recorded at the driver hook is compared byte-for-byte (all 64 bytes) with the reference encoding; distinct = distinct request byte strings observed"
	ops := []*rm.Op{}
	for i := range rm.Ops {
		ops = append(ops, &rm.Ops[i])
	}

	var wg sync.WaitGroup
	nG := 2
	perG := c.N(30000, 400000)
	for g := 0; g < nG; g++ {
		wg.Add(1)
		go func(g int) {
			defer wg.Done()
			r := c.Rng(fmt.Sprintf("hist%d", g))
			known := []uint32{}
			for i := 0; i < 8; i++ {
				known = append(known, r.Serial())
			}
			clients := c01Clients(r, known)
			for i := 0; i < perG; i++ {
				caseNo := int64(g*perG + i)
				mc := clients[r.Pick(len(clients))]
				op := ops[r.Pick(len(ops))]
				serial := r.Serial()
				if r.Chance(0.5) {
					serial = known[r.Pick(len(known))]
				}
				// history noise: rejected calls and failing transports in between
				switch r.Pick(20) {
				case 0:
					a, p := r.Args(op)
					if !op.Discovery {
						mc.d.Script = nil
						adapter.SafeCall(mc.u, op.Name, 0, a, toAux(p))
						c.Res.Count("noise:rejected-calls", 1)
					}
				case 1:
					a, p := r.Args(op)
					if !op.Discovery {
						mc.d.Script = func(adapter.Invocation) ([][]byte, error) { return nil, fmt.Errorf("network down") }
						adapter.SafeCall(mc.u, op.Name, serial, a, toAux(p))
						c.Res.Count("noise:transport-errors", 1)
					}
				}
				a, p := r.Args(op)
				var script adapter.Script
				mode := ""
				switch r.Pick(5) {
				case 0:
					mode = "silence"
				case 1:
					mode = "garbage-reply"
					junk := make([]byte, r.Pick(100))
					for k := range junk {
						junk[k] = byte(r.Pick(256))
					}
					script = func(adapter.Invocation) ([][]byte, error) { return [][]byte{junk}, nil }
				default:
					mode = "valid-reply"
					if !op.NoReply {
						reply := r.Reply(op, 0x17, serial, a, true)
						script = func(adapter.Invocation) ([][]byte, error) { return [][]byte{reply}, nil }
					}
				}
				c01Check(c, mc, c01Case{op, serial, a, p}, script, caseNo, "history/"+mode)
			}
		}(g)
	}
	wg.Wait()
	c01Shared(c)

	// ---- per-field sweeps, partitioned over batches
	r := c.Rng("sweep")
	clients := c01Clients(r, []uint32{r.Serial(), r.Serial()})
	caseNo := int64(10_000_000)
	slot := 0
	mine := func() bool { slot++; return slot%c.NBatch == c.Batch }
	sweep := func(op *rm.Op, field string, vals []rm.Val, tag string) {
		for _, v := range vals {
			a, p := r.Args(op)
			// keep op-specific constraints generated by Args, then force the swept field
			a[field] = v
			if op.Name == "SetTimeProfile" && strings.HasPrefix(field, "Segment") {
				// keep End >= Start: set both ends of the segment to the swept value
				a[field[:8]+"Start"], a[field[:8]+"End"] = v, v
			}
			if (p.NilMap || p.AbsentDoors != 0) && len(field) == 5 && strings.HasPrefix(field, "Door") {
				p.NilMap, p.AbsentDoors = false, 0
				p.ExtraKeys = false
				for _, n := range []string{"Door1", "Door2", "Door3", "Door4"} {
					if n != field {
						a[n] = rm.UVal(rm.U8, uint64(r.U8()))
					}
				}
			}
			serial := r.Serial()
			reply := okReply(op, serial)
			c01Check(c, clients[r.Pick(2)], c01Case{op, serial, a, p}, func(adapter.Invocation) ([][]byte, error) { return [][]byte{reply}, nil }, caseNo, tag)
			caseNo++
		}
	}

	for _, op := range reqOps() {
		for _, f := range op.ArgFields() {
			if op.Name == "SetDoorPasscodes" || op.Name == "SetTime" {
				continue // arguments are derived (clamped list / time.Time): covered by the random histories
			}
			switch f.Kind {
			case rm.U8:
				if !mine() {
					continue
				}
				if op.Name == "AddTask" && f.Name == "Task" {
					vals := []rm.Val{}
					for v := 0; v < 13; v++ {
						vals = append(vals, rm.UVal(rm.U8, uint64(v)))
					}
					sweep(op, f.Name, vals, "sweep/u8")
					continue
				}
				vals := []rm.Val{}
				for v := 0; v < 256; v++ {
					vals = append(vals, rm.UVal(rm.U8, uint64(v)))
				}
				sweep(op, f.Name, vals, "sweep/u8")
				c.Res.Count("sweep:u8-fields-exhaustive", 1)
			case rm.HHmm:
				if !mine() {
					continue
				}
				vals := []rm.Val{}
				for h := 0; h < 24; h++ {
					for m := 0; m < 60; m++ {
						vals = append(vals, rm.HHmmVal(h, m))
					}
				}
				vals = append(vals, rm.HHmmVal(24, 0))
				sweep(op, f.Name, vals, "sweep/hhmm")
				c.Res.Count("sweep:hhmm-fields-exhaustive(1441)", 1)
			case rm.U32:
				if !mine() {
					continue
				}
				vals := []rm.Val{}
				for b := 0; b < 32; b++ {
					vals = append(vals, rm.UVal(rm.U32, uint64(1)<<b), rm.UVal(rm.U32, uint64(^(uint32(1)<<b))))
				}
				if op.Name == "PutCard" {
					vals = vals[:0]
					for b := 0; b < 32; b++ {
						vals = append(vals, rm.UVal(rm.U32, uint64(1)<<b))
					}
				}
				sweep(op, f.Name, vals, "sweep/u32-bitwalk")
			case rm.PIN:
				if c.Thorough() {
					vals := []rm.Val{}
					for v := c.Batch; v < 1000000; v += c.NBatch {
						vals = append(vals, rm.UVal(rm.PIN, uint64(v)))
					}
					sweep(op, f.Name, vals, "sweep/pin")
					c.Res.Count("sweep:pin-all-1e6(partitioned)", 1)
				} else if mine() {
					vals := []rm.Val{}
					for v := 0; v < 1000000; v += 97 {
						vals = append(vals, rm.UVal(rm.PIN, uint64(v)))
					}
					vals = append(vals, rm.UVal(rm.PIN, 999999))
					sweep(op, f.Name, vals, "sweep/pin")
				}
			case rm.AddrPort:
				vals := []rm.Val{}
				step := 1
				if !c.Thorough() {
					step = 13
				}
				for p := 1 + c.Batch*step; p < 65536; p += c.NBatch * step {
					ipv := r.IP()
					vals = append(vals, rm.Val{K: rm.AddrPort, B: ipv.B, U: uint64(p)})
				}
				sweep(op, f.Name, vals, "sweep/port")
			case rm.Date:
				// every calendar day in a range; thorough: the full 0001-01-02..9999-12-31 domain partitioned over batches
				vals := []rm.Val{}
				if c.Thorough() {
					for y := 1 + c.Batch; y <= 9999; y += c.NBatch {
						for m := 1; m <= 12; m++ {
							for d := 1; d <= rm.DaysIn(y, m); d++ {
								if y == 1 && m == 1 && d == 1 {
									continue
								}
								vals = append(vals, rm.DateVal(y, m, d))
							}
						}
					}
					c.Res.Count("sweep:date-fields-all-days(partitioned)", 1)
				} else if mine() {
					for _, y := range []int{1, 1 + r.Pick(9999), 2000, 2024, 9999, 1900} {
						for m := 1; m <= 12; m++ {
							for d := 1; d <= rm.DaysIn(y, m); d++ {
								if y == 1 && m == 1 && d == 1 {
									continue
								}
								vals = append(vals, rm.DateVal(y, m, d))
							}
						}
					}
				}
				sweep(op, f.Name, vals, "sweep/date")
			}
		}
	}
	c.Res.Note("sweeps", "u8 fields: all 256 values; HH:mm fields: all 1441 values; u32 fields: bit walks; PIN: all 10^6 (thorough) or every 97th; ports: all 65535 (thorough) or every 13th; date fields: every day 0001-01-02..9999-12-31 (thorough) or six whole years")
}

// c01Shared: several goroutines use ONE client at the same time while the (in-memory) transport behaves like the real
// one on a fixed bind port - calls queue on a guard and the request slice is read when a call gets its turn, which can be
// long after the library built it. Every call carries a unique serial number; when all calls have returned, the bytes the
// transport read for each serial number must be the reference encoding of that call, exactly once.
func c01Shared(c *Ctx) {
	rounds := c.N(60, 600)
	G := 6
	K := 8
	ops := reqOps()
	for round := 0; round < rounds; round++ {
		u, d := mkMemClient(ClientCfg{Bind: "0.0.0.0:54321", Broadcast: "192.168.1.255:60000"})
		d.Serialize = true
		if round%3 == 0 {
			d.Hold = 50 * time.Microsecond
		}
		type call struct {
			op     *rm.Op
			serial uint32
			args   rm.Vals
			err    string
		}
		calls := make([][]call, G)
		var wg sync.WaitGroup
		gate := make(chan struct{})
		for g := 0; g < G; g++ {
			wg.Add(1)
			go func(g int) {
				defer wg.Done()
				rr := gen.New(c.Seed, fmt.Sprintf("C01/shared/%d/%d", round, g), c.Batch)
				<-gate
				for k := 0; k < K; k++ {
					op := ops[rr.Pick(len(ops))]
					a, p := rr.Args(op)
					aux := toAux(p)
					fixArgs(op, a, aux)
					serial := uint32(0x70000000) + uint32(round)<<12 + uint32(g)<<6 + uint32(k) + 1
					out, _ := adapter.SafeCall(u, op.Name, serial, a, aux)
					calls[g] = append(calls[g], call{op, serial, a, out.Err})
				}
			}(g)
		}
		close(gate)
		wg.Wait()
		atSend := map[uint32][][]byte{}
		for _, inv := range d.Invocations() {
			if len(inv.AtSend) >= 8 {
				s := uint32(inv.AtSend[4]) | uint32(inv.AtSend[5])<<8 | uint32(inv.AtSend[6])<<16 | uint32(inv.AtSend[7])<<24
				atSend[s] = append(atSend[s], inv.AtSend)
			}
		}
		for g := range calls {
			for _, cl := range calls[g] {
				c.Res.Eval(1)
				c.Res.Count("shared-client:calls", 1)
				c.Res.DistinctKey("shared", cl.op.Name, g)
				want := cl.op.Request(cl.serial, cl.args)
				got := atSend[cl.serial]
				w := map[string]any{"op": cl.op.Name, "serial": cl.serial, "args": cl.args.String(), "goroutines": G, "mode": "one client shared by several goroutines, transport reads the request when the call gets its turn"}
				if len(got) == 0 && cl.err != "" {
					c.Res.Count("shared-client:failed-without-sending(not judged here)", 1)
					continue
				}
				if len(got) != 1 {
					c.Res.Violate("C01:shared-client:count", fmt.Sprintf("%s: the transport sent %d requests carrying this call's serial number %d (expected exactly 1) - %d goroutines were using the client at the same time", cl.op.Name, len(got), cl.serial, G), w, int64(round))
					continue
				}
				if string(got[0]) != string(want) {
					w["expected"], w["got"] = wk.Hex(want), wk.Hex(got[0])
					c.Res.Violate("C01:shared-client:bytes", fmt.Sprintf("%s: the bytes the transport sent for this call differ from its encoding at offsets %v - %d goroutines were using the client at the same time", cl.op.Name, diffOffsets(want, got[0]), G), w, int64(round))
				}
			}
		}
	}
}

// c01Zone: the operations that carry dates, in a process time zone with daylight saving: the date arguments are the days
// around the zone's transitions - in particular days whose local midnight does not exist - and the request must carry exactly
// those digits (the same reference encoding as everywhere; a date argument is a calendar day, whatever the zone does to it).
func c01Zone(c *Ctx) {
	zone := time.Local.String()
	c.Res.Note("zone", zone)
	r := c.Rng("tz/" + zone)
	z := newZoneOracle(time.Local)
	days := []rm.Val{}
	for i := 1; i < len(z.periods); i++ {
		T := z.periods[i].start
		if T == farPast || T < civilUnix(1900, 1, 1, 0, 0, 0) || T > civilUnix(2200, 1, 1, 0, 0, 0) {
			continue
		}
		for _, du := range []int64{-86400, 0, 3600, 86400} {
			cv := civilOf(T+du, time.Local)
			if cv.y >= 1 && z.dayHasInstant(cv.y, cv.m, cv.d) {
				days = append(days, rm.DateVal(cv.y, cv.m, cv.d))
			}
		}
		before, after := z.periods[i-1].off, z.periods[i].off
		if after > before {
			if day := ((T + after) / 86400) * 86400; day >= T+before && day < T+after {
				cv := civilOf(day, time.UTC)
				if z.dayHasInstant(cv.y, cv.m, cv.d) {
					days = append(days, rm.DateVal(cv.y, cv.m, cv.d), rm.DateVal(cv.y, cv.m, cv.d)) // midnight in the gap: twice as likely
					c.Res.Count("zone:days-with-skipped-midnight", 1)
				}
			}
		}
	}
	if len(days) == 0 {
		days = append(days, rm.DateVal(2024, 3, 31))
	}
	clients := c01Clients(r, []uint32{r.Serial(), r.Serial()})
	ops := []*rm.Op{}
	for _, op := range reqOps() {
		for _, f := range op.ArgFields() {
			if f.Kind == rm.Date {
				ops = append(ops, op)
				break
			}
		}
	}
	N := c.N(3000, 40000)
	for i := 0; i < N; i++ {
		op := ops[r.Pick(len(ops))]
		a, p := r.Args(op)
		for _, f := range op.ArgFields() {
			if f.Kind == rm.Date && r.Chance(0.8) {
				a[f.Name] = days[r.Pick(len(days))]
			}
		}
		if op.Name == "SetTimeProfile" || op.Name == "AddTask" || op.Name == "PutCard" {
			// keep From <= To where the operation insists on it: order the pair
			if f, t := a["From"], a["To"]; f.K == rm.Date && t.K == rm.Date && (f.Y > t.Y || (f.Y == t.Y && (f.Mo > t.Mo || (f.Mo == t.Mo && f.D > t.D)))) {
				a["From"], a["To"] = t, f
			}
		}
		serial := r.Serial()
		reply := okReply(op, serial)
		c01Check(c, clients[r.Pick(2)], c01Case{op, serial, a, p}, func(adapter.Invocation) ([][]byte, error) { return [][]byte{reply}, nil }, int64(20_000_000+i), "zone/"+zone)
	}
	c.Res.Count("zone:transition-days", int64(len(days)))
}

// c01ScribbleEncodings: before the call the application encodes the very dates and times it is about to pass - with the public
// encoders of the value types and of the BCD package - and overwrites the byte slices it got back (they are its own: "a newly
// allocated slice"). What the call then sends is the protocol encoding all the same.
func c01ScribbleEncodings(c *Ctx, args rm.Vals) {
	defer func() { recover() }()
	scribble := func(b []byte) {
		for i := range b {
			b[i] = 0xee // (a constant: overwriting the same memory twice must not put the old content back)
		}
	}
	for _, v := range args {
		switch v.K {
		case rm.Date:
			if v.Zero || v.Y < 1 {
				continue
			}
			if b, err := types.ToDate(v.Y, time.Month(v.Mo), v.D).MarshalUT0311L0x(); err == nil {
				scribble(b)
			}
			if p, err := bcd.Encode(fmt.Sprintf("%04d%02d%02d", v.Y, v.Mo, v.D)); err == nil && p != nil {
				scribble(*p)
			}
			c.Res.Count("encodings-overwritten-by-the-application-before-the-call", 1)
		case rm.HHmm:
			if b, err := types.NewHHmm(v.H, v.Mi).MarshalUT0311L0x(); err == nil {
				scribble(b)
			}
			if p, err := bcd.Encode(fmt.Sprintf("%02d%02d", v.H, v.Mi)); err == nil && p != nil {
				scribble(*p)
			}
			c.Res.Count("encodings-overwritten-by-the-application-before-the-call", 1)
		}
	}
}
