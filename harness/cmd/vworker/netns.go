package main

import (
	"fmt"
	"os/exec"
	"strings"
)

// The "netns" modes run in a fresh network namespace (the parent starts the worker with `unshare -n`), in which
// the worker is root and builds a small private network:
//
//	v0 (veth, peer v1 up but unaddressed)  10.77.0.1/24 brd 10.77.0.255  + 10.77.0.2 .. 10.77.0.6 (the "controllers")
//	default route through v0, so that 255.255.255.255 is routable (limited broadcast leaves through v0 and is
//	looped back to local sockets bound to the wildcard address, as on a real LAN segment)
//	10.77.0.9: a permanent neighbour entry with a MAC address nobody owns - frames for it leave v0 and are dropped
//	           at v1: a host that never answers anything, not even a TCP SYN (black hole)
//	10.77.0.10: no neighbour entry - ARP fails after about 3 s (host unreachable)
//
// Nothing outside the namespace can send datagrams into it, so the farm's wildcard sockets see this worker's
// traffic only.
const (
	nsClient    = "10.77.0.1"
	nsBcast     = "10.77.0.255"
	nsBlackhole = "10.77.0.9"
	nsUnreach   = "10.77.0.10"
)

func nsCtl(k int) string { return fmt.Sprintf("10.77.0.%d", 2+k) }

func setupNetns() error {
	cmds := []string{
		"ip link set lo up",
		"ip link add v0 type veth peer name v1",
		"ip addr add 10.77.0.1/24 brd 10.77.0.255 dev v0",
	}
	for k := 0; k < 5; k++ {
		cmds = append(cmds, "ip addr add "+nsCtl(k)+"/24 dev v0")
	}
	cmds = append(cmds,
		"ip link set v0 up", "ip link set v1 up",
		"ip route add default dev v0",
		"ip neigh add "+nsBlackhole+" lladdr 02:00:00:00:00:09 dev v0 nud permanent",
	)
	for _, c := range cmds {
		if out, err := exec.Command("sh", "-c", c).CombinedOutput(); err != nil {
			return fmt.Errorf("%s: %v: %s", c, err, strings.TrimSpace(string(out)))
		}
	}
	return nil
}
