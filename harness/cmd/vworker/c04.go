package main

import (
	"encoding/json"
	"fmt"
	"net"
	"net/netip"
	"os"
	"reflect"
	"sync"
	"time"

	codec "github.com/uhppoted/uhppote-core/encoding/UTO311-L0x"
	"github.com/uhppoted/uhppote-core/encoding/bcd"
	"github.com/uhppoted/uhppote-core/messages"
	"github.com/uhppoted/uhppote-core/types"
	"github.com/uhppoted/uhppote-core/uhppote"

	"verif/harness/adapter"
	"verif/harness/gen"
	rm "verif/harness/refmodel"
	"verif/harness/wk"
)

func init() { registry["C04"] = c04 }

// guard runs f and reports a panic as a violation with the given key and witness.
func c04Guard(c *Ctx, key, what string, witness func() map[string]any, caseNo int64, f func()) (panicked bool) {
	defer func() {
		if p := recover(); p != nil {
			panicked = true
			w := witness()
			w["panic"] = fmt.Sprint(p)
			c.Res.Violate(key, fmt.Sprintf("%s panicked: %v", what, p), w, caseNo)
		}
	}()
	f()
	return false
}

// render: every value the API returns can be rendered with String() and JSON without panicking.
func c04Render(c *Ctx, op string, v any, caseNo int64, reply []byte) {
	c.Res.Count("rendered-results", 1)
	tname := reflect.TypeOf(v).String()
	w := func() map[string]any { return map[string]any{"op": op, "type": tname, "reply": wk.Hex(reply)} }
	key := "C04:render:" + tname
	if dcs, ok := v.(*types.DoorControlState); ok {
		if dcs.ControlState < 0 || dcs.ControlState > 3 {
			key = "C04:render:ControlState"
		}
	}
	c04Guard(c, key, "fmt %v of the "+tname+" returned by "+op, w, caseNo, func() { _ = fmt.Sprintf("%v", v) })
	if s, ok := v.(fmt.Stringer); ok {
		c04Guard(c, key, "String() of the "+tname+" returned by "+op, w, caseNo, func() { _ = s.String() })
	}
	c04Guard(c, key, "json.Marshal of the "+tname+" returned by "+op, w, caseNo, func() { json.Marshal(v) })
	// the values inside it
	rv := reflect.ValueOf(v)
	if rv.Kind() == reflect.Ptr {
		rv = rv.Elem()
	}
	if rv.Kind() == reflect.Struct {
		for i := 0; i < rv.NumField(); i++ {
			f := rv.Field(i)
			if !f.CanInterface() {
				continue
			}
			fv := f.Interface()
			fkey := key
			if _, ok := fv.(types.ControlState); ok {
				fkey = "C04:render:ControlState"
			}
			c04Guard(c, fkey, fmt.Sprintf("rendering field %s of the %s returned by %s", rv.Type().Field(i).Name, tname, op), w, caseNo, func() {
				_ = fmt.Sprintf("%v", fv)
				if s, ok := fv.(fmt.Stringer); ok && !(f.Kind() == reflect.Ptr && f.IsNil()) {
					_ = s.String()
				}
				json.Marshal(fv)
			})
		}
	}
}

func randomBytes(r gen.R, n int) []byte {
	b := make([]byte, n)
	switch r.Pick(6) {
	case 0: // all zero
	case 1:
		for i := range b {
			b[i] = 0xff
		}
	default:
		for i := range b {
			b[i] = byte(r.Pick(256))
		}
	}
	return b
}

func c04(c *Ctx) {
	if c.Mode == "loopback" {
		c04Loopback(c)
		return
	}
	c.Res.Rule = "(a) byte strings of length 0..2048 (random, all-0x00/0xff, valid messages with 1-3 mutated bytes, truncated/extended, every length 0..130) into every decoding entry point for all registered message types; (b) every operation through the in-memory driver with replies of arbitrary length and content, every non-nil result rendered with String(), fmt and JSON (also field by field); (c) the listener with arbitrary buffers; (d) hostile arguments: nil maps/slices/IPs, short IPs, zero and extreme time.Time, out-of-range enums, NewHHmm with any ints; a Go panic anywhere (recovered in the caller, or the worker process dying with a trace through the library) is the violation; distinct = distinct (entry point, input class, length class) keys + inputs"
	r := c.Rng("main")
	var caseNo int64

	// ---------------------------------------------------------------- (0) first use of everything, by 24 goroutines at once
	// (a fresh process per batch; an application that polls several controllers from the start does exactly this)
	{
		getTime := rm.FindOp("GetTime")
		replies := make([][]byte, 12)
		for g := range replies {
			replies[g] = validReply(r, getTime, 1000+uint32(g), rm.Vals{})
		}
		status := r.Reply(rm.FindOp("GetStatus"), 0x17, 4242, rm.Vals{}, true)
		clients := make([]uhppote.IUHPPOTE, 12)
		for g := range clients {
			u, d := mkMemClient(ClientCfg{Broadcast: "192.168.1.255:60000"})
			reply := replies[g]
			d.Script = func(adapter.Invocation) ([][]byte, error) { return [][]byte{reply}, nil }
			clients[g] = u
		}
		cardJSON := []byte(`{"card-number":8165538,"start-date":"2024-01-01","end-date":"2024-12-31","doors":{"1":true,"2":false,"3":29,"4":true},"PIN":7531}`)
		firstUse(c, "C04:first-use", "the library (an operation with a valid reply, decoders, parsers)", 12,
			func(g int) { bcd.Decode([]byte{0x20, 0x24, 0x12, 0x31}) },
			func(g int) { bcd.Encode("20241231") },
			func(g int) { clients[g].GetTime(1000 + uint32(g)) },
			func(g int) { messages.UnmarshalResponse(status) },
			func(g int) { messages.UnmarshalRequest(replies[g]) },
			func(g int) {
				var st messages.GetStatusResponse
				codec.Unmarshal(status, &st)
				_ = fmt.Sprintf("%v", st)
			},
			func(g int) { types.ParseDate("2024-02-29") },
			func(g int) { types.HHmmFromString("12:34") },
			func(g int) { types.ParseBindAddr("192.168.1.100:12345") },
			func(g int) { types.ParseBroadcastAddr("192.168.1.255") },
			func(g int) { types.ParseListenAddr("192.168.1.100:60001") },
			func(g int) { types.ParseControllerAddr("192.168.1.100") },
			func(g int) {
				var card types.Card
				json.Unmarshal(cardJSON, &card)
				json.Marshal(card)
				_ = fmt.Sprintf("%v", card)
				c.Res.Eval(1)
			})
	}

	if c.Mode == "firstuse" {
		return
	}
	mts := messageTypes(c) // (uses the library: must come after the first-use phase)
	// ---------------------------------------------------------------- (a) decoding entry points
	mkInput := func() ([]byte, string) {
		switch k := r.Pick(10); {
		case k < 2:
			n := r.Pick(2049)
			return randomBytes(r, n), "random"
		case k < 3:
			n := r.Pick(131)
			return randomBytes(r, n), "short-random"
		case k < 8: // a valid message of a random type, mutated
			mt := mts[r.Pick(len(mts))]
			msg := make([]byte, 64)
			if mt.layout != nil {
				op := &rm.Op{Fn: mt.layout.Fn}
				_ = op
				msg[0], msg[1] = mt.som, mt.layout.Fn
				for _, f := range mt.layout.Fields {
					copy(msg[f.Offset:], r.FieldBytes(f.Kind))
				}
			} else {
				msg[0], msg[1] = 0x17, 0xaa
			}
			for m := 0; m < r.Pick(4); m++ {
				msg[r.Pick(64)] = byte(r.Pick(256))
			}
			switch r.Pick(8) {
			case 0:
				return msg[:r.Pick(64)], "truncated"
			case 1:
				return append(msg, randomBytes(r, 1+r.Pick(70))...), "extended"
			case 2:
				return msg[:63], "truncated-63"
			case 3:
				return append(msg, 0), "extended-65"
			}
			return msg, "mutated-valid"
		default:
			msg := randomBytes(r, 64)
			msg[0] = []byte{0x17, 0x17, 0x17, 0x19, 0x00}[r.Pick(5)]
			if r.Chance(0.7) {
				msg[1] = rm.Layouts[r.Pick(len(rm.Layouts))].Fn
			}
			return msg, "random-64"
		}
	}
	N := c.N(40000, 1200000)
	for i := 0; i < N; i++ {
		caseNo++
		in, class := mkInput()
		mt := mts[r.Pick(len(mts))]
		w := func() map[string]any {
			return map[string]any{"input": wk.Hex(in), "len": len(in), "class": class, "type": mt.t.Name()}
		}
		c.Res.Eval(1)
		c.Res.DistinctHash(wk.Hash("in", in, mt.t.Name()))
		c.Res.Count("decode-inputs:"+class, 1)
		key := "C04:decode:" + mt.t.Name()
		c04Guard(c, key, "codec.Unmarshal into "+mt.t.Name(), w, caseNo, func() { codec.Unmarshal(in, reflect.New(mt.t).Interface()) })
		c04Guard(c, key, "codec.UnmarshalAs "+mt.t.Name(), w, caseNo, func() {
			if v, err := codec.UnmarshalAs(in, reflect.New(mt.t).Elem().Interface()); err == nil && v != nil {
				_ = fmt.Sprintf("%v", v)
			}
		})
		if i%4 == 0 {
			c04Guard(c, key, "codec.UnmarshalArrayElement "+mt.t.Name(), w, caseNo, func() {
				codec.UnmarshalArrayElement(in, reflect.New(reflect.SliceOf(mt.t)).Interface())
			})
			c04Guard(c, key, "codec.UnmarshalArray "+mt.t.Name(), w, caseNo, func() {
				in2, _ := mkInput()
				codec.UnmarshalArray([][]byte{in, in2, nil, {}}, reflect.New(reflect.SliceOf(mt.t)).Interface())
			})
		}
		c04Guard(c, "C04:dispatch:request", "messages.UnmarshalRequest", w, caseNo, func() {
			if v, err := messages.UnmarshalRequest(in); err == nil && v != nil {
				_ = fmt.Sprintf("%v", v)
			}
		})
		c04Guard(c, "C04:dispatch:response", "messages.UnmarshalResponse", w, caseNo, func() {
			if v, err := messages.UnmarshalResponse(in); err == nil && v != nil {
				_ = fmt.Sprintf("%v", v)
				json.Marshal(v)
			}
		})
		c04Guard(c, "C04:bcd:decode", "bcd.Decode", w, caseNo, func() { bcd.Decode(in) })
		c04Guard(c, "C04:bcd:encode", "bcd.Encode", w, caseNo, func() { bcd.Encode(string(in)) })
		c04Guard(c, "C04:codec:dump", "codec.Dump", w, caseNo, func() { _ = codec.Dump(in, " ") })
	}
	// every length 0..130 for every type (partitioned)
	for n := 0; n <= 130; n++ {
		for ti, mt := range mts {
			if (n+ti)%c.NBatch != c.Batch {
				continue
			}
			caseNo++
			in := randomBytes(r, n)
			if n >= 2 && mt.layout != nil {
				in[0], in[1] = mt.som, mt.layout.Fn
			}
			c.Res.Eval(1)
			c.Res.DistinctKey("len", n, mt.t.Name())
			c04Guard(c, "C04:decode:"+mt.t.Name(), fmt.Sprintf("codec.Unmarshal of %d bytes into %s", n, mt.t.Name()), func() map[string]any { return map[string]any{"input": wk.Hex(in), "len": n} }, caseNo, func() {
				codec.Unmarshal(in, reflect.New(mt.t).Interface())
			})
		}
	}

	// ---------------------------------------------------------------- (b) operations with arbitrary replies
	var lastReply []byte
	var lastCase int64
	adapter.ResultHook = func(op string, v any) { c04Render(c, op, v, lastCase, lastReply) }
	defer func() { adapter.ResultHook = nil }()
	ops := reqOps()
	M := c.N(60000, 1500000)
	paths := []string{"broadcast", "udp", "tcp"}
	clients := map[string]memClient{}
	known := r.Serial()
	for _, path := range paths {
		cfg := ClientCfg{Broadcast: "192.168.1.255:60000"}
		if path != "broadcast" {
			cfg.Devices = []DevCfg{{ID: known, Addr: "10.0.0.1:60000", Proto: path}}
		}
		u, d := mkMemClient(cfg)
		clients[path] = memClient{u, d, cfg}
	}
	for i := 0; i < M; i++ {
		caseNo++
		op := ops[r.Pick(len(ops))]
		path := paths[r.Pick(3)]
		mc := clients[path]
		serial := known
		a, p := r.Args(op)
		aux := toAux(p)
		fixArgs(op, a, aux)
		// reply: arbitrary length / content, or a structurally valid reply with arbitrary field bytes
		var reply []byte
		class := ""
		switch k := r.Pick(10); {
		case k < 2:
			reply, class = randomBytes(r, r.Pick(200)), "random-short"
		case k < 3:
			reply, class = randomBytes(r, r.Pick(2049)), "random-long"
		case k < 4:
			reply, class = randomBytes(r, r.Pick(9)), "tiny(0..8)"
		case k < 5:
			reply, class = []byte{}, "empty"
		default:
			if op.NoReply {
				reply, class = randomBytes(r, 64), "random-64"
			} else {
				reply, class = r.Reply(op, []byte{0x17, 0x17, 0x19}[r.Pick(3)], serial, a, false), "wellformed-header-any-fields"
				if r.Chance(0.15) {
					reply = reply[:r.Pick(65)]
					class = "truncated"
				}
			}
		}
		var script [][]byte
		switch r.Pick(4) {
		case 0:
			script = [][]byte{reply, randomBytes(r, r.Pick(100))}
		case 1:
			script = [][]byte{nil, reply}
		default:
			script = [][]byte{reply}
		}
		mc.d.Reset()
		mc.d.Script = func(adapter.Invocation) ([][]byte, error) { return script, nil }
		lastReply, lastCase = reply, caseNo
		c.Res.Eval(1)
		c.Res.DistinctKey("op", op.Name, path, class, len(reply) == 64)
		c.Res.Count("op-replies:"+class, 1)
		out, panicked := adapter.SafeCall(mc.u, op.Name, serial, a, aux)
		if panicked {
			c.Res.Violate("C04:operation:"+op.Name+":"+class, fmt.Sprintf("%s over %s panicked on a %s reply of %d bytes: %s", op.Name, path, class, len(reply), out.Err),
				map[string]any{"op": op.Name, "path": path, "reply": wk.Hex(reply), "args": a.String()}, caseNo)
		}
	}
	// discovery with arbitrary reply lists
	for i := 0; i < c.N(3000, 60000); i++ {
		caseNo++
		mc := clients["broadcast"]
		list := [][]byte{}
		for k := 0; k < r.Pick(8); k++ {
			switch r.Pick(3) {
			case 0:
				list = append(list, randomBytes(r, r.Pick(200)))
			case 1:
				list = append(list, r.Reply(rm.FindOp("GetDevices"), 0x17, r.Serial(), rm.Vals{}, false))
			default:
				list = append(list, nil)
			}
		}
		mc.d.Script = func(adapter.Invocation) ([][]byte, error) { return list, nil }
		c.Res.Eval(1)
		c04Guard(c, "C04:operation:GetDevices", "GetDevices", func() map[string]any { return map[string]any{"replies": len(list)} }, caseNo, func() {
			devs, err := mc.u.GetDevices()
			if err == nil {
				for k := range devs {
					c04Render(c, "GetDevices", &devs[k], caseNo, nil)
				}
			}
		})
	}

	// ---------------------------------------------------------------- (c) the listener with arbitrary buffers
	{
		u, d := mkMemClient(ClientCfg{Listen: "127.0.0.1:60001"})
		lst := &c13Listener{on: func(s *types.Status) {
			c04Render(c, "Listen", s, -1, nil)
		}}
		q := make(chan os.Signal, 1)
		done := make(chan error, 1)
		go func() { done <- u.Listen(lst, q) }()
		ready := false
		for k := 0; k < 2000 && !ready; k++ {
			ready = d.Push(nil)
			time.Sleep(100 * time.Microsecond)
		}
		if !ready {
			c.Res.Inconcl("listener over the in-memory driver did not start")
		} else {
			op := rm.FindOp("GetStatus")
			for i := 0; i < c.N(30000, 400000); i++ {
				caseNo++
				var buf []byte
				switch r.Pick(5) {
				case 0:
					buf = randomBytes(r, r.Pick(2049))
				case 1:
					buf = randomBytes(r, r.Pick(70))
				case 2:
					buf = nil
				default:
					buf = r.Reply(op, []byte{0x17, 0x19, 0x00}[r.Pick(3)], r.U32(), rm.Vals{}, r.Chance(0.5))
				}
				c.Res.Eval(1)
				c.Res.Count("listener-buffers", 1)
				c04Guard(c, "C04:listen", "the event listener's receive handler", func() map[string]any { return map[string]any{"buffer": wk.Hex(buf)} }, caseNo, func() { d.Push(buf) })
			}
		}
		q <- os.Interrupt
		select {
		case <-done:
		case <-liveAfter(5 * time.Second):
			c.Res.Inconcl("listener did not stop")
		}
	}

	// ---------------------------------------------------------------- (c') shutdown while the event callback is still busy
	if c.Batch == 0 {
		u, d := mkMemClient(ClientCfg{Listen: "127.0.0.1:60001"})
		first := true
		lst := &c13Listener{on: func(s *types.Status) {
			if first {
				first = false
				time.Sleep(3 * time.Second) // a consumer that is still busy when the stop signal arrives
			}
		}}
		q := make(chan os.Signal, 1)
		done := make(chan error, 1)
		go func() { done <- u.Listen(lst, q) }()
		ready := false
		for k := 0; k < 2000 && !ready; k++ {
			ready = d.Push(nil)
			time.Sleep(100 * time.Microsecond)
		}
		if ready {
			op := rm.FindOp("GetStatus")
			pushed := make(chan struct{})
			go func() {
				defer close(pushed)
				for k := 0; k < 3; k++ {
					ev := r.Reply(op, 0x17, 1000+uint32(k), rm.Vals{}, true)
					c04Guard(c, "C04:listen:shutdown-with-busy-consumer", "delivering an event while the listener is being shut down and the event callback is still busy", func() map[string]any { return map[string]any{"event": k} }, -2, func() { d.Push(ev) })
				}
			}()
			time.Sleep(50 * time.Millisecond)
			q <- os.Interrupt
			c.Res.Eval(1)
			c.Res.Count("shutdown-with-busy-consumer-scenarios", 1)
			select {
			case err := <-done:
				if err != nil {
					c.Res.Violate("C04:listen:shutdown-with-busy-consumer:error", "Listen returned an error when stopped while the event callback was busy: "+err.Error(), nil, -2)
				}
			case <-liveAfter(10 * time.Second):
				c.Res.Inconcl("listener did not stop within 10 s with a consumer busy for 3 s")
			}
			select {
			case <-pushed:
			case <-time.After(5 * time.Second):
			}
		}
	}

	// ---------------------------------------------------------------- (d) hostile arguments
	{
		u, d := mkMemClient(ClientCfg{Broadcast: "192.168.1.255:60000"})
		okScript := func(op *rm.Op, serial uint32) {
			reply := okReply(op, serial)
			d.Script = func(adapter.Invocation) ([][]byte, error) { return [][]byte{reply}, nil }
		}
		extremeTimes := []time.Time{{}, time.Date(0, 1, 1, 0, 0, 0, 0, time.UTC), time.Date(-1, 6, 15, 12, 0, 0, 0, time.UTC), time.Date(9999, 12, 31, 23, 59, 59, 999999999, time.UTC),
			time.Date(10000, 1, 1, 0, 0, 0, 0, time.UTC), time.Date(123456, 1, 1, 0, 0, 0, 0, time.UTC), time.Unix(1<<40, 0), time.Unix(-1<<40, 0), time.Date(2024, 2, 30, 25, 61, 61, 0, time.FixedZone("X", 20*3600))}
		hostileIPs := []net.IP{nil, {}, {1}, {1, 2, 3}, {1, 2, 3, 4}, {1, 2, 3, 4, 5}, net.ParseIP("::1"), net.ParseIP("2001:db8::1"), net.IPv4(1, 2, 3, 4), make(net.IP, 16), make(net.IP, 17)}
		for i := 0; i < c.N(4000, 60000); i++ {
			caseNo++
			serial := r.Serial()
			if r.Chance(0.1) {
				serial = 0
			}
			c.Res.Eval(1)
			w := func() map[string]any { return map[string]any{"case": i, "serial": serial} }
			switch i % 12 {
			case 0:
				okScript(rm.FindOp("SetTime"), serial)
				t := extremeTimes[r.Pick(len(extremeTimes))]
				c04Guard(c, "C04:argument:SetTime", fmt.Sprintf("SetTime(%v)", t), w, caseNo, func() {
					if v, err := u.SetTime(serial, t); err == nil && v != nil {
						c04Render(c, "SetTime", v, caseNo, nil)
					}
				})
			case 1:
				okScript(rm.FindOp("SetAddress"), serial)
				a, b, g := hostileIPs[r.Pick(len(hostileIPs))], hostileIPs[r.Pick(len(hostileIPs))], hostileIPs[r.Pick(len(hostileIPs))]
				c04Guard(c, "C04:argument:SetAddress", fmt.Sprintf("SetAddress(%v, %v, %v)", a, b, g), w, caseNo, func() { u.SetAddress(serial, a, b, g) })
			case 2:
				okScript(rm.FindOp("PutCard"), serial)
				card := types.Card{CardNumber: r.U32(), PIN: types.PIN(r.U32())}
				switch r.Pick(4) {
				case 0:
					card.Doors = nil
				case 1:
					card.Doors = map[uint8]uint8{}
				default:
					card.Doors = map[uint8]uint8{uint8(r.Pick(256)): r.U8(), 1: r.U8(), 4: 255}
				}
				if r.Chance(0.5) {
					card.From = types.Date(extremeTimes[r.Pick(len(extremeTimes))])
					card.To = types.Date(extremeTimes[r.Pick(len(extremeTimes))])
				}
				formats := []types.CardFormat{}
				for k := 0; k < r.Pick(4); k++ {
					formats = append(formats, types.CardFormat(r.Pick(256)))
				}
				c04Guard(c, "C04:argument:PutCard", fmt.Sprintf("PutCard(%+v, %v)", card, len(formats)), w, caseNo, func() { u.PutCard(serial, card, formats...) })
				c04Guard(c, "C04:render:Card", "rendering a caller-built card", w, caseNo, func() { _ = card.String(); json.Marshal(card); cl := card.Clone(); _ = cl })
			case 3:
				okScript(rm.FindOp("SetTimeProfile"), serial)
				prof := types.TimeProfile{ID: r.U8(), LinkedProfileID: r.U8()}
				if r.Chance(0.7) {
					prof.From, prof.To = types.Date(extremeTimes[r.Pick(len(extremeTimes))]), types.Date(extremeTimes[r.Pick(len(extremeTimes))])
				}
				switch r.Pick(4) {
				case 0:
					prof.Segments = nil
				case 1:
					prof.Segments = types.Segments{}
				default:
					prof.Segments = types.Segments{1: {Start: types.NewHHmm(r.Pick(200)-50, r.Pick(200)-50), End: types.NewHHmm(r.Pick(200)-50, r.Pick(200)-50)}, 2: {}, 3: {End: types.NewHHmm(99, 99)}, uint8(r.Pick(256)): {}}
				}
				if r.Chance(0.5) {
					prof.Weekdays = types.Weekdays{time.Weekday(r.Pick(20) - 5): true}
				}
				c04Guard(c, "C04:argument:SetTimeProfile", fmt.Sprintf("SetTimeProfile(%+v)", prof), w, caseNo, func() { u.SetTimeProfile(serial, prof) })
				c04Guard(c, "C04:render:TimeProfile", "rendering a caller-built time profile", w, caseNo, func() { _ = prof.String(); json.Marshal(prof) })
			case 4:
				okScript(rm.FindOp("AddTask"), serial)
				task := types.Task{Task: types.TaskType(r.Pick(13)), Door: r.U8(), Start: types.NewHHmm(r.Pick(300)-100, r.Pick(300)-100), Cards: r.U8()}
				if r.Chance(0.3) {
					task.Task = types.TaskType(r.Pick(600) - 300) // outside the enum: the operation must not crash (rendering such a value is the caller's doing)
				}
				if r.Chance(0.5) {
					task.From, task.To = types.Date(extremeTimes[r.Pick(len(extremeTimes))]), types.Date(extremeTimes[r.Pick(len(extremeTimes))])
				}
				c04Guard(c, "C04:argument:AddTask", fmt.Sprintf("AddTask(task type %d)", int(task.Task)), w, caseNo, func() { u.AddTask(serial, task) })
			case 5:
				okScript(rm.FindOp("SetListener"), serial)
				aps := []netip.AddrPort{{}, netip.MustParseAddrPort("[::1]:1"), netip.MustParseAddrPort("[fe80::1%eth0]:60001"), netip.MustParseAddrPort("[::ffff:1.2.3.4]:5"), netip.AddrPortFrom(netip.Addr{}, 9), netip.MustParseAddrPort("0.0.0.0:0"), netip.MustParseAddrPort("1.2.3.4:0"),
					netip.MustParseAddrPort("[::]:0"), netip.MustParseAddrPort("[::]:60001"), netip.MustParseAddrPort("[::ffff:0.0.0.0]:0"), netip.MustParseAddrPort("[::%lo]:0"), netip.AddrPortFrom(netip.IPv6Unspecified(), 0), netip.AddrPortFrom(netip.IPv6LinkLocalAllNodes(), 0), netip.MustParseAddrPort("[ff02::1]:60001")}
				ap := aps[r.Pick(len(aps))]
				c04Guard(c, "C04:argument:SetListener", fmt.Sprintf("SetListener(%v)", ap), w, caseNo, func() { u.SetListener(serial, ap, r.U8()) })
			case 6:
				okScript(rm.FindOp("SetDoorControlState"), serial)
				st := types.ControlState(r.Pick(70000) - 35000)
				c04Guard(c, "C04:argument:SetDoorControlState", fmt.Sprintf("SetDoorControlState(state %d)", int(st)), w, caseNo, func() {
					if v, err := u.SetDoorControlState(serial, r.U8(), st, r.U8()); err == nil && v != nil {
						c04Render(c, "SetDoorControlState", v, caseNo, nil)
					}
				})
			case 7:
				okScript(rm.FindOp("ActivateKeypads"), serial)
				var readers map[uint8]bool
				if r.Chance(0.5) {
					readers = map[uint8]bool{uint8(r.Pick(256)): true}
				}
				c04Guard(c, "C04:argument:ActivateKeypads", "ActivateKeypads", w, caseNo, func() { u.ActivateKeypads(serial, readers) })
			case 8:
				okScript(rm.FindOp("SetDoorPasscodes"), serial)
				var codes []uint32
				for k := 0; k < r.Pick(12); k++ {
					codes = append(codes, r.U32())
				}
				c04Guard(c, "C04:argument:SetDoorPasscodes", "SetDoorPasscodes", w, caseNo, func() { u.SetDoorPasscodes(serial, r.U8(), codes...) })
			case 9:
				okScript(rm.FindOp("SetInterlock"), serial)
				c04Guard(c, "C04:argument:SetInterlock", "SetInterlock", w, caseNo, func() { u.SetInterlock(serial, types.Interlock(r.Pick(256))) })
			case 10:
				// clients built from hostile configuration
				c04Guard(c, "C04:argument:NewUHPPOTE", "NewUHPPOTE / DeviceList / ListenAddrList with zero-valued configuration", w, caseNo, func() {
					x := uhppote.NewUHPPOTE(types.BindAddr{}, types.BroadcastAddr{}, types.ListenAddr{}, 0, nil, false)
					_ = x.DeviceList()
					_ = x.ListenAddrList()
					y := uhppote.NewUHPPOTE(types.BindAddr{}, types.BroadcastAddr{}, types.ListenAddr{AddrPort: netip.MustParseAddrPort("0.0.0.0:60001")}, time.Millisecond, []uhppote.Device{{}, {DeviceID: serial, Doors: nil, TimeZone: nil}}, false)
					_ = y.DeviceList()
					_ = y.ListenAddrList()
					dv := uhppote.NewDevice("", serial, types.ControllerAddr{}, "", nil, nil)
					_ = dv.Clone()
					var nd *uhppote.Device
					_ = nd.ID()
				})
				// ... every result-bearing operation and a listener event on a client whose controller is a sparse struct literal (no
				// time zone, no doors, no protocol), with a valid reply carrying a real system date and time
				{
					sparse := uhppote.NewUHPPOTE(types.BindAddr{}, types.BroadcastAddr{}, types.ListenAddr{AddrPort: netip.MustParseAddrPort("127.0.0.1:60001")}, time.Millisecond,
						[]uhppote.Device{{DeviceID: serial, Address: types.ControllerAddr{AddrPort: netip.MustParseAddrPort("192.168.1.100:60000")}}}, false)
					sd := &adapter.MemDriver{Scribble: true}
					if adapter.Install(sparse, sd) {
						ops := replyOps()
						op := ops[r.Pick(len(ops))]
						a, p := r.Args(op)
						aux := toAux(p)
						fixArgs(op, a, aux)
						reply := validReply(r, op, serial, a)
						sd.Script = func(adapter.Invocation) ([][]byte, error) { return [][]byte{reply}, nil }
						if _, pan := adapter.SafeCall(sparse, op.Name, serial, a, aux); pan {
							c.Res.Violate("C04:argument:sparse-device:"+op.Name, op.Name+" panicked on a client whose controller was configured as a struct literal without time zone, doors or protocol", w(), caseNo)
						}
					}
				}
			case 11:
				// text and JSON parsers of the public types with hostile text
				in, _ := mkInput()
				s := string(in)
				if len(s) > 40 {
					s = s[:40]
				}
				c04Guard(c, "C04:parser", fmt.Sprintf("a text/JSON parser on %q", s), w, caseNo, func() {
					types.ParseDate(s)
					types.HHmmFromString(s)
					types.TimeFromString(s)
					types.CardFormatFromString(s)
					types.ParseBindAddr(s)
					types.ParseBroadcastAddr(s)
					types.ParseListenAddr(s)
					types.ParseControllerAddr(s)
					var tt types.TaskType
					tt.UnmarshalTSV(s)
					js, _ := json.Marshal(s)
					for _, v := range []any{&types.Date{}, &types.DateTime{}, &types.HHmm{}, new(types.PIN), &types.Card{}, &types.TimeProfile{}, &types.Weekdays{}, &types.Segments{}, &types.Task{}, new(types.TaskType),
						new(types.ControlState), new(types.Version), &types.MacAddress{}, new(types.Weekdays), new(types.Segments), &types.BindAddr{}, &types.BroadcastAddr{}, &types.ListenAddr{}, &types.ControllerAddr{}} {
						json.Unmarshal(js, v)
						json.Unmarshal(in, v)
					}
				})
			}
		}
	}
	// ---------------------------------------------------------------- (e) several goroutines on one client with configured controllers
	// - one of them keeps re-addressing a controller (SetAddress), the others call, discover and list: nothing may blow up (a runtime
	// abort inside the library ends the worker process and is reported from its trace)
	if c.MBatch < 2 {
		serials := []uint32{405419896, 303986753, 201020304}
		uc, dc := mkMemClient(ClientCfg{Broadcast: "192.168.1.255:60000", Devices: []DevCfg{
			{ID: serials[0], Name: "a", Addr: "192.168.1.100:60000", Proto: "udp", NewDevice: true, Doors: []string{"d1", "d2", "d3", "d4"}},
			{ID: serials[1], Name: "b", Addr: "192.168.1.101:60000", Proto: "tcp"}, {ID: serials[2], Name: "c", Addr: "0.0.0.0:60000", Proto: "udp"}}})
		dc.Scribble = false
		dc.Script = func(inv adapter.Invocation) ([][]byte, error) {
			if len(inv.Request) < 8 || inv.Request[1] == 0x94 {
				return nil, nil
			}
			reply := make([]byte, 64)
			copy(reply, inv.Request[:8])
			return [][]byte{reply}, nil
		}
		var wg sync.WaitGroup
		rounds := c.N(3000, 30000)
		for g := 0; g < 6; g++ {
			wg.Add(1)
			go func(g int) {
				defer wg.Done()
				for k := 0; k < rounds; k++ {
					s := serials[(g+k)%3]
					c04Guard(c, "C04:concurrent-use", "several goroutines using one client (SetAddress, calls, GetDevices, DeviceList at the same time)", func() map[string]any { return map[string]any{"goroutine": g} }, -9, func() {
						switch g {
						case 0, 1:
							uc.SetAddress(s, net.IPv4(192, 168, 1, byte(100+k%50)), net.IPv4(255, 255, 255, 0), net.IPv4(192, 168, 1, 1))
						case 2:
							uc.GetTime(s)
						case 3:
							for _, dv := range uc.DeviceList() {
								_ = dv.Address.String()
							}
							uc.ListenAddrList()
						case 4:
							uc.GetDevice(s)
							uc.OpenDoor(s, uint8(1+k%4))
						default:
							uc.GetDevices()
						}
					})
				}
			}(g)
		}
		wg.Wait()
		c.Res.Eval(1)
		c.Res.DistinctKey("concurrent-use", "one-client")
		c.Res.Count("concurrent-calls-on-one-configured-client", int64(6*rounds))
	}
	c.Res.Sample(map[string]any{"decode_inputs": N, "operation_replies": M})
}
