package main

import (
	"fmt"
	"net/netip"
	"time"

	"github.com/uhppoted/uhppote-core/types"
	"github.com/uhppoted/uhppote-core/uhppote"

	"verif/harness/adapter"
	"verif/harness/gen"
	rm "verif/harness/refmodel"
)

type DevCfg struct {
	ID        uint32
	Name      string
	Addr      string // "" = zero value address; "a.b.c.d:p"
	Proto     string
	NewDevice bool // build with uhppote.NewDevice rather than a struct literal
	Doors     []string
	TZ        string // the controller's configured time zone ("" = UTC for struct literals, nil = time.Local for NewDevice)
}

type ClientCfg struct {
	Debug     bool   // client built with debug = true (the library then prints every message to stdout)
	Bind      string // "" = zero value
	Broadcast string // "" = zero value (unset)
	Listen    string
	Timeout   time.Duration
	Devices   []DevCfg
}

func addrPort(s string) netip.AddrPort {
	if s == "" {
		return netip.AddrPort{}
	}
	return netip.MustParseAddrPort(s)
}

func mkDevices(cfg ClientCfg) []uhppote.Device {
	devices := []uhppote.Device{}
	for _, d := range cfg.Devices {
		addr := types.ControllerAddr{AddrPort: addrPort(d.Addr)}
		var tz *time.Location
		if d.TZ != "" {
			tz, _ = time.LoadLocation(d.TZ)
		}
		if d.NewDevice {
			devices = append(devices, uhppote.NewDevice(d.Name, d.ID, addr, d.Proto, d.Doors, tz))
		} else {
			if tz == nil {
				tz = time.UTC
			}
			devices = append(devices, uhppote.Device{Name: d.Name, DeviceID: d.ID, Address: addr, Protocol: d.Proto, Doors: d.Doors, TimeZone: tz})
		}
	}
	return devices
}

func mkClient(cfg ClientCfg) uhppote.IUHPPOTE {
	return uhppote.NewUHPPOTE(
		types.BindAddr{AddrPort: addrPort(cfg.Bind)},
		types.BroadcastAddr{AddrPort: addrPort(cfg.Broadcast)},
		types.ListenAddr{AddrPort: addrPort(cfg.Listen)},
		cfg.Timeout, mkDevices(cfg), cfg.Debug)
}

// mkMemClient builds a client with the public constructor and replaces its transport by an in-memory driver.
func mkMemClient(cfg ClientCfg) (uhppote.IUHPPOTE, *adapter.MemDriver) {
	u := mkClient(cfg)
	d := &adapter.MemDriver{Scribble: true}
	if !adapter.Install(u, d) {
		panic("harness: cannot install the in-memory driver (hook missing?)")
	}
	return u, d
}

func toAux(p gen.Presentation) adapter.Aux {
	return adapter.Aux{AbsentDoors: p.AbsentDoors, NilMap: p.NilMap, AbsentDays: p.AbsentDays, AbsentRdrs: p.AbsentRdrs, DateCtor: p.DateCtor,
		Loc: p.Loc, ZeroTime: p.ZeroTime, Passcodes: p.Passcodes, Formats: p.Formats, IP16: p.IP16, ExtraKeys: p.ExtraKeys}
}

// fixArgs makes the effective argument values agree with what the presentation really passes (SetTime: the
// civil fields of the time.Time actually built, computed with the Go time package, not with the library).
func fixArgs(op *rm.Op, a rm.Vals, aux adapter.Aux) {
	if op.Name == "SetTime" {
		t := adapter.BuildTime(a, aux)
		if aux.ZeroTime {
			a["DateTime"] = rm.ZeroDateTime()
			return
		}
		y, m, d := t.Date()
		h, mi, s := t.Clock()
		a["DateTime"] = rm.DateTimeVal(y, int(m), d, h, mi, s)
	}
}

// reqOps are the 31 operations addressed to one controller (everything but GetDevices).
func reqOps() []*rm.Op {
	out := []*rm.Op{}
	for i := range rm.Ops {
		if !rm.Ops[i].Discovery {
			out = append(out, &rm.Ops[i])
		}
	}
	return out
}

// replyOps are the operations that decode a reply from the addressed controller.
func replyOps() []*rm.Op {
	out := []*rm.Op{}
	for i := range rm.Ops {
		if !rm.Ops[i].Discovery && !rm.Ops[i].NoReply {
			out = append(out, &rm.Ops[i])
		}
	}
	return out
}

func diffOffsets(a, b []byte) []int {
	out := []int{}
	n := len(a)
	if len(b) > n {
		n = len(b)
	}
	for i := 0; i < n; i++ {
		if i >= len(a) || i >= len(b) || a[i] != b[i] {
			out = append(out, i)
		}
	}
	return out
}

// fieldAt names the request/reply field covering byte offset i.
func fieldAt(l *rm.Layout, i int) string {
	if i == 0 {
		return "protocol-id"
	}
	if i == 1 {
		return "function-code"
	}
	for _, f := range l.Fields {
		if i >= f.Offset && i < f.Offset+f.Kind.Size() {
			return f.Name
		}
	}
	return fmt.Sprintf("unused-byte")
}

func okReply(op *rm.Op, serial uint32) []byte {
	msg := make([]byte, 64)
	msg[0], msg[1] = 0x17, op.Fn
	msg[4], msg[5], msg[6], msg[7] = byte(serial), byte(serial>>8), byte(serial>>16), byte(serial>>24)
	return msg
}

// validReply builds a well-formed reply that op(serial, a) must accept without error.
func validReply(r gen.R, op *rm.Op, serial uint32, a rm.Vals) []byte {
	if op.NoReply {
		return nil
	}
	msg := r.Reply(op, 0x17, serial, a, true)
	l := op.ReplyLayout()
	switch op.Name {
	case "GetCardByID":
		rm.EncodeField(msg, *l.Field("CardNumber"), rm.UVal(rm.U32, a["CardNumber"].U))
	case "GetTimeProfile":
		rm.EncodeField(msg, *l.Field("ProfileID"), rm.UVal(rm.U8, a["ProfileID"].U))
	case "GetEvent":
		if msg[l.Field("Type").Offset] == 0xff {
			msg[l.Field("Type").Offset] = 1
		}
	}
	return msg
}

// workerIP gives every worker goroutine of every batch its own loopback address for client sockets, so that a
// datagram the farm sends late to a port that has been closed can never reach another worker's (or another
// process's) client that happened to be given the same ephemeral port number.
func workerIP(c *Ctx, w int) string {
	return fmt.Sprintf("127.%d.%d.%d", 16+c.Batch%200, 1+w/250, 1+w%250)
}

// ipHex is the /proc/net spelling of an IPv4 address (little endian hex).
func ipHex(ip string) string {
	var a, b, cc, d int
	fmt.Sscanf(ip, "%d.%d.%d.%d", &a, &b, &cc, &d)
	return fmt.Sprintf("%02X%02X%02X%02X", d, cc, b, a)
}

// liveAfter is time.After for watchdogs whose firing becomes a verdict ("did not return within ..."): when the whole process (or
// the virtual machine: a snapshot being taken, SIGSTOP) was frozen for longer than d, the watchdog's timer and the deadline of the
// call it watches expire at the same instant on resume, and which goroutine runs first would decide the verdict. liveAfter
// therefore does not fire when the clock says d has passed, but 2 s of LIVE time later (twenty 100 ms ticks, each of which a
// freeze can shorten by at most one tick) - time in which a call whose deadline has expired comes back. A call that really hangs
// is still reported, 2 s later. (Found by a thorough C06 run during which `vp check` took its copy of the sandbox: all three
// workers of the four batches running at that moment "hung" at once.)
func liveAfter(d time.Duration) <-chan time.Time {
	ch := make(chan time.Time, 1)
	go func() {
		<-time.After(d)
		for i := 0; i < 20; i++ {
			time.Sleep(100 * time.Millisecond)
		}
		ch <- time.Now()
	}()
	return ch
}
