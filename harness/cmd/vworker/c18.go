package main

import (
	"fmt"
	"net"
	"net/netip"
	"reflect"
	"runtime"
	"sort"
	"strings"
	"sync"
	"sync/atomic"
	"time"

	codec "github.com/uhppoted/uhppote-core/encoding/UTO311-L0x"
	"github.com/uhppoted/uhppote-core/types"

	"verif/harness/gen"
	rm "verif/harness/refmodel"
	"verif/harness/wk"
)

func init() { registry["C18"] = c18 }

type fkind struct {
	name string
	t    reflect.Type
	size int
	ref  rm.Kind
	ptr  bool
	raw  bool // raw net.HardwareAddr (reference kind MAC)
}

var fkinds = []fkind{
	{"u8", reflect.TypeOf(uint8(0)), 1, rm.U8, false, false},
	{"u16", reflect.TypeOf(uint16(0)), 2, rm.U16, false, false},
	{"u32", reflect.TypeOf(uint32(0)), 4, rm.U32, false, false},
	{"bool", reflect.TypeOf(false), 1, rm.Bool, false, false},
	{"ipv4", tIP, 4, rm.IPv4, false, false},
	{"addrport", tAddrPort, 6, rm.AddrPort, false, false},
	{"hwaddr", tHWAddr, 6, rm.MAC, false, true},
	{"mac", tMAC, 6, rm.MAC, false, false},
	{"serial", tSerial, 4, rm.U32, false, false},
	{"date", tDate, 4, rm.Date, false, false},
	{"datetime", tDateTime, 7, rm.DateTime, false, false},
	{"sysdate", tSysDate, 3, rm.SysDate, false, false},
	{"systime", tSysTime, 3, rm.SysTime, false, false},
	{"hhmm", tHHmm, 2, rm.HHmm, false, false},
	{"pin", tPIN, 3, rm.PIN, false, false},
	{"version", tVersion, 2, rm.Version, false, false},
	{"fixed-byte", reflect.TypeOf(uint8(0)), 1, rm.U8, false, false}, // uint8 with a value: tag
	{"*date", reflect.PointerTo(tDate), 4, rm.Date, true, false},
	{"*datetime", reflect.PointerTo(tDateTime), 7, rm.DateTime, true, false},
	{"*hhmm", reflect.PointerTo(tHHmm), 2, rm.HHmm, true, false},
	{"*sysdate", reflect.PointerTo(tSysDate), 3, rm.SysDate, true, false},
	{"*systime", reflect.PointerTo(tSysTime), 3, rm.SysTime, true, false},
}

type lfield struct {
	k      fkind
	offset int
	name   string
	fixed  int    // fixed-byte: the value; -1 otherwise
	tagval string // how the fixed value is written in the tag
	embed  bool   // lives in the embedded struct
}

type layoutCase struct {
	fields  []lfield
	msgType int // -1: none
	mtTag   string
	mtInner bool // the MsgType field lives in the embedded struct (as in EventV6_62)
	innerAt int  // position of the embedded struct among the outer fields
	som     int  // -1: none
	somTag  string
}

func (lc layoutCase) String() string {
	parts := []string{}
	if lc.som >= 0 {
		parts = append(parts, "SOM{value:"+lc.somTag+"}")
	}
	if lc.msgType >= 0 {
		if lc.mtInner {
			parts = append(parts, "MsgType{value:"+lc.mtTag+"}(embedded)")
		} else {
			parts = append(parts, "MsgType{value:"+lc.mtTag+"}")
		}
	}
	for _, f := range lc.fields {
		s := fmt.Sprintf("%s@%d", f.k.name, f.offset)
		if f.fixed >= 0 {
			s += "{value:" + f.tagval + "}"
		}
		if f.embed {
			s += "(embedded)"
		}
		parts = append(parts, s)
	}
	return strings.Join(parts, " ")
}

func tagNumber(r gen.R, v int, byteField bool) string {
	if byteField {
		// for byte fields an unprefixed digit string is hexadecimal by the codec's own convention
		switch r.Pick(4) {
		case 0:
			return fmt.Sprintf("0x%02x", v)
		case 1:
			return fmt.Sprintf("0X%02X", v)
		case 2:
			return fmt.Sprintf("%02x", v)
		}
		return fmt.Sprintf("0x%X", v)
	}
	switch r.Pick(5) {
	case 0:
		return fmt.Sprintf("%d", v)
	case 1:
		return fmt.Sprintf("0x%02x", v)
	case 2:
		return fmt.Sprintf("0X%02X", v)
	case 3:
		return fmt.Sprintf("0x%02X", v)
	}
	return fmt.Sprintf("0x%x", v)
}

// build makes the struct type for a layout with reflect.StructOf.
func (lc layoutCase) build() (reflect.Type, error) {
	var typ reflect.Type
	var err error
	func() {
		defer func() {
			if p := recover(); p != nil {
				err = fmt.Errorf("reflect.StructOf: %v", p)
			}
		}()
		outer, inner := []reflect.StructField{}, []reflect.StructField{}
		if lc.som >= 0 {
			outer = append(outer, reflect.StructField{Name: "SOM", Type: tSOM, Tag: reflect.StructTag(`uhppote:"value:` + lc.somTag + `"`)})
		}
		if lc.msgType >= 0 {
			sf := reflect.StructField{Name: "MsgType", Type: tMsgType, Tag: reflect.StructTag(`uhppote:"value:` + lc.mtTag + `"`)}
			if lc.mtInner {
				inner = append(inner, sf)
			} else {
				outer = append(outer, sf)
			}
		}
		for _, f := range lc.fields {
			// the tag grammar allows blanks after the colon ("offset: 8", "value: 0x20"): every third field is written that way
			sp := []string{"", "", " ", "", "", "  "}[(f.offset+len(f.name))%6]
			tag := fmt.Sprintf(`uhppote:"offset:%s%d"`, sp, f.offset)
			if f.fixed >= 0 {
				tag = fmt.Sprintf(`uhppote:"offset:%s%d, value:%s%s"`, sp, f.offset, sp, f.tagval)
			}
			sf := reflect.StructField{Name: f.name, Type: f.k.t, Tag: reflect.StructTag(tag)}
			if f.embed {
				inner = append(inner, sf)
			} else {
				outer = append(outer, sf)
			}
		}
		if len(inner) > 0 {
			it := reflect.StructOf(inner)
			at := lc.innerAt % (len(outer) + 1)
			emb := reflect.StructField{Name: "Inner", Type: it, Anonymous: true}
			outer = append(outer[:at], append([]reflect.StructField{emb}, outer[at:]...)...)
		}
		typ = reflect.StructOf(outer)
	}()
	return typ, err
}

// value draws an in-domain value for a field kind: the Go value and its neutral form.
func c18Value(r gen.R, k fkind, f lfield) (reflect.Value, rm.Val) {
	wrap := func(v any, nv rm.Val) (reflect.Value, rm.Val) {
		rv := reflect.ValueOf(v)
		if k.ptr {
			if r.Chance(0.25) { // nil pointer == zero 'no value'
				z := rm.Val{K: k.ref}
				if k.ref == rm.Date || k.ref == rm.DateTime || k.ref == rm.SysDate {
					z.Zero = true
				}
				return reflect.Zero(k.t), z
			}
			p := reflect.New(k.t.Elem())
			p.Elem().Set(rv)
			return p, nv
		}
		return rv.Convert(k.t), nv
	}
	switch k.name {
	case "u8":
		x := r.U8()
		return wrap(x, rm.UVal(rm.U8, uint64(x)))
	case "fixed-byte":
		// the tag decides what is on the wire, whatever the struct field holds (round 10: the field left at zero, as the shipped
		// messages leave their MsgType, or holding any other value; seeded C18-W: zero-valued integers skipped on encode)
		x := uint8(f.fixed)
		if r.Chance(0.4) {
			x = 0
		} else if r.Chance(0.25) {
			x = r.U8()
		}
		return wrap(x, rm.UVal(rm.U8, uint64(f.fixed)))
	case "u16":
		x := uint16(r.Pick(65536))
		if r.Chance(0.2) {
			x = []uint16{0, 1, 0xff, 0x100, 0xfffe, 0xffff, 0x0102}[r.Pick(7)]
		}
		return wrap(x, rm.UVal(rm.U16, uint64(x)))
	case "u32", "serial":
		x := r.U32()
		return wrap(x, rm.UVal(rm.U32, uint64(x)))
	case "bool":
		b := r.Chance(0.5)
		return wrap(b, rm.BoolVal(b))
	case "ipv4":
		v := r.IP()
		if r.Chance(0.5) {
			return wrap(net.IPv4(v.B[0], v.B[1], v.B[2], v.B[3]), v)
		}
		return wrap(net.IP{v.B[0], v.B[1], v.B[2], v.B[3]}, v)
	case "addrport":
		v := r.IP()
		port := uint16(r.Pick(65536))
		if r.Pick(8) == 0 {
			v, port = rm.IPVal(0, 0, 0, 0), []uint16{0, 0, 60001}[r.Pick(3)]
		}
		return wrap(netip.AddrPortFrom(netip.AddrFrom4([4]byte{v.B[0], v.B[1], v.B[2], v.B[3]}), port), rm.Val{K: rm.AddrPort, B: v.B, U: uint64(port)})
	case "hwaddr", "mac":
		b := make([]byte, 6)
		for i := range b {
			b[i] = byte(r.Pick(256))
		}
		nv := rm.Val{K: rm.MAC, B: append([]byte{}, b...)}
		if k.name == "mac" {
			return wrap(types.MacAddress(b), nv)
		}
		return wrap(net.HardwareAddr(b), nv)
	case "date", "*date":
		if r.Chance(0.1) {
			return wrap(types.Date{}, rm.ZeroDate())
		}
		d := r.Date()
		return wrap(types.ToDate(d.Y, time.Month(d.Mo), d.D), d)
	case "datetime", "*datetime":
		if r.Chance(0.1) {
			return wrap(types.DateTime{}, rm.ZeroDateTime())
		}
		t := localDateTime(r)
		t = t.Add(time.Duration([]int{0, 0, 1, 499_999_999, 500_000_000, 750_000_000, 999_999_999}[r.Pick(7)])) // a fraction of a second: the second the value is in goes on the wire
		y, m, d := t.Date()
		h, mi, s := t.Clock()
		return wrap(types.DateTime(t), rm.DateTimeVal(y, int(m), d, h, mi, s))
	case "sysdate", "*sysdate":
		d := r.SysDate()
		return wrap(types.SystemDate(time.Date(d.Y, time.Month(d.Mo), d.D, 0, 0, 0, 0, time.UTC)), rm.Val{K: rm.SysDate, Y: d.Y, Mo: d.Mo, D: d.D})
	case "systime", "*systime":
		h, mi, s := r.Pick(24), r.Pick(60), r.Pick(60)
		return wrap(types.SystemTime(time.Date(2000, 1, 1, h, mi, s, 0, time.UTC)), rm.Val{K: rm.SysTime, H: h, Mi: mi, S: s})
	case "hhmm", "*hhmm":
		h := r.HHmm()
		return wrap(types.NewHHmm(h.H, h.Mi), h)
	case "pin":
		p := r.PIN()
		return wrap(types.PIN(p), rm.UVal(rm.PIN, uint64(p)))
	case "version":
		x := uint16(r.Pick(65536))
		return wrap(types.Version(x), rm.UVal(rm.Version, uint64(x)))
	}
	panic("harness: C18 unknown kind " + k.name)
}

// c18Read projects a decoded field to its neutral form.
func c18Read(k fkind, f reflect.Value) rm.Val {
	if k.ptr {
		if f.IsNil() {
			z := rm.Val{K: k.ref}
			if k.ref == rm.Date || k.ref == rm.DateTime || k.ref == rm.SysDate {
				z.Zero = true
			}
			return z
		}
		f = f.Elem()
	}
	switch x := f.Interface().(type) {
	case uint8:
		return rm.UVal(rm.U8, uint64(x))
	case uint16:
		return rm.UVal(rm.U16, uint64(x))
	case uint32:
		return rm.UVal(rm.U32, uint64(x))
	case types.SerialNumber:
		return rm.UVal(rm.U32, uint64(x))
	case bool:
		return rm.BoolVal(x)
	case net.IP:
		if x4 := x.To4(); x4 != nil {
			return rm.IPVal(x4[0], x4[1], x4[2], x4[3])
		}
		return rm.Val{K: rm.IPv4, Invalid: true}
	case netip.AddrPort:
		if !x.IsValid() || !x.Addr().Is4() {
			return rm.Val{K: rm.AddrPort, Invalid: true}
		}
		b := x.Addr().As4()
		return rm.Val{K: rm.AddrPort, B: b[:], U: uint64(x.Port())}
	case net.HardwareAddr:
		return rm.Val{K: rm.MAC, B: append([]byte{}, x...)}
	case types.MacAddress:
		return rm.Val{K: rm.MAC, B: append([]byte{}, x...)}
	case types.Date:
		if x.IsZero() {
			return rm.ZeroDate()
		}
		y, m, d := time.Time(x).Date()
		return rm.DateVal(y, int(m), d)
	case types.DateTime:
		if x.IsZero() {
			return rm.ZeroDateTime()
		}
		y, m, d := time.Time(x).Date()
		h, mi, s := time.Time(x).Clock()
		return rm.DateTimeVal(y, int(m), d, h, mi, s)
	case types.SystemDate:
		if x.IsZero() {
			return rm.Val{K: rm.SysDate, Zero: true}
		}
		y, m, d := time.Time(x).Date()
		return rm.Val{K: rm.SysDate, Y: y, Mo: int(m), D: d}
	case types.SystemTime:
		h, mi, s := time.Time(x).Clock()
		return rm.Val{K: rm.SysTime, H: h, Mi: mi, S: s}
	case types.HHmm:
		var h, m int
		fmt.Sscanf(x.String(), "%d:%d", &h, &m)
		return rm.HHmmVal(h, m)
	case types.PIN:
		return rm.UVal(rm.PIN, uint64(x))
	case types.Version:
		return rm.UVal(rm.Version, uint64(x))
	}
	panic(fmt.Sprintf("harness: C18 cannot read %v", f.Type()))
}

func fieldByName(v reflect.Value, f lfield) reflect.Value {
	if f.embed {
		return v.FieldByName("Inner").FieldByName(f.name)
	}
	return v.FieldByName(f.name)
}

func c18Key(lc layoutCase, what string, f *lfield) string {
	if f != nil {
		switch {
		case f.k.name == "u16" && f.offset >= 61 && what == "encode-panic":
			return "C18:uint16-last-offsets"
		case f.k.name == "hwaddr" && what == "aliasing":
			return "C18:mac-aliases-buffer"
		case f.k.name == "fixed-byte" && strings.HasPrefix(strings.ToLower(f.tagval), "0x") && (what == "encode-error" || what == "decode-error"):
			return "C18:byte-value-0x-prefix"
		}
		return "C18:" + what + ":" + f.k.name
	}
	return "C18:" + what
}

// c18Run executes one layout with one value assignment.
func c18Run(c *Ctx, r gen.R, lc layoutCase, caseNo int64, tag string) {
	c.Res.Eval(1)
	typ, err := lc.build()
	if err != nil {
		c.Res.Inconcl("cannot build layout " + lc.String() + ": " + err.Error())
		return
	}
	kinds := []string{}
	for _, f := range lc.fields {
		kinds = append(kinds, fmt.Sprintf("%s@%d", f.k.name, f.offset))
	}
	sort.Strings(kinds)
	c.Res.DistinctKey(strings.Join(kinds, ","), lc.msgType >= 0, lc.som >= 0)

	v := reflect.New(typ).Elem()
	want := make([]byte, 64)
	want[0] = 0x17
	if lc.som >= 0 {
		want[0] = byte(lc.som)
	}
	if lc.msgType >= 0 {
		want[1] = byte(lc.msgType)
	}
	vals := map[string]rm.Val{}
	for _, f := range lc.fields {
		gv, nv := c18Value(r, f.k, f)
		fieldByName(v, f).Set(gv)
		vals[f.name] = nv
		// a nil pointer leaves its bytes zero; the zero DateTime value encodes as 0001-01-01 00:00:00
		if !(f.k.ptr && gv.IsNil()) {
			rm.EncodeField(want, rm.Field{Offset: f.offset, Name: f.name, Kind: f.k.ref}, nv)
		}
	}
	w := func(extra map[string]any) map[string]any {
		m := map[string]any{"layout": lc.String(), "mode": tag, "zone": time.Local.String()}
		vs := []string{}
		for _, f := range lc.fields {
			vs = append(vs, f.name+"="+vals[f.name].String())
		}
		m["values"] = strings.Join(vs, " ")
		for k, x := range extra {
			m[k] = x
		}
		return m
	}
	var single *lfield
	if len(lc.fields) == 1 {
		single = &lc.fields[0]
	}
	blame := func(off int) *lfield {
		for i := range lc.fields {
			if off >= lc.fields[i].offset && off < lc.fields[i].offset+lc.fields[i].k.size {
				return &lc.fields[i]
			}
		}
		return single
	}

	// ---- encode
	var enc []byte
	var eerr error
	panicked := false
	func() {
		defer func() {
			if p := recover(); p != nil {
				panicked = true
				eerr = fmt.Errorf("%v", p)
			}
		}()
		enc, eerr = codec.Marshal(v.Interface())
	}()
	if panicked {
		// name the field that most plausibly caused it: the one reaching furthest
		var last *lfield
		for i := range lc.fields {
			if last == nil || lc.fields[i].offset+lc.fields[i].k.size > last.offset+last.k.size {
				last = &lc.fields[i]
			}
		}
		c.Res.Violate(c18Key(lc, "encode-panic", last), fmt.Sprintf("Marshal panicked for layout [%s]: %v", lc, eerr), w(nil), caseNo)
		return
	}
	if eerr != nil {
		var fx *lfield
		for i := range lc.fields {
			if lc.fields[i].fixed >= 0 {
				fx = &lc.fields[i]
			}
		}
		c.Res.Violate(c18Key(lc, "encode-error", fx), fmt.Sprintf("Marshal failed for layout [%s]: %v", lc, eerr), w(nil), caseNo)
		return
	}
	if string(enc) != string(want) {
		diff := diffOffsets(want, enc)
		c.Res.Violate(c18Key(lc, "encode-bytes", blame(diff[0])), fmt.Sprintf("Marshal of layout [%s] differs from the declared layout at offsets %v", lc, diff),
			w(map[string]any{"expected": wk.Hex(want), "got": wk.Hex(enc)}), caseNo)
		return
	}

	// ---- decode
	buf := append([]byte{}, enc...)
	out := reflect.New(typ)
	var derr error
	func() {
		defer func() {
			if p := recover(); p != nil {
				panicked = true
				derr = fmt.Errorf("%v", p)
			}
		}()
		derr = codec.Unmarshal(buf, out.Interface())
	}()
	if panicked {
		c.Res.Violate(c18Key(lc, "decode-panic", single), fmt.Sprintf("Unmarshal panicked for layout [%s]: %v", lc, derr), w(map[string]any{"bytes": wk.Hex(enc)}), caseNo)
		return
	}
	if derr != nil {
		var fx *lfield
		for i := range lc.fields {
			if lc.fields[i].fixed >= 0 {
				fx = &lc.fields[i]
			}
		}
		c.Res.Violate(c18Key(lc, "decode-error", fx), fmt.Sprintf("Unmarshal(Marshal(v)) failed for layout [%s]: %v", lc, derr), w(map[string]any{"bytes": wk.Hex(enc)}), caseNo)
		return
	}
	for i := range lc.fields {
		f := lc.fields[i]
		got := c18Read(f.k, fieldByName(out.Elem(), f))
		if !rm.Equal(got, vals[f.name]) {
			c.Res.Violate(c18Key(lc, "roundtrip", &f), fmt.Sprintf("layout [%s]: field %s decodes to %v, encoded %v", lc, f.name, got, vals[f.name]), w(map[string]any{"bytes": wk.Hex(enc)}), caseNo)
			return
		}
	}
	// decoded values share no memory with the input buffer
	for i := range buf {
		buf[i] ^= 0x5a
	}
	for i := range lc.fields {
		f := lc.fields[i]
		got := c18Read(f.k, fieldByName(out.Elem(), f))
		if !rm.Equal(got, vals[f.name]) {
			c.Res.Violate(c18Key(lc, "aliasing", &f), fmt.Sprintf("layout [%s]: field %s changed from %v to %v when the input buffer was overwritten after decoding", lc, f.name, vals[f.name], got), w(nil), caseNo)
			return
		}
	}
	// ---- the other decoding entry points agree with Unmarshal, share no memory with their input either, and an element of an
	// array is not affected by the element decoded before it (a second value of the same layout: v2, this one, v2)
	{
		v2 := reflect.New(typ).Elem()
		vals2 := map[string]rm.Val{}
		for _, f := range lc.fields {
			if f.fixed >= 0 {
				fieldByName(v2, f).Set(fieldByName(v, f))
				vals2[f.name] = vals[f.name]
				continue
			}
			gv, nv := c18Value(r, f.k, f)
			fieldByName(v2, f).Set(gv)
			vals2[f.name] = nv
		}
		enc2, e2 := codec.Marshal(v2.Interface())
		check := func(entry string, got reflect.Value, expect map[string]rm.Val, what string) bool {
			for i := range lc.fields {
				f := lc.fields[i]
				g := c18Read(f.k, fieldByName(got, f))
				if !rm.Equal(g, expect[f.name]) {
					c.Res.Violate(c18Key(lc, entry, &f), fmt.Sprintf("layout [%s]: %s: field %s is %v, encoded %v", lc, what, f.name, g, expect[f.name]), w(map[string]any{"bytes": wk.Hex(enc), "entry_point": entry}), caseNo)
					return false
				}
			}
			return true
		}
		func() {
			defer func() {
				if p := recover(); p != nil {
					c.Res.Violate(c18Key(lc, "decode-panic", single), fmt.Sprintf("a decoding entry point panicked for layout [%s]: %v", lc, p), w(map[string]any{"bytes": wk.Hex(enc)}), caseNo)
				}
			}()
			// UnmarshalAs (by value and by pointer)
			b1 := append([]byte{}, enc...)
			var as any
			var aerr error
			if caseNo%2 == 0 {
				as, aerr = codec.UnmarshalAs(b1, reflect.New(typ).Elem().Interface())
			} else {
				as, aerr = codec.UnmarshalAs(b1, reflect.New(typ).Interface())
			}
			c.Res.Eval(1)
			if aerr != nil || as == nil {
				c.Res.Violate(c18Key(lc, "decode-error", single), fmt.Sprintf("UnmarshalAs failed for layout [%s]: %v", lc, aerr), w(map[string]any{"bytes": wk.Hex(enc)}), caseNo)
				return
			}
			for i := range b1 {
				b1[i] ^= 0xa5
			}
			if !check("unmarshal-as", reflect.ValueOf(as), vals, "UnmarshalAs (input buffer overwritten afterwards)") {
				return
			}
			// UnmarshalArrayElement
			b2 := append([]byte{}, enc...)
			el, eerr2 := codec.UnmarshalArrayElement(b2, reflect.New(reflect.SliceOf(typ)).Interface())
			c.Res.Eval(1)
			if eerr2 != nil || el == nil {
				c.Res.Violate(c18Key(lc, "decode-error", single), fmt.Sprintf("UnmarshalArrayElement failed for layout [%s]: %v", lc, eerr2), w(map[string]any{"bytes": wk.Hex(enc)}), caseNo)
				return
			}
			for i := range b2 {
				b2[i] ^= 0xa5
			}
			if !check("unmarshal-array-element", reflect.ValueOf(el), vals, "UnmarshalArrayElement (input buffer overwritten afterwards)") {
				return
			}
			// Unmarshal into a variable that already holds another value of the layout: the result is this message
			if e2 == nil {
				used := reflect.New(typ)
				c.Res.Eval(1)
				if uerr := codec.Unmarshal(append([]byte{}, enc2...), used.Interface()); uerr == nil {
					if uerr = codec.Unmarshal(append([]byte{}, enc...), used.Interface()); uerr != nil {
						c.Res.Violate(c18Key(lc, "decode-error", single), fmt.Sprintf("Unmarshal into a variable that already held another value failed for layout [%s]: %v", lc, uerr), w(map[string]any{"bytes": wk.Hex(enc)}), caseNo)
						return
					}
					if !check("unmarshal-into-used-variable", used.Elem(), vals, "Unmarshal into a variable that already held another value of the layout") {
						return
					}
				}
			}
			// UnmarshalArray: [v2, v, v2]
			if e2 != nil {
				return
			}
			list := [][]byte{append([]byte{}, enc2...), append([]byte{}, enc...), append([]byte{}, enc2...)}
			arr := reflect.New(reflect.SliceOf(typ))
			c.Res.Eval(1)
			if lerr := codec.UnmarshalArray(list, arr.Interface()); lerr != nil || arr.Elem().Len() != 3 {
				c.Res.Violate(c18Key(lc, "decode-error", single), fmt.Sprintf("UnmarshalArray of three messages failed for layout [%s]: %v (%d elements)", lc, lerr, arr.Elem().Len()), w(map[string]any{"bytes": wk.Hex(enc)}), caseNo)
				return
			}
			for _, b := range list {
				for i := range b {
					b[i] ^= 0xa5
				}
			}
			if check("unmarshal-array", arr.Elem().Index(0), vals2, "UnmarshalArray element 0") && check("unmarshal-array", arr.Elem().Index(1), vals, "UnmarshalArray element 1 (decoded after another value of the layout)") {
				check("unmarshal-array", arr.Elem().Index(2), vals2, "UnmarshalArray element 2")
			}
			// an element of an array is what the same bytes decode to on their own - down to a pointer being nil or not
			for i := range lc.fields {
				f := lc.fields[i]
				if !f.k.ptr {
					continue
				}
				alone, inArray := fieldByName(out.Elem(), f).IsNil(), fieldByName(arr.Elem().Index(1), f).IsNil()
				if alone != inArray {
					c.Res.Violate(c18Key(lc, "unmarshal-array", &f), fmt.Sprintf("layout [%s]: pointer field %s: the same bytes decode to nil=%v on their own and to nil=%v as the second element of an array (after an element in which the field was %v)", lc, f.name, alone, inArray, vals2[f.name]), w(map[string]any{"bytes": wk.Hex(enc), "entry_point": "unmarshal-array"}), caseNo)
					break
				}
			}
		}()
	}
	// enforcement of function code / protocol id / fixed values on decode
	if lc.msgType >= 0 {
		bad := append([]byte{}, enc...)
		bad[1] ^= byte(1 << r.Pick(8))
		c.Res.Eval(1)
		if e := safeUnmarshal(bad, reflect.New(typ).Interface()); e == nil {
			key := "C18:msgtype-not-enforced"
			if lc.mtInner {
				key = "C18:embedded-decode-errors-ignored"
			}
			c.Res.Violate(key, fmt.Sprintf("layout [%s]: decode accepts function code 0x%02x", lc, bad[1]), w(map[string]any{"bytes": wk.Hex(bad)}), caseNo)
		}
	}
	for i := range lc.fields {
		f := lc.fields[i]
		if f.fixed >= 0 {
			bad := append([]byte{}, enc...)
			bad[f.offset] ^= byte(1 << r.Pick(8))
			c.Res.Eval(1)
			if e := safeUnmarshal(bad, reflect.New(typ).Interface()); e == nil {
				key := "C18:fixed-value-not-enforced"
				if f.embed {
					key = "C18:embedded-decode-errors-ignored"
				}
				c.Res.Violate(key, fmt.Sprintf("layout [%s]: decode accepts 0x%02x in the fixed-value byte at offset %d", lc, bad[f.offset], f.offset), w(map[string]any{"bytes": wk.Hex(bad)}), caseNo)
			}
		}
	}
	for i := range lc.fields {
		f := lc.fields[i]
		if f.k.name == "bool" {
			bad := append([]byte{}, enc...)
			bad[f.offset] = byte(2 + r.Pick(254))
			c.Res.Eval(1)
			if e := safeUnmarshal(bad, reflect.New(typ).Interface()); e == nil {
				key := "C18:malformed-bool-accepted"
				if f.embed {
					key = "C18:embedded-decode-errors-ignored"
				}
				c.Res.Violate(key, fmt.Sprintf("layout [%s]: decode accepts 0x%02x in the boolean at offset %d", lc, bad[f.offset], f.offset), w(map[string]any{"bytes": wk.Hex(bad)}), caseNo)
			}
		}
	}
	{
		bad := append([]byte{}, enc...)
		bad[0] = []byte{0x00, 0x16, 0x18, 0xff, 0x19}[r.Pick(5)]
		if !(bad[0] == 0x19 && bad[1] == 0x20) && bad[0] != enc[0] {
			c.Res.Eval(1)
			if e := safeUnmarshal(bad, reflect.New(typ).Interface()); e == nil {
				c.Res.Violate("C18:protocol-id-not-enforced", fmt.Sprintf("layout [%s]: decode accepts protocol id 0x%02x", lc, bad[0]), w(map[string]any{"bytes": wk.Hex(bad)}), caseNo)
			}
		}
	}
	// ---- what the application does with a decoded value stays with that value: the message is decoded (its date fields also
	// as 'no date': zero bytes, or BCD digits that are no calendar date), the application writes through every pointer it was
	// given, and the same bytes are decoded again into a fresh variable - field for field what they decoded to the first time
	{
		hasPtr := false
		encX := append([]byte{}, enc...)
		for _, f := range lc.fields {
			if f.k.ptr {
				hasPtr = true
			}
			if f.k.ref == rm.Date && r.Chance(0.6) {
				copy(encX[f.offset:f.offset+4], [][]byte{{0, 0, 0, 0}, {0x20, 0x23, 0x02, 0x30}, {0x20, 0x00, 0x00, 0x00}, {0x00, 0x01, 0x01, 0x01}}[r.Pick(4)])
			}
		}
		if hasPtr {
			first := reflect.New(typ)
			if safeUnmarshal(append([]byte{}, encX...), first.Interface()) == nil {
				render := func(v reflect.Value) []string {
					out := []string{}
					for _, f := range lc.fields {
						fv := fieldByName(v, f)
						out = append(out, fmt.Sprintf("%s=%v(nil:%v)", f.name, c18Read(f.k, fv), f.k.ptr && fv.IsNil()))
					}
					return out
				}
				before := render(first.Elem())
				// a variable that already holds pointers, decoded into as well (its pointers are the application's too)
				reused := reflect.New(typ)
				safeUnmarshal(append([]byte{}, enc...), reused.Interface())
				safeUnmarshal(append([]byte{}, encX...), reused.Interface())
				for _, v := range []reflect.Value{first.Elem(), reused.Elem()} {
					for _, f := range lc.fields {
						if fv := fieldByName(v, f); f.k.ptr && !fv.IsNil() {
							if nv, _ := c18Value(r, f.k, f); nv.IsValid() && nv.Kind() == reflect.Ptr && !nv.IsNil() {
								fv.Elem().Set(nv.Elem())
							}
						}
					}
				}
				again := reflect.New(typ)
				c.Res.Eval(1)
				c.Res.Count("decodes-repeated-after-the-application-wrote-through-decoded-pointers", 1)
				if err := safeUnmarshal(append([]byte{}, encX...), again.Interface()); err != nil {
					c.Res.Violate("C18:decode-after-write-through-pointer", fmt.Sprintf("layout [%s]: bytes that decoded before are rejected after the application wrote through the pointers of the decoded value: %v", lc, err), w(map[string]any{"bytes": wk.Hex(encX)}), caseNo)
				} else if after := render(again.Elem()); strings.Join(after, " ") != strings.Join(before, " ") {
					c.Res.Violate("C18:decode-after-write-through-pointer", fmt.Sprintf("layout [%s]: the same bytes decode to {%s} after the application wrote through the pointers of an earlier decoded value; before: {%s}", lc, strings.Join(after, " "), strings.Join(before, " ")), w(map[string]any{"bytes": wk.Hex(encX)}), caseNo)
				}
			}
		}
	}
	if caseNo%2503 == 0 {
		c.Res.Sample(map[string]any{"layout": lc.String(), "bytes": wk.Hex(enc)})
	}
}

func safeUnmarshal(b []byte, m any) (err error) {
	defer func() {
		if p := recover(); p != nil {
			err = fmt.Errorf("panic: %v", p)
		}
	}()
	return codec.Unmarshal(b, m)
}

// c18RandomLayout packs 1..12 fields of random kinds at non-overlapping offsets, with optional tags and embedding.
func c18RandomLayout(r gen.R) layoutCase {
	n := 1 + r.Pick(12)
	used := [64]bool{}
	used[0], used[1] = true, true
	lc := layoutCase{msgType: -1, som: -1}
	if r.Chance(0.7) {
		lc.msgType = r.Pick(256)
		lc.mtTag = tagNumber(r, lc.msgType, false)
	}
	if r.Chance(0.15) {
		lc.som = []int{0x17, 0x19, 0x17, 0x42}[r.Pick(4)]
		if lc.som == 0x19 {
			lc.msgType, lc.mtTag = 0x20, "0x20"
		}
		if lc.som == 0x42 {
			lc.som = 0x17
		}
		lc.somTag = tagNumber(r, lc.som, false)
	}
	embed := r.Chance(0.3)
	lc.innerAt = r.Pick(16)
	if embed && lc.msgType >= 0 && r.Chance(0.4) {
		lc.mtInner = true
	}
	for j := 0; j < n; j++ {
		k := fkinds[r.Pick(len(fkinds))]
		// find a free slot: prefer packing tightly against the end or a neighbour now and then
		var off int
		ok := false
		for try := 0; try < 12 && !ok; try++ {
			switch r.Pick(4) {
			case 0:
				off = 64 - k.size
			default:
				off = 2 + r.Pick(63-k.size)
			}
			ok = true
			for b := off; b < off+k.size; b++ {
				if used[b] {
					ok = false
				}
			}
		}
		if !ok {
			continue
		}
		for b := off; b < off+k.size; b++ {
			used[b] = true
		}
		f := lfield{k: k, offset: off, name: fmt.Sprintf("F%d", j), fixed: -1, embed: embed && r.Chance(0.5)}
		if k.name == "fixed-byte" {
			f.fixed = r.Pick(256)
			f.tagval = tagNumber(r, f.fixed, true)
		}
		lc.fields = append(lc.fields, f)
	}
	return lc
}

func c18(c *Ctx) {
	c.Res.Rule = "struct types are built at run time with reflect.StructOf from the codec's tag grammar (22 field kinds incl. pointer variants, offsets 2..63, optional embedding, function-code / protocol-id / fixed-value tags in decimal, 0x, 0X, upper and lower case); exhaustive for single-field layouts (every kind x every offset at which it fits), random packing for multi-field layouts; oracle = reference encoding of each field at its offset and zero elsewhere, round trip, enforcement of tagged values, no aliasing of the input buffer; distinct = distinct (kind@offset set, tags present) layouts"
	r := c.Rng("main")
	var caseNo int64

	// ---- first use of a layout by several goroutines at the same moment (whatever the codec remembers per type is built
	// under contention here), before anything else has warmed the process up
	{
		rounds := c.N(300, 6000)
		G := 4
		for i := 0; i < rounds; i++ {
			lc := c18RandomLayout(r)
			if len(lc.fields) == 0 {
				continue
			}
			var wg sync.WaitGroup
			gate := make(chan struct{})
			for g := 0; g < G; g++ {
				wg.Add(1)
				go func(g int) {
					defer wg.Done()
					rr := gen.New(c.Seed, fmt.Sprintf("C18/first-use/%d/%d", i, g), c.Batch)
					<-gate
					c18Run(c, rr, lc, int64(-1000-i), "concurrent-first-use")
				}(g)
			}
			close(gate)
			wg.Wait()
		}
		c.Res.Count("concurrent-first-use:layouts x goroutines", int64(rounds*G))
	}
	// ---- different layouts behind one type name
	c18NamedTypes(c)
	c18ConcurrentDates(c)

	// ---- exhaustive single-field layouts
	slot := 0
	for _, k := range fkinds {
		for off := 2; off+k.size <= 64; off++ {
			slot++
			if slot%c.NBatch != c.Batch {
				continue
			}
			for rep := 0; rep < c.N(6, 40); rep++ {
				caseNo++
				f := lfield{k: k, offset: off, name: "F0", fixed: -1}
				if k.name == "fixed-byte" {
					f.fixed = r.Pick(256)
					f.tagval = tagNumber(r, f.fixed, true)
				}
				lc := layoutCase{fields: []lfield{f}, msgType: -1, som: -1}
				if rep%2 == 1 {
					lc.msgType = r.Pick(256)
					lc.mtTag = tagNumber(r, lc.msgType, false)
				}
				c18Run(c, r, lc, caseNo, "single-field")
			}
		}
	}
	c.Res.Exhaustive = true
	c.Res.Note("exhaustive", "single-field layouts: every one of the 22 kinds at every offset 2..64-size (partitioned over batches)")

	// ---- random multi-field layouts
	N := c.N(4000, 120000)
	for i := 0; i < N; i++ {
		caseNo++
		lc := c18RandomLayout(r)
		if len(lc.fields) == 0 {
			continue
		}
		c18Run(c, r, lc, caseNo, "multi-field")
	}
}

// c18ConcurrentDates: eight goroutines decode one date-bearing layout at the same time; each keeps coming back to its own few
// dates (a card list repeats the same from/to dates) - every decode returns the dates of its own bytes.
func c18ConcurrentDates(c *Ctx) {
	type rec struct {
		MsgType types.MsgType     `uhppote:"value:0x5a"`
		From    types.Date        `uhppote:"offset:8"`
		To      *types.Date       `uhppote:"offset:12"`
		Sys     types.SystemDate  `uhppote:"offset:20"`
		When    types.DateTime    `uhppote:"offset:24"`
		Also    *types.SystemDate `uhppote:"offset:40"`
	}
	if old := runtime.GOMAXPROCS(0); old < 8 {
		runtime.GOMAXPROCS(8)
		defer runtime.GOMAXPROCS(old)
	}
	G := 8
	per := c.N(15000, 150000)
	var wg sync.WaitGroup
	var nbad atomic.Int64
	for g := 0; g < G; g++ {
		wg.Add(1)
		go func(g int) {
			defer wg.Done()
			rr := gen.New(c.Seed, fmt.Sprintf("C18/concurrent-dates/%d", g), c.Batch)
			days := [][3]int{}
			for k := 0; k < 3; k++ {
				days = append(days, [3]int{2000 + rr.Pick(68), 1 + rr.Pick(12), 1 + rr.Pick(28)})
			}
			for k := 0; k < per && nbad.Load() < 4; k++ {
				a, b := days[rr.Pick(3)], days[rr.Pick(3)]
				if rr.Pick(50) == 0 {
					days[rr.Pick(3)] = [3]int{2000 + rr.Pick(68), 1 + rr.Pick(12), 1 + rr.Pick(28)}
				}
				msg := make([]byte, 64)
				msg[0], msg[1] = 0x17, 0x5a
				copy(msg[8:], bcdDate(a[0], a[1], a[2]))
				copy(msg[12:], bcdDate(b[0], b[1], b[2]))
				copy(msg[20:], []byte{bcdb(a[0] % 100), bcdb(a[1]), bcdb(a[2])})
				copy(msg[24:], append(bcdDate(b[0], b[1], b[2]), 0x12, 0x34, 0x56))
				copy(msg[40:], []byte{bcdb(b[0] % 100), bcdb(b[1]), bcdb(b[2])})
				var v rec
				err := safeUnmarshal(msg, &v)
				c.Res.Eval(1)
				wa, wb := fmt.Sprintf("%04d-%02d-%02d", a[0], a[1], a[2]), fmt.Sprintf("%04d-%02d-%02d", b[0], b[1], b[2])
				got := ""
				if err == nil && v.To != nil && v.Also != nil {
					got = fmt.Sprintf("%v %v %v %v %v", v.From, *v.To, time.Time(v.Sys).Format("2006-01-02"), time.Time(v.When).Format("2006-01-02 15:04:05"), time.Time(*v.Also).Format("2006-01-02"))
				}
				if want := fmt.Sprintf("%s %s %s %s 12:34:56 %s", wa, wb, wa, wb, wb); got != want {
					nbad.Add(1)
					c.Res.Violate("C18:decode:concurrent:date", fmt.Sprintf("a layout with date fields decoded by %d goroutines at the same time: bytes for {%s} decode to {%s} (err %v)", G, want, got, err), map[string]any{"bytes": wk.Hex(msg)}, -11)
				}
			}
		}(g)
	}
	wg.Wait()
	c.Res.Count("concurrent-decodes-of-a-date-bearing-layout", int64(G*per))
}
