package main

import (
	"encoding/json"
	"fmt"
	"os"
	"runtime"
	"sort"
	"sync"
	"sync/atomic"
	"time"

	codec "github.com/uhppoted/uhppote-core/encoding/UTO311-L0x"
	"github.com/uhppoted/uhppote-core/messages"
	"github.com/uhppoted/uhppote-core/types"
	"github.com/uhppoted/uhppote-core/uhppote"

	"verif/harness/adapter"
	"verif/harness/gen"
	rm "verif/harness/refmodel"
	"verif/harness/wk"
)

func init() { registry["C13"] = c13 }

// ---- zone oracle: built only with the unambiguous UTC -> local direction

type period struct {
	start, end int64 // unix seconds [start, end); start = minInt for "since ever", end = maxInt for "for ever"
	off        int64 // seconds east of UTC
}

const (
	minUnix = -62135596800 // 0001-01-01 00:00:00 UTC
	maxUnix = 253402300799 // 9999-12-31 23:59:59 UTC
	farPast = -1 << 62
	farFut  = 1 << 62
)

type zoneOracle struct {
	loc     *time.Location
	periods []period
}

func newZoneOracle(loc *time.Location) *zoneOracle {
	z := &zoneOracle{loc: loc}
	offAt := func(u int64) int64 {
		_, off := time.Unix(u, 0).In(loc).Zone()
		return int64(off)
	}
	// explicit transitions of the tz file: Time.ZoneBounds is reliable up to the last one listed (<= 2037)
	cutoff := civilUnix(2037, 1, 1, 0, 0, 0)
	t := time.Unix(minUnix-86400*2, 0).In(loc)
	cur := int64(farPast)
	for n := 0; n < 100000; n++ {
		_, e := t.ZoneBounds()
		_, off := t.Zone()
		if e.IsZero() || e.Unix() > cutoff || (cur != farPast && e.Unix() <= cur) {
			break
		}
		z.periods = append(z.periods, period{cur, e.Unix(), int64(off)})
		cur = e.Unix()
		t = e
	}
	// beyond that Go extrapolates the zone's last rule; find the changes by probing the UTC->local offset
	// every 10 days and bisecting to the second (rule based periods last months)
	u := cur
	if u == farPast {
		u = minUnix - 86400*2
	}
	off := offAt(u)
	const step = 10 * 86400
	for u < maxUnix+2*86400 {
		v := u + step
		if o2 := offAt(v); o2 != off {
			lo, hi := u, v // offAt(lo) == off, offAt(hi) != off
			for hi-lo > 1 {
				mid := lo + (hi-lo)/2
				if offAt(mid) == off {
					lo = mid
				} else {
					hi = mid
				}
			}
			z.periods = append(z.periods, period{cur, hi, off})
			cur, off = hi, offAt(hi)
			u = hi
			continue
		}
		u = v
	}
	z.periods = append(z.periods, period{cur, farFut, off})
	return z
}

// around returns the periods overlapping [lo, hi] (unix seconds).
func (z *zoneOracle) around(lo, hi int64) []period {
	i := sort.Search(len(z.periods), func(i int) bool { return z.periods[i].end > lo })
	out := []period{}
	for ; i < len(z.periods) && z.periods[i].start <= hi; i++ {
		out = append(out, z.periods[i])
	}
	return out
}

func civilUnix(y, m, d, h, mi, s int) int64 {
	return time.Date(y, time.Month(m), d, h, mi, s, 0, time.UTC).Unix()
}

// civilExists: does the civil time occur in the zone?
func (z *zoneOracle) civilExists(y, m, d, h, mi, s int) bool {
	cu := civilUnix(y, m, d, h, mi, s)
	for _, p := range z.around(cu-30*3600, cu+30*3600) {
		u := cu - p.off
		if u >= p.start && u < p.end {
			return true
		}
	}
	return false
}

// dayHasInstant: is there any instant whose local calendar date is y-m-d?
func (z *zoneOracle) dayHasInstant(y, m, d int) bool {
	d0 := civilUnix(y, m, d, 0, 0, 0)
	for _, p := range z.around(d0-30*3600, d0+86400+30*3600) {
		lo, hi := p.start, p.end // civil seconds range covered: [start+off, end+off)
		if lo != farPast {
			lo += p.off
		}
		if hi != farFut {
			hi += p.off
		}
		if lo < d0+86400 && hi > d0 {
			return true
		}
	}
	return false
}

type civil struct{ y, m, d, h, mi, s int }

func civilOf(u int64, loc *time.Location) civil {
	t := time.Unix(u, 0).In(loc)
	y, m, d := t.Date()
	h, mi, s := t.Clock()
	return civil{y, int(m), d, h, mi, s}
}

func bcdDate(y, m, d int) []byte {
	return []byte{bcdb(y / 100), bcdb(y % 100), bcdb(m), bcdb(d)}
}

func c13(c *Ctx) {
	loc := time.Local
	zone := loc.String()
	c.Res.Rule = "in a child process started with TZ=<zone>: for every zone transition 1800..2200 (and a seeded sample of the later, extrapolated ones) the local days around it - in particular days whose local midnight is skipped - and civil times within +-25 h of it, plus random dates 0001-01-02..9999-12-31 and random existing civil date-times, are pushed through ToDate, ParseDate, JSON, the wire decoder/encoder, GetStatus and the event listener; the oracle (does this civil time / day exist in the zone) uses only the UTC->local direction; days with no instant at all are exempt; distinct = distinct (zone, civil day or time, entry point)"
	c.Res.Note("zone", zone)
	r := c.Rng("main/" + zone)
	z := newZoneOracle(loc)
	c.Res.Count("zone-periods", int64(len(z.periods)))
	var caseNo int64

	// the controller is configured - with a time zone of its own that is not the process zone: what a status reports does not
	// depend on it (GetStatus and Listen combine the controller's date and time the same way)
	ctlZone := []string{"Europe/Amsterdam", "America/Sao_Paulo", "Pacific/Auckland", "UTC", "Asia/Kolkata"}[c.Batch%5]
	if ctlZone == zone {
		ctlZone = "America/New_York"
	}
	u, d := mkMemClient(ClientCfg{Listen: "127.0.0.1:60001", Devices: []DevCfg{{ID: 405419896, Name: "c", Addr: "192.168.1.100:60000", NewDevice: c.Batch%2 == 0, TZ: ctlZone}}})
	c.Res.Note("controller-zone", ctlZone)
	statusOp := rm.FindOp("GetStatus")

	viol := func(key, what string, w map[string]any) {
		w["zone"] = zone
		c.Res.Violate(key, what+" (TZ="+zone+")", w, caseNo)
	}

	// ---- one calendar day through every Date entry point
	var heldResp *messages.GetCardByIndexResponse
	heldDay := ""
	var heldEnc []byte
	heldEncCopy := ""
	checkDay := func(y, m, d int, tag string) {
		if y < 1 || y > 9999 || (y == 1 && m == 1 && d == 1) {
			return
		}
		caseNo++
		want := fmt.Sprintf("%04d-%02d-%02d", y, m, d)
		if !z.dayHasInstant(y, m, d) {
			c.Res.Count("exempt:day-without-instant", 1)
			c.Res.Note("exempt:"+want, "no instant in "+zone)
			return
		}
		c.Res.Eval(1)
		c.Res.DistinctKey(zone, want)
		skipped := !z.civilExists(y, m, d, 0, 0, 0)
		if skipped {
			c.Res.Count("days-with-skipped-midnight", 1)
		}
		key := "C13:date"
		if skipped {
			key = "C13:date-skipped-midnight"
		}
		wire := bcdDate(y, m, d)
		check := func(entry string, dt types.Date, err error) {
			if err != nil {
				viol(key+":"+entry, fmt.Sprintf("%s(%s) failed: %v", entry, want, err), map[string]any{"day": want, "entry": entry, "mode": tag})
				return
			}
			yy, mm, dd := time.Time(dt).Date()
			got := fmt.Sprintf("%04d-%02d-%02d", yy, int(mm), dd)
			if got != want || dt.String() != want {
				viol(key+":"+entry, fmt.Sprintf("%s(%s) reports %s (String %q)", entry, want, got, dt.String()), map[string]any{"day": want, "entry": entry, "got": got, "mode": tag, "midnight_skipped": skipped})
				return
			}
			if enc, eerr := dt.MarshalUT0311L0x(); eerr != nil || string(enc) != string(wire) {
				viol(key+":"+entry+":encode", fmt.Sprintf("date %s from %s encodes as %x, expected %x", want, entry, enc, wire), map[string]any{"day": want, "entry": entry, "mode": tag})
			} else {
				// the encoding of the date encoded before this one - which the application still holds - still reads as that date
				if heldEnc != nil && string(heldEnc) != heldEncCopy {
					viol(key+":"+entry+":encode:held", fmt.Sprintf("the encoding of an earlier date (%x) reads %x after the date %s was encoded", []byte(heldEncCopy), heldEnc, want), map[string]any{"day": want, "entry": entry, "mode": tag})
				}
				heldEnc, heldEncCopy = enc, string(enc)
			}
			if js, jerr := json.Marshal(dt); jerr != nil || string(js) != `"`+want+`"` {
				viol(key+":"+entry+":json", fmt.Sprintf("date %s from %s has JSON form %s", want, entry, js), map[string]any{"day": want, "entry": entry, "mode": tag})
			}
		}
		check("ToDate", types.ToDate(y, time.Month(m), d), nil)
		// a date the application converted from a timestamp of its own (midnight UTC, or in a fixed zone - the way the library's
		// own tests build dates): it is that calendar date, and encodes as that date, whatever the process zone is
		if caseNo%4 == 0 {
			check("types.Date(midnight UTC)", types.Date(time.Date(y, time.Month(m), d, 0, 0, 0, 0, time.UTC)), nil)
			check("types.Date(timestamp in a fixed zone)", types.Date(time.Date(y, time.Month(m), d, int(caseNo/4)%24, 30, 0, 0, time.FixedZone("F", (int(caseNo/4)%27-12)*3600))), nil)
		}
		pd, perr := types.ParseDate(want)
		check("ParseDate", pd, perr)
		var jd types.Date
		jerr := json.Unmarshal([]byte(`"`+want+`"`), &jd)
		check("Date.UnmarshalJSON", jd, jerr)
		// wire: through the codec into a shipped message
		msg := make([]byte, 64)
		msg[0], msg[1] = 0x17, 0x5c
		msg[8] = 1
		copy(msg[12:], wire)
		copy(msg[16:], wire)
		var resp messages.GetCardByIndexResponse
		werr := codec.Unmarshal(msg, &resp)
		check("wire(GetCardByIndexResponse.From)", resp.From, werr)
		if werr == nil {
			check("wire(GetCardByIndexResponse.To)", resp.To, nil)
		}
		// ... and through the message dispatcher; the previous day's message is still held and still shows its own dates
		if caseNo%3 == 0 {
			if v, derr := messages.UnmarshalResponse(msg); derr == nil {
				if cur, ok := v.(*messages.GetCardByIndexResponse); ok && cur != nil {
					check("wire(dispatcher)", cur.From, nil)
					if heldResp != nil && (heldResp.From.String() != heldDay || heldResp.To.String() != heldDay) {
						viol(key+":wire(dispatcher):held", fmt.Sprintf("the message dispatched for %s shows %v / %v after the message for %s was dispatched", heldDay, heldResp.From, heldResp.To, want), map[string]any{"day": heldDay, "next": want})
					}
					heldResp, heldDay = cur, want
				}
			}
		}
		// order relative to the neighbouring days (calendar order must survive the zone)
		prev := civilOf(civilUnix(y, m, d, 12, 0, 0)-86400, time.UTC)
		if prev.y >= 1 && !(prev.y == 1 && prev.m == 1 && prev.d == 1) && z.dayHasInstant(prev.y, prev.m, prev.d) {
			a, b := types.ToDate(prev.y, time.Month(prev.m), prev.d), types.ToDate(y, time.Month(m), d)
			if !a.Before(b) || !b.After(a) || a.Equals(b) {
				viol(key+":order", fmt.Sprintf("date %04d-%02d-%02d is not before %s", prev.y, prev.m, prev.d, want), map[string]any{"day": want, "mode": tag})
			}
		}
	}

	// ---- one civil date-time through the wire decoder (the civil time exists by construction or is checked)
	checkDateTime := func(cv civil, tag string) {
		if cv.y < 1 || cv.y > 9999 || (cv.y == 1 && cv.m == 1 && cv.d == 1) {
			return
		}
		caseNo++
		if !z.civilExists(cv.y, cv.m, cv.d, cv.h, cv.mi, cv.s) {
			c.Res.Count("dont-care:civil-time-does-not-exist", 1)
			return
		}
		c.Res.Eval(1)
		want := fmt.Sprintf("%04d-%02d-%02d %02d:%02d:%02d", cv.y, cv.m, cv.d, cv.h, cv.mi, cv.s)
		c.Res.DistinctKey(zone, want, "dt")
		wire := append(bcdDate(cv.y, cv.m, cv.d), bcdb(cv.h), bcdb(cv.mi), bcdb(cv.s))
		msg := make([]byte, 64)
		msg[0], msg[1] = 0x17, 0x32
		msg[4] = 1
		copy(msg[8:], wire)
		var resp messages.GetTimeResponse
		if err := codec.Unmarshal(msg, &resp); err != nil {
			viol("C13:datetime:wire", fmt.Sprintf("date-time %s cannot be decoded: %v", want, err), map[string]any{"civil": want, "mode": tag})
			return
		}
		got := adapter.PDateTime(resp.DateTime).String()
		if got != want || resp.DateTime.String() != want {
			viol("C13:datetime:wire", fmt.Sprintf("date-time transmitted as %s is reported as %s (String %q)", want, got, resp.DateTime.String()), map[string]any{"civil": want, "got": got, "mode": tag})
			return
		}
		if enc, err := resp.DateTime.MarshalUT0311L0x(); err != nil || string(enc) != string(wire) {
			viol("C13:datetime:encode", fmt.Sprintf("date-time %s re-encodes as %x, expected %x", want, enc, wire), map[string]any{"civil": want, "mode": tag})
		}
		// the same reply through the API (GetTime, and SetTime's echo) of a client whose controller is configured with a zone of its own
		if caseNo%3 == 0 {
			serial := uint32(405419896)
			for _, name := range []string{"GetTime", "SetTime"} {
				reply := append([]byte{}, msg...)
				reply[1] = rm.FindOp(name).Fn
				copy(reply[4:8], []byte{byte(serial), byte(serial >> 8), byte(serial >> 16), byte(serial >> 24)})
				d.Reset()
				d.Script = func(adapter.Invocation) ([][]byte, error) { return [][]byte{append([]byte{}, reply...)}, nil }
				var got string
				var err error
				if name == "GetTime" {
					var r *types.Time
					if r, err = u.GetTime(serial); err == nil && r != nil {
						got = adapter.PDateTime(r.DateTime).String()
					}
				} else {
					var r *types.Time
					if r, err = u.SetTime(serial, time.Date(cv.y, time.Month(cv.m), cv.d, cv.h, cv.mi, cv.s, 0, time.Local)); err == nil && r != nil {
						got = adapter.PDateTime(r.DateTime).String()
					}
				}
				c.Res.Eval(1)
				if err != nil || got != want {
					viol("C13:datetime:"+name, fmt.Sprintf("%s: the controller's date-time transmitted as %s is reported as %s (err %v)", name, want, got, err), map[string]any{"civil": want, "got": got, "mode": tag})
				}
			}
		}
	}

	// ---- controller system date + time in a status (GetStatus through the in-memory driver, and the event listener)
	evc := make(chan *types.Status, 64)
	checkStatus := func(cv civil, tag string) {
		if cv.y < 2000 || cv.y > 2068 {
			return
		}
		caseNo++
		if !z.dayHasInstant(cv.y, cv.m, cv.d) || !z.civilExists(cv.y, cv.m, cv.d, cv.h, cv.mi, cv.s) {
			c.Res.Count("dont-care:status-civil-time-does-not-exist", 1)
			return
		}
		c.Res.Eval(1)
		want := fmt.Sprintf("%04d-%02d-%02d %02d:%02d:%02d", cv.y, cv.m, cv.d, cv.h, cv.mi, cv.s)
		c.Res.DistinctKey(zone, want, "status")
		serial := uint32(405419896)
		msg := okReply(statusOp, serial)
		l := statusOp.ReplyLayout()
		rm.EncodeField(msg, *l.Field("SystemDate"), rm.Val{K: rm.SysDate, Y: cv.y, Mo: cv.m, D: cv.d})
		rm.EncodeField(msg, *l.Field("SystemTime"), rm.Val{K: rm.SysTime, H: cv.h, Mi: cv.mi, S: cv.s})
		// the event timestamp carries the same civil time
		rm.EncodeField(msg, *l.Field("EventIndex"), rm.UVal(rm.U32, 77))
		rm.EncodeField(msg, *l.Field("Timestamp"), rm.DateTimeVal(cv.y, cv.m, cv.d, cv.h, cv.mi, cv.s))
		d.Reset()
		d.Script = func(adapter.Invocation) ([][]byte, error) { return [][]byte{append([]byte{}, msg...)}, nil }
		st, err := u.GetStatus(serial)
		if err != nil || st == nil {
			viol("C13:status:get-status", fmt.Sprintf("GetStatus with system date/time %s failed: %v", want, err), map[string]any{"civil": want, "mode": tag})
		} else {
			if got := adapter.PDateTime(st.SystemDateTime).String(); got != want {
				viol("C13:status:get-status", fmt.Sprintf("GetStatus: system date+time transmitted as %s is reported as %s", want, got), map[string]any{"civil": want, "got": got, "mode": tag})
			}
			if got := adapter.PDateTime(st.Event.Timestamp).String(); got != want {
				viol("C13:status:event-timestamp", fmt.Sprintf("GetStatus: event timestamp transmitted as %s is reported as %s", want, got), map[string]any{"civil": want, "got": got, "mode": tag})
			}
		}
		// the same datagram as a listener event
		for len(evc) > 0 {
			<-evc
		}
		if d.Push(append([]byte{}, msg...)) {
			var lastStatus *types.Status
			select {
			case lastStatus = <-evc:
			case <-time.After(2 * time.Second):
			}
			if lastStatus == nil {
				c.Res.Inconcl("listener did not deliver the pushed event")
			} else if got := adapter.PDateTime(lastStatus.SystemDateTime).String(); got != want {
				viol("C13:status:listen", fmt.Sprintf("Listen: system date+time transmitted as %s is delivered as %s", want, got), map[string]any{"civil": want, "got": got, "mode": tag})
			} else if st != nil && err == nil {
				// ... combined the same way: the same 64 bytes give the same values (instants, not just printed forms) from GetStatus and from the listener
				a, b := time.Time(st.SystemDateTime), time.Time(lastStatus.SystemDateTime)
				ta, tb := time.Time(st.Event.Timestamp), time.Time(lastStatus.Event.Timestamp)
				ja, _ := json.Marshal(st.SystemDateTime)
				jb, _ := json.Marshal(lastStatus.SystemDateTime)
				if !a.Equal(b) || !ta.Equal(tb) || string(ja) != string(jb) {
					viol("C13:status:listen-vs-get-status", fmt.Sprintf("the same datagram (system date+time %s) gives %v / %v (JSON %s) from GetStatus and %v / %v (JSON %s) from the listener", want, a, ta, ja, b, tb, jb), map[string]any{"civil": want, "mode": tag})
				} else if msg := notLocal("SystemDateTime", lastStatus.SystemDateTime); msg != "" {
					viol("C13:status:instant", "Listen: "+msg, map[string]any{"civil": want, "mode": tag})
				}
			}
		}
	}
	// start the listener over the in-memory driver
	lst := &c13Listener{on: func(s *types.Status) {
		select {
		case evc <- s:
		default:
		}
	}}
	q := make(chan os.Signal, 1)
	listenDone := make(chan error, 1)
	go func() { listenDone <- u.Listen(lst, q) }()
	for i := 0; i < 1000; i++ {
		if d.Push(nil) || len(d.Invocations()) > 0 {
			break
		}
		time.Sleep(time.Millisecond)
	}
	lst.errs = 0

	// ---- candidates from the zone's transitions
	lo, hi := civilUnix(1800, 1, 1, 0, 0, 0), civilUnix(2200, 1, 1, 0, 0, 0)
	trans := []int{}
	for i, p := range z.periods {
		if i > 0 && p.start != farPast {
			trans = append(trans, i)
		}
	}
	c.Res.Count("zone-transitions-total", int64(len(trans)))
	chosen := []int{}
	later := []int{}
	for _, i := range trans {
		if s := z.periods[i].start; s >= lo && s < hi {
			chosen = append(chosen, i)
		} else {
			later = append(later, i)
		}
	}
	// thorough: every transition of the zone; quick: 1800..2200 thinned to <= 260 + 60 of the others
	if !c.Thorough() {
		if len(chosen) > 260 {
			keep := []int{}
			for k, i := range chosen {
				s := z.periods[i].start
				if (s >= civilUnix(2000, 1, 1, 0, 0, 0) && s < civilUnix(2069, 1, 1, 0, 0, 0)) || k%3 == int(c.Seed%3) {
					keep = append(keep, i)
				}
			}
			chosen = keep
		}
		for k := 0; k < 60 && len(later) > 0; k++ {
			chosen = append(chosen, later[r.Pick(len(later))])
		}
	} else {
		chosen = append(chosen, later...)
	}
	c.Res.Count("zone-transitions-examined", int64(len(chosen)))
	for _, i := range chosen {
		T := z.periods[i].start
		// days around the transition
		seen := map[[3]int]bool{}
		for _, du := range []int64{-86400 - 1, -1, 0, 1, 3600, 7200, 86400, 2 * 86400} {
			cv := civilOf(T+du, loc)
			k := [3]int{cv.y, cv.m, cv.d}
			if !seen[k] {
				seen[k] = true
				checkDay(cv.y, cv.m, cv.d, "transition")
			}
		}
		// a gap that swallows a calendar midnight: the day that starts inside the gap
		before, after := z.periods[i-1].off, z.periods[i].off
		if after > before {
			gapLo, gapHi := T+before, T+after // civil seconds [gapLo, gapHi) do not exist
			day := (gapHi / 86400) * 86400
			if day >= gapLo && day < gapHi {
				cv := civilOf(day, time.UTC)
				checkDay(cv.y, cv.m, cv.d, "midnight-in-gap")
				c.Res.Count("transitions-with-midnight-in-gap", 1)
			}
			if gapHi-gapLo >= 86400 {
				c.Res.Count("transitions-skipping-a-whole-day", 1)
				for dd := (gapLo / 86400) * 86400; dd < gapHi+86400; dd += 86400 {
					cv := civilOf(dd, time.UTC)
					checkDay(cv.y, cv.m, cv.d, "day-skip")
				}
			}
		}
		// civil times on both sides, +-25h in 15 minute steps, plus the seconds next to the transition
		for _, du := range []int64{-2, -1, 0, 1, 2, 59, 60, 3599, 3600, 3601, -3600, -3601} {
			cv := civilOf(T+du, loc)
			checkDateTime(cv, "transition")
			checkStatus(cv, "transition")
		}
		for k := int64(-100); k <= 100; k++ {
			cv := civilOf(T+k*900+int64(r.Pick(900)), loc)
			checkDateTime(cv, "near-transition")
			if k%5 == 0 {
				checkStatus(cv, "near-transition")
			}
		}
		// non-existing civil times inside a gap must simply not crash (don't-care value)
		if after > before {
			cv := civilOf(T+before+(after-before)/2, time.UTC)
			checkDateTime(cv, "inside-gap")
			checkStatus(cv, "inside-gap")
		}
	}

	// ---- random dates and existing civil date-times
	N := c.N(2000, 50000)
	for i := 0; i < N; i++ {
		dv := r.Date()
		checkDay(dv.Y, dv.Mo, dv.D, "random")
		t := localDateTime(r)
		checkDateTime(civilOf(t.Unix(), loc), "random")
		if i%4 == 0 {
			st := time.Unix(946684800+int64(r.Pick(69*365*86400)), 0)
			checkStatus(civilOf(st.Unix(), loc), "random")
		}
	}
	// the controller's clock at midnight, on the first day of a year / of the century, and both
	for i := 0; i < c.N(60, 600); i++ {
		y := 2000 + r.Pick(69)
		cv := civil{y: y, m: 1 + r.Pick(12), d: 1 + r.Pick(28), h: r.Pick(24), mi: r.Pick(60), s: r.Pick(60)}
		switch i % 6 {
		case 0:
			cv.h, cv.mi, cv.s = 0, 0, 0
		case 1:
			cv.y, cv.m, cv.d = 2001, 1, 1
		case 2:
			cv.y, cv.m, cv.d, cv.h, cv.mi, cv.s = []int{2000, 2001, 2010, 2068}[r.Pick(4)], 1, 1, 0, 0, 0
		case 3:
			cv.m, cv.d = 1, 1
		case 4:
			cv.h, cv.mi, cv.s = []int{0, 0, 12, 23}[r.Pick(4)], []int{0, 59}[r.Pick(2)], []int{0, 1, 59}[r.Pick(3)]
		default:
			cv.m, cv.d, cv.h, cv.mi, cv.s = 12, 31, 23, 59, 59
		}
		checkStatus(cv, "special")
		checkDateTime(cv, "special")
	}
	// every day of one DST-heavy year, plus the current extrapolated rule far in the future
	for _, y := range []int{2024, 2011, 1994, 1 + r.Pick(9999), 7000 + r.Pick(2999)} {
		for m := 1; m <= 12; m++ {
			for dd := 1; dd <= rm.DaysIn(y, m); dd++ {
				checkDay(y, m, dd, "whole-year")
			}
		}
	}

	// ---- a burst of events through the listener (in-memory driver): each delivered status must carry the date-times of its own
	// datagram even when the next datagram is being decoded while the previous one is still being handed over
	{
		rounds := c.N(150, 1500)
		bad := 0
		for round := 0; round < rounds && bad < 3; round++ {
			for len(evc) > 0 {
				<-evc
			}
			const burst = 24
			want := map[uint32]string{}
			for k := 0; k < burst; k++ {
				st := time.Unix(946684800+int64(r.Pick(69*365*86400)), 0)
				cv := civilOf(st.Unix(), loc)
				if cv.y < 2000 || cv.y > 2068 || !z.civilExists(cv.y, cv.m, cv.d, cv.h, cv.mi, cv.s) {
					continue
				}
				seqid := uint32(round*burst + k + 1)
				msg := okReply(statusOp, 405419896)
				l := statusOp.ReplyLayout()
				rm.EncodeField(msg, *l.Field("SequenceId"), rm.UVal(rm.U32, uint64(seqid)))
				rm.EncodeField(msg, *l.Field("SystemDate"), rm.Val{K: rm.SysDate, Y: cv.y, Mo: cv.m, D: cv.d})
				rm.EncodeField(msg, *l.Field("SystemTime"), rm.Val{K: rm.SysTime, H: cv.h, Mi: cv.mi, S: cv.s})
				rm.EncodeField(msg, *l.Field("EventIndex"), rm.UVal(rm.U32, 77))
				rm.EncodeField(msg, *l.Field("Timestamp"), rm.DateTimeVal(cv.y, cv.m, cv.d, cv.h, cv.mi, cv.s))
				want[seqid] = fmt.Sprintf("%04d-%02d-%02d %02d:%02d:%02d", cv.y, cv.m, cv.d, cv.h, cv.mi, cv.s)
				d.Push(msg)
			}
			for n := 0; n < len(want); n++ {
				var st *types.Status
				select {
				case st = <-evc:
				case <-time.After(2 * time.Second):
				}
				if st == nil {
					c.Res.Inconcl("listener burst: an event was not delivered within 2 s")
					break
				}
				caseNo++
				c.Res.Eval(1)
				c.Res.Count("listener-burst-events", 1)
				w, ok := want[st.SequenceId]
				if !ok {
					continue
				}
				if got := adapter.PDateTime(st.SystemDateTime).String(); got != w {
					bad++
					viol("C13:status:listen-burst", fmt.Sprintf("Listen (burst of %d events): the event with sequence id %d carried system date+time %s and was delivered with %s", burst, st.SequenceId, w, got), map[string]any{"civil": w, "got": got})
				} else if got := adapter.PDateTime(st.Event.Timestamp).String(); got != w {
					bad++
					viol("C13:status:listen-burst", fmt.Sprintf("Listen (burst of %d events): the event with sequence id %d carried the timestamp %s and was delivered with %s", burst, st.SequenceId, w, got), map[string]any{"civil": w, "got": got})
				}
			}
		}
	}

	// ---- state left behind by the previous call: every ordered pair of days of a leap year and of a common year, the second day
	// of each pair checked (the entry point varies with the pair)
	type yday struct{ y, m, d int }
	daySets := [][]yday{}
	for _, y := range []int{2024, 2023 + 400*r.Pick(15)} {
		set := []yday{}
		for m := 1; m <= 12; m++ {
			for dd := 1; dd <= rm.DaysIn(y, m); dd++ {
				set = append(set, yday{y, m, dd})
			}
		}
		daySets = append(daySets, set)
	}
	// ... and the weeks on both sides of a new year (two pairs of years), and the same day of the month in different years and months
	for _, y := range []int{2024, 1 + r.Pick(9997)} {
		set := []yday{}
		for dd := 8; dd <= 31; dd++ {
			set = append(set, yday{y, 12, dd})
		}
		for dd := 1; dd <= 24; dd++ {
			set = append(set, yday{y + 1, 1, dd})
		}
		for k := 0; k < 40; k++ {
			set = append(set, yday{y - 3 + r.Pick(7), 1 + r.Pick(12), 1 + r.Pick(28)})
		}
		daySets = append(daySets, set)
	}
	for si, set := range daySets {
		days := []yday{}
		for _, x := range set {
			if x.y >= 1 && x.y <= 9999 && !(x.y == 1 && x.m == 1 && x.d == 1) && z.dayHasInstant(x.y, x.m, x.d) {
				days = append(days, x)
			}
		}
		bad := 0
		for i, a := range days {
			if si < 2 && (i%c.NBatchOr1()) != c.Batch%c.NBatchOr1() && !c.Thorough() {
				continue // quick: the pairs of the whole years are partitioned over the zone batches by first day
			}
			for j, b := range days {
				if bad > 3 {
					break
				}
				var got types.Date
				var err error
				wantS := fmt.Sprintf("%04d-%02d-%02d", b.y, b.m, b.d)
				switch (i + j) % 3 {
				case 0:
					_ = types.ToDate(a.y, time.Month(a.m), a.d)
					got = types.ToDate(b.y, time.Month(b.m), b.d)
				case 1:
					types.ParseDate(fmt.Sprintf("%04d-%02d-%02d", a.y, a.m, a.d))
					got, err = types.ParseDate(wantS)
				default:
					var x types.Date
					x.UnmarshalUT0311L0x(bcdDate(a.y, a.m, a.d))
					var v any
					v, err = got.UnmarshalUT0311L0x(bcdDate(b.y, b.m, b.d))
					if dp, ok := v.(*types.Date); ok && dp != nil {
						got = *dp
					}
				}
				c.Res.Eval(1)
				if err != nil || got.String() != wantS {
					bad++
					viol("C13:date:after-another-date", fmt.Sprintf("date %s resolved right after %04d-%02d-%02d reports %s (err %v)", wantS, a.y, a.m, a.d, got.String(), err), map[string]any{"day": wantS, "previous": fmt.Sprintf("%04d-%02d-%02d", a.y, a.m, a.d), "entry": (i + j) % 3})
				}
			}
		}
		c.Res.Count("ordered-day-pair-sets", 1)
	}

	// ---- concurrent use: several goroutines resolve different dates and date-times at the same time
	{
		G := 8
		per := c.N(1500, 15000) * (1 + runtime.GOMAXPROCS(0)) / 2 // the multi-processor batches do the bulk of it
		pool := []civil{}
		for _, i := range chosen {
			for _, du := range []int64{-86400, 0, 86400} {
				pool = append(pool, civilOf(z.periods[i].start+du, loc))
			}
			if len(pool) > 600 {
				break
			}
		}
		var wg sync.WaitGroup
		var nbad atomic.Int64
		for g := 0; g < G; g++ {
			wg.Add(1)
			go func(g int) {
				defer wg.Done()
				rr := gen.New(c.Seed, fmt.Sprintf("C13/concurrent/%s/%d", zone, g), c.Batch)
				var sticky civil // a date this goroutine keeps coming back to (card lists repeat the same few dates)
				stickyLeft := 0
				for k := 0; k < per && nbad.Load() < 4; k++ {
					var cv civil
					if g%2 == 0 && stickyLeft > 0 {
						stickyLeft--
						cv = sticky
					} else if len(pool) > 0 && rr.Chance(0.5) {
						cv = pool[rr.Pick(len(pool))]
					} else {
						dv := rr.Date()
						cv = civil{y: dv.Y, m: dv.Mo, d: dv.D}
					}
					if cv.y < 1 || cv.y > 9999 || (cv.y == 1 && cv.m == 1 && cv.d == 1) || !z.dayHasInstant(cv.y, cv.m, cv.d) {
						continue
					}
					if g%2 == 0 && stickyLeft == 0 {
						sticky, stickyLeft = cv, 50+rr.Pick(400)
					}
					wantS := fmt.Sprintf("%04d-%02d-%02d", cv.y, cv.m, cv.d)
					var got types.Date
					var err error
					entry := ""
					switch rr.Pick(4) {
					case 0:
						entry, got = "ToDate", types.ToDate(cv.y, time.Month(cv.m), cv.d)
					case 1:
						entry = "ParseDate"
						got, err = types.ParseDate(wantS)
					case 2:
						entry = "Date.UnmarshalJSON"
						err = json.Unmarshal([]byte(`"`+wantS+`"`), &got)
					default:
						entry = "wire"
						var resp messages.GetCardByIndexResponse
						msg := make([]byte, 64)
						msg[0], msg[1], msg[8] = 0x17, 0x5c, 1
						copy(msg[12:], bcdDate(cv.y, cv.m, cv.d))
						copy(msg[16:], bcdDate(cv.y, cv.m, cv.d))
						err = codec.Unmarshal(msg, &resp)
						got = resp.From
					}
					c.Res.Eval(1)
					if err != nil || got.String() != wantS {
						nbad.Add(1)
						c.Res.Violate("C13:date:concurrent", fmt.Sprintf("%s(%s) reports %s (err %v) while %d goroutines resolve dates concurrently (TZ=%s)", entry, wantS, got.String(), err, G, zone), map[string]any{"zone": zone, "day": wantS, "entry": entry}, -3)
					}
				}
			}(g)
		}
		wg.Wait()
		c.Res.Count("concurrent-date-resolutions", int64(G*per))
	}

	// ---- the listener and several pollers at the same time: the system date and time of every status are combined from its own
	// datagram, whatever other statuses are being put together in the process at that moment (every sixth batch, and the multi-processor ones)
	if c.Batch%6 == 0 || runtime.GOMAXPROCS(0) > 2 {
		mkStatus := func(rr gen.R, serial, seqid uint32) ([]byte, string) {
			for {
				st := time.Unix(946684800+int64(rr.Pick(69*365*86400)), 0)
				cv := civilOf(st.Unix(), loc)
				if cv.y < 2000 || cv.y > 2068 || !z.civilExists(cv.y, cv.m, cv.d, cv.h, cv.mi, cv.s) {
					continue
				}
				msg := okReply(statusOp, serial)
				l := statusOp.ReplyLayout()
				rm.EncodeField(msg, *l.Field("SequenceId"), rm.UVal(rm.U32, uint64(seqid)))
				rm.EncodeField(msg, *l.Field("SystemDate"), rm.Val{K: rm.SysDate, Y: cv.y, Mo: cv.m, D: cv.d})
				rm.EncodeField(msg, *l.Field("SystemTime"), rm.Val{K: rm.SysTime, H: cv.h, Mi: cv.mi, S: cv.s})
				return msg, fmt.Sprintf("%04d-%02d-%02d %02d:%02d:%02d", cv.y, cv.m, cv.d, cv.h, cv.mi, cv.s)
			}
		}
		per := c.N(1500, 12000) * (1 + runtime.GOMAXPROCS(0)) / 3
		var wg sync.WaitGroup
		var nbad atomic.Int64
		for len(evc) > 0 {
			<-evc
		}
		// the listener's side: one event at a time through the in-memory driver of the listening client
		wg.Add(1)
		go func() {
			defer wg.Done()
			rr := gen.New(c.Seed, "C13/concurrent-status/listen/"+zone, c.Batch)
			for k := 0; k < per && nbad.Load() < 4; k++ {
				msg, want := mkStatus(rr, 405419896, uint32(0x00700000+k))
				if !d.Push(msg) {
					return
				}
				select {
				case st := <-evc:
					c.Res.Eval(1)
					if got := adapter.PDateTime(st.SystemDateTime).String(); st.SequenceId == uint32(0x00700000+k) && got != want {
						nbad.Add(1)
						c.Res.Violate("C13:status:listen:concurrent", fmt.Sprintf("Listen: system date+time transmitted as %s is delivered as %s while other goroutines poll GetStatus (TZ=%s)", want, got, zone), map[string]any{"zone": zone, "civil": want, "got": got}, -7)
					}
				case <-time.After(2 * time.Second):
					return
				}
			}
		}()
		for g := 0; g < 3; g++ {
			wg.Add(1)
			go func(g int) {
				defer wg.Done()
				rr := gen.New(c.Seed, fmt.Sprintf("C13/concurrent-status/poll%d/%s", g, zone), c.Batch)
				ug, dg := mkMemClient(ClientCfg{})
				var cur []byte
				dg.Script = func(adapter.Invocation) ([][]byte, error) { return [][]byte{append([]byte{}, cur...)}, nil }
				for k := 0; k < per && nbad.Load() < 4; k++ {
					serial := uint32(303986753 + g)
					msg, want := mkStatus(rr, serial, uint32(k+1))
					cur = msg
					st, err := ug.GetStatus(serial)
					c.Res.Eval(1)
					if err != nil || st == nil || adapter.PDateTime(st.SystemDateTime).String() != want {
						nbad.Add(1)
						got := "-"
						if st != nil {
							got = adapter.PDateTime(st.SystemDateTime).String()
						}
						c.Res.Violate("C13:status:get-status:concurrent", fmt.Sprintf("GetStatus: system date+time transmitted as %s is reported as %s (err %v) while a listener and other pollers are at work (TZ=%s)", want, got, err, zone), map[string]any{"zone": zone, "civil": want, "got": got}, -7)
					}
				}
			}(g)
		}
		wg.Wait()
		c.Res.Count("statuses-combined-concurrently(listener+3 pollers)", int64(4*per))
	}

	// stop the listener
	q <- os.Interrupt
	select {
	case <-listenDone:
	case <-liveAfter(5 * time.Second):
		c.Res.Inconcl("listener over the in-memory driver did not stop")
	}
	if lst.errs > 0 {
		c.Res.Count("listener-errors", int64(lst.errs))
	}
	c.Res.Sample(map[string]any{"zone": zone, "periods": len(z.periods), "transitions_examined": len(chosen)})
	_ = wk.Hex
	_ = gen.Locations
	_ = uhppote.VERSION
}

type c13Listener struct {
	on   func(*types.Status)
	errs int
}

func (l *c13Listener) OnConnected()            {}
func (l *c13Listener) OnEvent(s *types.Status) { l.on(s) }
func (l *c13Listener) OnError(error) bool      { l.errs++; return true }
