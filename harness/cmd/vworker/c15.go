package main

import (
	"encoding/json"
	"fmt"
	"net/netip"
	"regexp"
	"runtime"
	"strconv"
	"strings"
	"sync"
	"sync/atomic"

	"github.com/uhppoted/uhppote-core/types"

	"verif/harness/gen"
)

func init() { registry["C15"] = c15 }

type addrRole struct {
	name        string
	defaultPort int // -1: port mandatory
	forbidden   []int
	parse       func(string) (netip.AddrPort, error)
	str         func(netip.AddrPort) string
	set         func(string) (netip.AddrPort, error)
	unjson      func([]byte) (netip.AddrPort, error)
}

var addrRoles = []addrRole{
	{"bind", 0, []int{60000},
		func(s string) (netip.AddrPort, error) { a, err := types.ParseBindAddr(s); return a.AddrPort, err },
		func(a netip.AddrPort) string { return types.BindAddr{AddrPort: a}.String() },
		func(s string) (netip.AddrPort, error) { var a types.BindAddr; err := a.Set(s); return a.AddrPort, err },
		func(b []byte) (netip.AddrPort, error) {
			var a types.BindAddr
			err := json.Unmarshal(b, &a)
			return a.AddrPort, err
		}},
	{"broadcast", 60000, []int{0},
		func(s string) (netip.AddrPort, error) { a, err := types.ParseBroadcastAddr(s); return a.AddrPort, err },
		func(a netip.AddrPort) string { return types.BroadcastAddr{AddrPort: a}.String() },
		func(s string) (netip.AddrPort, error) {
			var a types.BroadcastAddr
			err := a.Set(s)
			return a.AddrPort, err
		},
		func(b []byte) (netip.AddrPort, error) {
			var a types.BroadcastAddr
			err := json.Unmarshal(b, &a)
			return a.AddrPort, err
		}},
	{"listen", -1, []int{0, 60000},
		func(s string) (netip.AddrPort, error) { a, err := types.ParseListenAddr(s); return a.AddrPort, err },
		func(a netip.AddrPort) string { return types.ListenAddr{AddrPort: a}.String() },
		func(s string) (netip.AddrPort, error) {
			var a types.ListenAddr
			err := a.Set(s)
			return a.AddrPort, err
		},
		func(b []byte) (netip.AddrPort, error) {
			var a types.ListenAddr
			err := json.Unmarshal(b, &a)
			return a.AddrPort, err
		}},
	{"controller", 60000, []int{0},
		func(s string) (netip.AddrPort, error) { a, err := types.ParseControllerAddr(s); return a.AddrPort, err },
		func(a netip.AddrPort) string { return types.ControllerAddr{AddrPort: a}.String() },
		func(s string) (netip.AddrPort, error) {
			var a types.ControllerAddr
			err := a.Set(s)
			return a.AddrPort, err
		},
		func(b []byte) (netip.AddrPort, error) {
			var a types.ControllerAddr
			err := json.Unmarshal(b, &a)
			return a.AddrPort, err
		}},
}

var exactForm = regexp.MustCompile(`^([0-9]{1,3})\.([0-9]{1,3})\.([0-9]{1,3})\.([0-9]{1,3})(?::([0-9]{1,5}))?$`)
var anyQuad = regexp.MustCompile(`[0-9]{1,3}\.[0-9]{1,3}\.[0-9]{1,3}\.[0-9]{1,3}`)

type addrVerdict int

const (
	mustAccept addrVerdict = iota
	mustReject
	dontCare
)

// classify is the three-valued oracle of C15.
func classify(role addrRole, s string) (addrVerdict, [4]byte, int) {
	var ip [4]byte
	m := exactForm.FindStringSubmatch(s)
	if m == nil {
		if !anyQuad.MatchString(s) {
			return mustReject, ip, 0
		}
		return dontCare, ip, 0
	}
	for i := 0; i < 4; i++ {
		o := m[1+i]
		if len(o) > 1 && o[0] == '0' {
			return dontCare, ip, 0
		}
		v, _ := strconv.Atoi(o)
		if v > 255 {
			return dontCare, ip, 0
		}
		ip[i] = byte(v)
	}
	port := role.defaultPort
	if strings.Contains(s, ":") {
		p := m[5]
		if len(p) > 1 && p[0] == '0' {
			return dontCare, ip, 0
		}
		v, _ := strconv.Atoi(p)
		if v > 65535 {
			return dontCare, ip, 0
		}
		port = v
	} else if role.defaultPort < 0 {
		return mustReject, ip, 0 // the port is mandatory for this role
	}
	for _, f := range role.forbidden {
		if port == f {
			return mustReject, ip, port
		}
	}
	return mustAccept, ip, port
}

func c15(c *Ctx) {
	c.Res.Rule = "every string is classified by a three-valued oracle (must-accept with address and port / must-reject / don't-care) and fed to the four role parsers (Parse*, Set, UnmarshalJSON), accepted values are formatted and parsed back; exhaustive over all strings up to length L on the alphabet {0 1 2 5 6 . : x space}; all 65536 ports per role; random IPv4 x port classes; single character mutations of valid addresses at every position; distinct = distinct (role, string) pairs judged (don't-care excluded)"
	r := c.Rng("main")
	var caseNo int64
	// first use of the four parsers by 16 goroutines at once (a fresh process per batch)
	stages := []func(int){}
	for ri := range addrRoles {
		role := addrRoles[ri]
		stages = append(stages, func(g int) {
			for k := 0; k < 10; k++ {
				in := fmt.Sprintf("192.168.%d.%d:%d", g, k, 50001+k)
				want := netip.MustParseAddrPort(in)
				c.Res.Eval(1)
				if got, err := role.parse(in); err != nil || got != want {
					c.Res.Violate("C15:first-use:"+role.name, fmt.Sprintf("%s address %q parsed as %v, %v when 12 goroutines used the parser for the first time at the same moment", role.name, in, got, err), map[string]any{"input": in}, -10)
					return
				}
			}
		})
	}
	firstUse(c, "C15:first-use", "an address parser", 12, stages...)

	if c.Mode == "firstuse" {
		return
	}
	if c.Batch%4 == 0 {
		defer c15Concurrent(c)
	}
	var kept struct {
		role       addrRole
		text, copy string
		want       netip.AddrPort
	}
	check := func(role addrRole, s string, tag string) {
		caseNo++
		verdict, ip, port := classify(role, s)
		c.Res.Eval(1)
		if verdict == dontCare {
			c.Res.Count("dont-care", 1)
			return
		}
		c.Res.DistinctKey(role.name, s)
		var got netip.AddrPort
		var err error
		func() {
			defer func() {
				if p := recover(); p != nil {
					err = fmt.Errorf("PANIC %v", p)
					c.Res.Violate("C15:"+role.name+":panic", fmt.Sprintf("%s address parser panicked on %q: %v", role.name, s, p), map[string]any{"input": s}, caseNo)
				}
			}()
			got, err = role.parse(s)
		}()
		if err != nil && strings.HasPrefix(err.Error(), "PANIC") {
			return
		}
		w := map[string]any{"role": role.name, "input": s, "mode": tag, "got": got.String(), "err": fmt.Sprint(err)}
		switch verdict {
		case mustAccept:
			c.Res.Count("must-accept", 1)
			want := netip.AddrPortFrom(netip.AddrFrom4(ip), uint16(port))
			if err != nil {
				c.Res.Violate("C15:"+role.name+":rejects-valid", fmt.Sprintf("%s address %q satisfies the port rule but was rejected: %v", role.name, s, err), w, caseNo)
				return
			}
			if got != want {
				c.Res.Violate("C15:"+role.name+":wrong-value", fmt.Sprintf("%s address %q parsed as %v, expected %v", role.name, s, got, want), w, caseNo)
				return
			}
			// ... also into a variable that already holds an address - the same IP address with another port, or another address
			// (a configuration that is reloaded in place)
			{
				prev := netip.AddrPortFrom(want.Addr(), want.Port()^0x0101)
				if caseNo%2 == 0 {
					prev = netip.AddrPortFrom(netip.AddrFrom4([4]byte{10, byte(caseNo), 3, 4}), 12345)
				}
				js, _ := json.Marshal(s)
				if g5, e5, g6, e6 := c15IntoUsed(role.name, prev, s, js); e5 != nil || g5 != want || e6 != nil || g6 != want {
					c.Res.Violate("C15:"+role.name+":into-used-variable", fmt.Sprintf("%s address %q stored into a variable holding %v: Set gives %v, %v and UnmarshalJSON %v, %v; expected %v", role.name, s, prev, g5, e5, g6, e6, want), w, caseNo)
				}
			}
			// Set and JSON agree
			if g2, e2 := role.set(s); e2 != nil || g2 != want {
				c.Res.Violate("C15:"+role.name+":set", fmt.Sprintf("%s.Set(%q) = %v, %v; expected %v", role.name, s, g2, e2, want), w, caseNo)
			}
			js, _ := json.Marshal(s)
			if g3, e3 := role.unjson(js); e3 != nil || g3 != want {
				c.Res.Violate("C15:"+role.name+":json", fmt.Sprintf("%s UnmarshalJSON(%s) = %v, %v; expected %v", role.name, js, g3, e3, want), w, caseNo)
			}
			// format and parse again
			text := role.str(got)
			back, e4 := role.parse(text)
			if e4 != nil || back != want {
				c.Res.Violate("C15:"+role.name+":format-parse", fmt.Sprintf("%s address %v formats as %q which parses as %v, %v", role.name, want, text, back, e4), w, caseNo)
			}
			// the text of the address formatted before this one is still that address's text (an application formats several
			// addresses - of any role - before it writes them to its configuration file)
			if kept.text != "" {
				if b2, e5 := kept.role.parse(kept.text); kept.text != kept.copy || e5 != nil || b2 != kept.want {
					c.Res.Violate("C15:"+kept.role.name+":format-parse", fmt.Sprintf("%s address %v was formatted as %q; after the %s address %v had been formatted too, that text reads %q and parses as %v, %v", kept.role.name, kept.want, kept.copy, role.name, want, kept.text, b2, e5), w, caseNo)
				}
			}
			kept.role, kept.text, kept.copy, kept.want = role, text, strings.Clone(text), want
			if caseNo%50000 == 1 {
				c.Res.Sample(map[string]any{"role": role.name, "input": s, "parsed": got.String(), "text": text})
			}
		case mustReject:
			c.Res.Count("must-reject", 1)
			if err == nil {
				why := "violates the port rule"
				if !anyQuad.MatchString(s) {
					why = "contains no dotted quad"
				}
				c.Res.Violate("C15:"+role.name+":accepts-invalid", fmt.Sprintf("%s address %q %s but was accepted as %v", role.name, s, why, got), w, caseNo)
				return
			}
			if _, e2 := role.set(s); e2 == nil {
				c.Res.Violate("C15:"+role.name+":set-accepts-invalid", fmt.Sprintf("%s.Set(%q) accepted an invalid address", role.name, s), w, caseNo)
			}
			js, _ := json.Marshal(s)
			if _, e3 := role.unjson(js); e3 == nil {
				c.Res.Violate("C15:"+role.name+":json-accepts-invalid", fmt.Sprintf("%s UnmarshalJSON(%s) accepted an invalid address", role.name, js), w, caseNo)
			}
			// ... and no more acceptable for a variable that already holds a (perfectly good) address of the role
			if caseNo%3 == 0 {
				prevPort := uint16(50001 + caseNo%1000)
				prev := netip.AddrPortFrom(netip.AddrFrom4([4]byte{192, 168, 1, byte(1 + caseNo%200)}), prevPort)
				if g5, e5, g6, e6 := c15IntoUsed(role.name, prev, s, js); e5 == nil || e6 == nil {
					c.Res.Violate("C15:"+role.name+":accepts-invalid:into-used-variable", fmt.Sprintf("%s address %q is invalid but a variable holding %v accepted it: Set gives %v, %v and UnmarshalJSON %v, %v", role.name, s, prev, g5, e5, g6, e6), w, caseNo)
				}
			}
		}
	}

	// ---- state left behind by the previous string: every rejected / odd string is followed by every kind of acceptable one (with a
	// port, without, default port written out), on the same goroutine, for every role
	{
		first := []string{"192.168.1.100:99999", "192.168.1.100:12345 ", "192.168.1.100:", "192.168.1.100:0", "192.168.1.100:60000", "192.168.1.100:1x", "10.0.0.1:70000", "300.1.1.1:4000", "1.2.3.4:4000:5", "", ":", "1.2.3:80", "1.2.3.4.5:80", "[::1]:4000", "192.168.1.100:12345"}
		second := []string{"10.0.0.1", "10.0.0.1:12345", "10.0.0.1:60000", "10.0.0.1:0", "10.0.0.1:60001", "172.16.254.254", "8.8.8.8:1", "0.0.0.0", "0.0.0.0:0", "255.255.255.255:65535"}
		pinned := runtime.LockOSThread
		pinned()
		for _, role := range addrRoles {
			for _, a := range first {
				for _, b := range second {
					role.parse(a)
					check(role, b, "after-"+a)
					role.set(a)
					js, _ := json.Marshal(a)
					role.unjson(js)
					check(role, b, "after-set/json-"+a)
				}
			}
		}
		runtime.UnlockOSThread()
		c.Res.Count("string-pairs(previous string rejected or odd)", int64(len(addrRoles)*len(first)*len(second)*2))
	}

	// ---- exhaustive short strings (partitioned by the first two symbols)
	alphabet := []byte("01256.:x ")
	L := c.N(6, 7)
	var rec func(prefix []byte)
	rec = func(prefix []byte) {
		s := string(prefix)
		for _, role := range addrRoles {
			check(role, s, "exhaustive")
		}
		if len(prefix) == L {
			return
		}
		for _, a := range alphabet {
			rec(append(prefix, a))
		}
	}
	slot := 0
	if c.Batch == 0 {
		for _, role := range addrRoles {
			check(role, "", "exhaustive")
		}
		for _, a := range alphabet {
			for _, role := range addrRoles {
				check(role, string([]byte{a}), "exhaustive")
			}
		}
	}
	for _, a := range alphabet {
		for _, b := range alphabet {
			if slot%c.NBatch == c.Batch {
				rec([]byte{a, b})
			}
			slot++
		}
	}
	c.Res.Exhaustive = true
	c.Res.Note("exhaustive", fmt.Sprintf("all strings of length <= %d over {0 1 2 5 6 . : x space}, 4 roles", L))

	// ---- all ports
	addrs := []string{"192.168.1.100", "0.0.0.0", "255.255.255.255"}
	if !c.Thorough() {
		addrs = addrs[:1]
	}
	for _, a := range addrs {
		for p := c.Batch; p < 65536; p += c.NBatch {
			for _, role := range addrRoles {
				check(role, fmt.Sprintf("%s:%d", a, p), "all-ports")
			}
		}
	}
	for _, role := range addrRoles {
		for _, a := range addrs {
			check(role, a, "no-port")
			for _, p := range []string{"65536", "65537", "99999", "70000", "00", "060000", "0x50", "-1", "+80", " 80", "80 ", ""} {
				check(role, a+":"+p, "odd-port")
			}
		}
	}

	// ---- random IPv4 x port class, and one-character mutations of valid strings
	N := c.N(4000, 150000)
	mut := []byte("0123456789.:x -+/a")
	for i := 0; i < N; i++ {
		ip := r.IP()
		s := fmt.Sprintf("%d.%d.%d.%d", ip.B[0], ip.B[1], ip.B[2], ip.B[3])
		switch r.Pick(4) {
		case 0:
		case 1:
			s += fmt.Sprintf(":%d", []int{0, 1, 59999, 60000, 60001, 65535, 65536, 80}[r.Pick(8)])
		default:
			s += fmt.Sprintf(":%d", r.Pick(65536))
		}
		role := addrRoles[r.Pick(4)]
		check(role, s, "random")
		if i%4 == 0 {
			pos := r.Pick(len(s) + 1)
			switch r.Pick(3) {
			case 0:
				if pos < len(s) {
					check(role, s[:pos]+s[pos+1:], "mutation/delete")
				}
			case 1:
				check(role, s[:pos]+string(mut[r.Pick(len(mut))])+s[pos:], "mutation/insert")
			case 2:
				if pos < len(s) {
					check(role, s[:pos]+string(mut[r.Pick(len(mut))])+s[pos+1:], "mutation/replace")
				}
			}
		}
	}
	// every position of one valid address per role
	for _, role := range addrRoles {
		base := "192.168.10.25:12345"
		for pos := 0; pos <= len(base); pos++ {
			for _, ch := range mut {
				check(role, base[:pos]+string(ch)+base[pos:], "mutation/insert-every-position")
				if pos < len(base) {
					check(role, base[:pos]+string(ch)+base[pos+1:], "mutation/replace-every-position")
				}
			}
			if pos < len(base) {
				check(role, base[:pos]+base[pos+1:], "mutation/delete-every-position")
			}
		}
		for _, s := range []string{"localhost", "localhost:60000", "example.com:80", "::1", "[::1]:80", "1.2.3", "1.2.3:80", "1..2.3", "...", "a.b.c.d", "a.b.c.d:80", ":", ":80", "1.2.3.", ".1.2.3", "1,2,3,4", "１.２.３.４", "1.2.3.4", "1.2.3.4:60000", "1.2.3.4:0"} {
			check(role, s, "hand-picked")
		}
	}
}

// c15IntoUsed: Set and UnmarshalJSON on a receiver that already holds prev.
func c15IntoUsed(role string, prev netip.AddrPort, s string, js []byte) (netip.AddrPort, error, netip.AddrPort, error) {
	switch role {
	case "bind":
		a, b := types.BindAddr{AddrPort: prev}, types.BindAddr{AddrPort: prev}
		e1 := a.Set(s)
		e2 := json.Unmarshal(js, &b)
		return a.AddrPort, e1, b.AddrPort, e2
	case "broadcast":
		a, b := types.BroadcastAddr{AddrPort: prev}, types.BroadcastAddr{AddrPort: prev}
		e1 := a.Set(s)
		e2 := json.Unmarshal(js, &b)
		return a.AddrPort, e1, b.AddrPort, e2
	case "listen":
		a, b := types.ListenAddr{AddrPort: prev}, types.ListenAddr{AddrPort: prev}
		e1 := a.Set(s)
		e2 := json.Unmarshal(js, &b)
		return a.AddrPort, e1, b.AddrPort, e2
	default:
		a, b := types.ControllerAddr{AddrPort: prev}, types.ControllerAddr{AddrPort: prev}
		e1 := a.Set(s)
		e2 := json.Unmarshal(js, &b)
		return a.AddrPort, e1, b.AddrPort, e2
	}
}

// c15Concurrent: the verdict on a string does not depend on what other goroutines are parsing at the time. Half of the goroutines
// parse valid addresses (all roles, all entry points), the other half strings that are rejected for every possible reason - also
// the ones the standard library's own address parser chokes on ("", "localhost", ":60001", "::1").
func c15Concurrent(c *Ctx) {
	G := 8
	per := c.N(6000, 60000)
	if old := runtime.GOMAXPROCS(0); old < 8 {
		runtime.GOMAXPROCS(8)
		defer runtime.GOMAXPROCS(old)
	}
	var wg sync.WaitGroup
	var nbad atomic.Int64
	junk := []string{"", "localhost", ":60001", "::1", "[::1]:60001", "1.2.3", "a.b.c.d", "256.1.1.1", "1.2.3.4:99999", "1.2.3.4:", " ", "0x7f.0.0.1", "1.2.3.4:60000x"}
	for g := 0; g < G; g++ {
		wg.Add(1)
		go func(g int) {
			defer wg.Done()
			rr := gen.New(c.Seed, fmt.Sprintf("C15/concurrent/%d", g), c.Batch)
			for k := 0; k < per && nbad.Load() < 4; k++ {
				role := addrRoles[rr.Pick(len(addrRoles))]
				if g%2 == 1 {
					s := junk[rr.Pick(len(junk))]
					if _, err := role.parse(s); err == nil && !anyQuad.MatchString(s) {
						nbad.Add(1)
						c.Res.Violate("C15:"+role.name+":accepts-invalid:concurrent", fmt.Sprintf("%s address %q contains no dotted quad but was accepted while %d goroutines parse concurrently", role.name, s, G), map[string]any{"input": s}, -6)
					}
					continue
				}
				ip := rr.IP()
				port := 1 + rr.Pick(59998)
				s := fmt.Sprintf("%d.%d.%d.%d:%d", ip.B[0], ip.B[1], ip.B[2], ip.B[3], port)
				want := netip.AddrPortFrom(netip.AddrFrom4([4]byte{ip.B[0], ip.B[1], ip.B[2], ip.B[3]}), uint16(port))
				var got netip.AddrPort
				var err error
				entry := ""
				switch rr.Pick(3) {
				case 0:
					entry = "Parse"
					got, err = role.parse(s)
				case 1:
					entry = "Set"
					got, err = role.set(s)
				default:
					entry = "UnmarshalJSON"
					js, _ := json.Marshal(s)
					got, err = role.unjson(js)
				}
				c.Res.Eval(1)
				if err != nil || got != want {
					nbad.Add(1)
					c.Res.Violate("C15:"+role.name+":rejects-valid:concurrent", fmt.Sprintf("%s %s(%q) = %v, %v (expected %v) while %d goroutines parse valid and invalid addresses concurrently", role.name, entry, s, got, err, want, G), map[string]any{"input": s}, -6)
				}
			}
		}(g)
	}
	wg.Wait()
	c.Res.Count("concurrent-parses", int64(G*per))
}
