package main

import (
	"fmt"
	"net"
	"sort"
	"strconv"
	"strings"
	"sync"
	"sync/atomic"
	"time"

	"github.com/uhppoted/uhppote-core/uhppote"

	"verif/harness/adapter"
	"verif/harness/farm"
	"verif/harness/gen"
	rm "verif/harness/refmodel"
)

// c08Hammer: volume. Many goroutines share one or two clients (bind port 0) and keep tens of requests in flight to the
// same few controllers for thousands of calls, every call carrying a unique 32 bit id that the farm echoes at once.
// What the small plans cannot show is anything that depends on two of the library's sockets meeting by chance (the same
// ephemeral port, the same pooled buffer): a one-in-thousands event per call. The farm records for every id when the
// request arrived, from which source port, and when the reply left; a host-stall monitor (a goroutine that sleeps 2 ms
// in a loop and records its worst oversleep) decides whether a failed call may be blamed on the library.
func c08Hammer(c *Ctx, T time.Duration) {
	c08HammerPhase(c, T, "mixed")
	// the same with nearly every call on the broadcast path (controllers without a configured address): there the sockets are opened
	// by other code than on the directed path
	c08HammerPhase(c, T, "broadcast")
}

func c08HammerPhase(c *Ctx, T time.Duration, phase string) {
	G := 48
	K := c.N(700, 6000)
	if c.Mode == "race" {
		K = c.N(120, 900)
	}
	if phase == "broadcast" {
		K = K / 2
	}
	calls0 := G * K
	total := 2 * calls0 // ids: one per call, and one more for the second attempt of a call that failed
	fm := farm.New()
	fm.KeepLog = false
	defer fm.Close()
	base := uint32(0x01000000) // ids base+1 .. base+total (never 0, 0xffffffff or 0x00ffffff)
	recvT := make([]atomic.Int64, total+1)
	sendT := make([]atomic.Int64, total+1)
	srcPort := make([]atomic.Int32, total+1)
	dupRecv := atomic.Int64{}
	idOf := func(b []byte) int {
		if len(b) != 64 {
			return -1
		}
		id := uint32(b[8]) | uint32(b[9])<<8 | uint32(b[10])<<16 | uint32(b[11])<<24
		if id <= base || id > base+uint32(total) {
			return -1
		}
		return int(id - base)
	}
	fm.Hook = func(ev farm.Event) {
		switch ev.Kind {
		case "recv":
			if i := idOf(ev.Data); i > 0 {
				if !recvT[i].CompareAndSwap(0, ev.T) {
					dupRecv.Add(1)
				}
				if k := strings.LastIndexByte(ev.Src, ':'); k >= 0 {
					p, _ := strconv.Atoi(ev.Src[k+1:])
					srcPort[i].Store(int32(p))
				}
			}
		case "send":
			// the reply carries the echo, not the id: the script stores the send time itself (below)
		}
	}
	var eps []*farm.Endpoint
	for i := 0; i < 2; i++ {
		ep, err := fm.AddUDP("127.0.0.1", 0)
		if err != nil {
			c.Res.Inconcl("cannot build farm")
			return
		}
		eps = append(eps, ep)
	}
	tcp, err1 := fm.AddTCP("127.0.0.1", 0)
	bc, err2 := fm.AddUDP("127.0.0.1", 0)
	if err1 != nil || err2 != nil {
		c.Res.Inconcl("cannot build farm")
		return
	}
	fm.SetScript(func(ep *farm.Endpoint, src net.Addr, req []byte, seq uint64) []farm.Action {
		reply := echoReply(req)
		if reply == nil {
			return nil
		}
		if i := idOf(req); i > 0 {
			sendT[i].Store(farm.Mono()) // the write follows at once (no delay): "reply on its way" from here on
		}
		return []farm.Action{{Data: reply}}
	})

	serialBase := uint32(0x58000000) + uint32(c.Batch)<<20 + uint32(len(phase))<<8
	type ctl struct {
		serial uint32
		path   string
	}
	// (the fifth is configured - as a TCP controller - but without a usable address: it is reached by broadcast like the fourth)
	ctrls := []ctl{{serialBase + 1, "udp"}, {serialBase + 2, "udp"}, {serialBase + 3, "tcp"}, {serialBase + 4, "broadcast"}, {serialBase + 5, "broadcast"}}
	cfg := ClientCfg{Bind: "127.0.0.1:0", Broadcast: bc.Addr, Timeout: T, Devices: []DevCfg{
		{ID: ctrls[0].serial, Addr: eps[0].Addr, Proto: "udp", NewDevice: true}, {ID: ctrls[1].serial, Addr: eps[1].Addr, Proto: "udp"}, {ID: ctrls[2].serial, Addr: tcp.Addr, Proto: "tcp", NewDevice: true}, {ID: ctrls[4].serial, Addr: "0.0.0.0:60000", Proto: "tcp"}}}
	clients := []uhppote.IUHPPOTE{mkClient(cfg), mkClient(cfg)}

	// host-stall monitor
	var maxStall atomic.Int64
	stop := make(chan struct{})
	var mon sync.WaitGroup
	mon.Add(1)
	go func() {
		defer mon.Done()
		for {
			select {
			case <-stop:
				return
			default:
			}
			t0 := farm.Mono()
			time.Sleep(2 * time.Millisecond)
			if over := farm.Mono() - t0 - int64(2*time.Millisecond); over > maxStall.Load() {
				maxStall.Store(over)
			}
		}
	}()

	type hcall struct {
		id         int
		ctrl       int
		op         int
		start, end int64
		out        rm.Outcome
		panicked   bool
		retried    bool // the call failed and was made again at once (with an id of its own): that second call is in the list too
		retryOK    bool
	}
	hops := []echoOp{{"GetCardByIndex", "Index"}, {"GetEvent", "Index"}, {"GetCardByID", "CardNumber"}}
	calls := make([][]hcall, G)
	var next atomic.Uint32
	var inflight, maxInflight atomic.Int64
	var wg sync.WaitGroup
	gate := make(chan struct{})
	for g := 0; g < G; g++ {
		wg.Add(1)
		go func(g int) {
			defer wg.Done()
			rr := gen.New(c.Seed, fmt.Sprintf("C08/hammer/g%d", g), c.Batch)
			calls[g] = make([]hcall, 0, K)
			<-gate
			for k := 0; k < K; k++ {
				i := int(next.Add(1))
				ci := 0
				switch x := rr.Pick(100); {
				case phase == "broadcast" && x < 92:
					ci = 3
				case x < 78:
					ci = 0
				case x < 90:
					ci = 1
				case x < 95:
					ci = 2
				default:
					ci = 3
				}
				if ci == 3 && rr.Pick(2) == 0 {
					ci = 4
				}
				oi := rr.Pick(len(hops))
				u := clients[rr.Pick(2)]
				n := inflight.Add(1)
				for {
					m := maxInflight.Load()
					if n <= m || maxInflight.CompareAndSwap(m, n) {
						break
					}
				}
				h := hcall{id: i, ctrl: ci, op: oi, start: farm.Mono()}
				h.out, h.panicked = adapter.SafeCall(u, hops[oi].name, ctrls[ci].serial, echoArgs(hops[oi], base+uint32(i)), adapter.Aux{})
				h.end = farm.Mono()
				if h.out.Err != "" && !h.panicked {
					// a failed call is made again at once: a defect of the library fails again; a reply that was lost to the machine
					// (a starved goroutine finds its deadline expired although the reply sits in the socket) does not
					i2 := int(next.Add(1))
					h2 := hcall{id: i2, ctrl: ci, op: oi, start: farm.Mono()}
					h2.out, h2.panicked = adapter.SafeCall(u, hops[oi].name, ctrls[ci].serial, echoArgs(hops[oi], base+uint32(i2)), adapter.Aux{})
					h2.end = farm.Mono()
					h.retried, h.retryOK = true, h2.out.Err == "" && !h2.panicked
					calls[g] = append(calls[g], h2)
				}
				inflight.Add(-1)
				calls[g] = append(calls[g], h)
			}
		}(g)
	}
	t0 := time.Now()
	close(gate)
	wg.Wait()
	wall := time.Since(t0)
	close(stop)
	mon.Wait()
	fm.WaitIdle(2 * time.Second)

	stall := time.Duration(maxStall.Load())
	c.Res.Max("max:hammer:in-flight-calls", maxInflight.Load())
	c.Res.Max("max:hammer:host-stall-ms", stall.Milliseconds())
	c.Res.Count("hammer:calls", int64(calls0))
	c.Res.Note("hammer:"+phase, fmt.Sprintf("%d goroutines x %d calls on 2 clients (bind port 0) in %.1fs, max in flight %d, worst host stall %v", G, K, wall.Seconds(), maxInflight.Load(), stall))
	overloaded := stall > T/3

	// the hazard itself, as a diagnostic: two requests in flight at the same time from the same local port to the same controller
	type span struct {
		port, ctrl int
		from, to   int64
		id         int
	}
	spans := []span{}
	all := []hcall{}
	for g := range calls {
		all = append(all, calls[g]...)
	}
	for _, h := range all {
		if p := int(srcPort[h.id].Load()); p != 0 && ctrls[h.ctrl].path == "udp" {
			spans = append(spans, span{p, h.ctrl, recvT[h.id].Load(), h.end, h.id})
		}
	}
	sort.Slice(spans, func(i, j int) bool {
		if spans[i].port != spans[j].port {
			return spans[i].port < spans[j].port
		}
		return spans[i].from < spans[j].from
	})
	shared := map[int]string{}
	for i := 1; i < len(spans); i++ {
		a, b := spans[i-1], spans[i]
		if a.port == b.port && a.ctrl == b.ctrl && b.from < a.to {
			shared[a.id] = fmt.Sprintf("local port %d was also in use by the concurrent request id %d to the same controller", a.port, b.id)
			shared[b.id] = fmt.Sprintf("local port %d was also in use by the concurrent request id %d to the same controller", b.port, a.id)
		}
	}
	c.Res.Count("hammer:requests-whose-local-port-was-in-use-by-another-request-within-the-same-span(diagnostic; includes immediate reuse after close)", int64(len(shared)))

	for _, h := range all {
		c.Res.Eval(1)
		op := rm.FindOp(hops[h.op].name)
		path := ctrls[h.ctrl].path
		c.Res.DistinctKey("hammer", phase, op.Name, path)
		c.Res.Count("hammer:"+phase+":calls:"+path, 1)
		w := map[string]any{"phase": "hammer/" + phase, "goroutines": G, "op": op.Name, "path": path, "id": base + uint32(h.id), "err": h.out.Err, "result": h.out.Fields.String(),
			"call_ms": float64(h.end-h.start) / 1e6, "worst_host_stall_ms": stall.Milliseconds(), "max_in_flight": maxInflight.Load()}
		if s := shared[h.id]; s != "" {
			w["observed"] = s
		}
		if h.panicked {
			c.Res.Violate("C08:panic:"+op.Name, "panic under concurrent use: "+h.out.Err, w, int64(h.id))
			continue
		}
		r, s := recvT[h.id].Load(), sendT[h.id].Load()
		if h.out.Err == "" {
			// a value: it must be the echo of this call's own request, whatever the timing
			exp := rm.CallExp{AcceptValue: true, Fields: map[string]rm.Exp{}}
			for name, v := range echoVals(op, ctrls[h.ctrl].serial, base+uint32(h.id)) {
				for _, slot := range op.Result {
					if slot == name {
						exp.Fields[name] = rm.Exp{Mode: rm.Must, V: v}
					}
				}
			}
			if msg := exp.Judge(h.out); msg != "" {
				c.Res.Violate("C08:crossed-reply:"+path, fmt.Sprintf("%s (%s path, bind port 0, %d goroutines on 2 clients) did not return the reply to its own request: %s", op.Name, path, G, msg), w, int64(h.id))
			}
			continue
		}
		if h.retried && h.retryOK {
			c.Res.Count("hammer:calls-that-failed-once-and-succeeded-when-made-again(transient: not judged)", 1)
			continue
		}
		if r == 0 && !noEphemeralPort(h.out.Err) && !overloaded && time.Duration(h.end-h.start) < T/2 && !strings.Contains(h.out.Err, "i/o timeout") {
			// the call gave up long before its timeout and its controller never saw a request: it was never asked
			c.Res.Violate("C08:request-not-sent:"+path, fmt.Sprintf("%s (%s path, bind port 0, %d goroutines on 2 clients) failed after %.1f ms with %q without its controller ever being asked (T=%v)", op.Name, path, G, float64(h.end-h.start)/1e6, h.out.Err, T), w, int64(h.id))
			continue
		}
		if r == 0 || s == 0 || noEphemeralPort(h.out.Err) {
			c.Res.Count("hammer:not-asked-or-not-answered(not judged)", 1)
			continue
		}
		w["asked_after_ms"], w["answered_after_ms"] = float64(r-h.start)/1e6, float64(s-r)/1e6
		if time.Duration(h.end-h.start) > T+T/3 {
			// a call that gives up on time returns at T; one that returns much later was not running when its deadline passed - and a
			// goroutine that is kept from running while its reply sits in the socket buffer finds the deadline expired when it is let
			// back in (the runtime reports the timeout, not the data): starvation of the process, whatever the heartbeat saw
			c.Res.Inconcl(fmt.Sprintf("hammer: a call failed after %.0f ms (T=%v): its goroutine was kept from running (host overloaded): not judged", float64(h.end-h.start)/1e6, T))
			continue
		}
		if overloaded || time.Duration(r-h.start) > T/10 || time.Duration(s-r) > T/10 {
			c.Res.Inconcl(fmt.Sprintf("hammer: a call failed but the host stalled (worst %v, asked after %.0f ms, answered after %.0f ms): not judged", stall, w["asked_after_ms"], w["answered_after_ms"]))
			continue
		}
		c.Res.Violate("C08:lost-reply:"+path, fmt.Sprintf("%s (%s path, bind port 0, %d goroutines on 2 clients) failed with %q although its controller was asked %.1f ms after the call started and answered %.1f ms later (T=%v)", op.Name, path, G, h.out.Err, w["asked_after_ms"], w["answered_after_ms"], T), w, int64(h.id))
	}
	if d := dupRecv.Load(); d > 0 {
		c.Res.Violate("C08:hammer:duplicate-request", fmt.Sprintf("%d requests arrived at the farm more than once", d), nil, 0)
	}
}
