package main

import (
	"fmt"
	"net"
	"net/netip"
	"strings"
	"sync"
	"time"

	"verif/harness/adapter"
	"verif/harness/farm"
	rm "verif/harness/refmodel"
	"verif/harness/wk"
)

// c06Netns: the routing rule observed on a private network segment with real broadcast (see netns.go). The farm's
// wildcard sockets record the destination address in the IP header of every datagram (IP_PKTINFO), so the monitor
// sees where a broadcast was really addressed - in particular the default 255.255.255.255:60000 when no broadcast
// address is configured, which the loopback layer cannot observe.
func c06Netns(c *Ctx) {
	if err := setupNetns(); err != nil {
		c.Res.Inconcl("cannot configure the network namespace: " + err.Error())
		return
	}
	const altPort = 50999
	T := 100 * time.Millisecond
	fm := farm.New()
	defer fm.Close()
	opts := farm.UDPOpts{PktInfo: true, ReuseAddr: true}
	wild, err := fm.AddUDPOpts("0.0.0.0", 60000, opts)
	if err != nil {
		c.Res.Inconcl("farm: " + err.Error())
		return
	}
	wildAlt, err := fm.AddUDPOpts("0.0.0.0", altPort, opts)
	if err != nil {
		c.Res.Inconcl("farm: " + err.Error())
		return
	}
	type ctl struct{ udp, tcp *farm.Endpoint }
	ctls := []ctl{}
	for k := 0; k < 4; k++ {
		port := 60000 // the controllers listen on the broadcast port, as real ones do
		if k == 3 {
			port = 40001
		}
		u, err1 := fm.AddUDPOpts(nsCtl(k), port, opts)
		t, err2 := fm.AddTCP(nsCtl(k), port)
		if err1 != nil || err2 != nil {
			c.Res.Inconcl(fmt.Sprintf("farm: %v %v", err1, err2))
			return
		}
		ctls = append(ctls, ctl{u, t})
	}
	var cur struct {
		sync.Mutex
		op    *rm.Op
		reply []byte
		noise [][]byte
		delay time.Duration // < 0: no reply at all
	}
	fm.SetScript(func(ep *farm.Endpoint, src net.Addr, req []byte, seq uint64) []farm.Action {
		cur.Lock()
		defer cur.Unlock()
		if cur.op == nil || cur.op.NoReply || len(req) != 64 {
			return nil
		}
		if cur.delay < 0 {
			return nil
		}
		out := []farm.Action{{Delay: cur.delay}}
		if ep.Proto == "udp" {
			for _, b := range cur.noise {
				out = append(out, farm.Action{Data: b})
			}
		}
		return append(out, farm.Action{Data: cur.reply})
	})

	r := c.Rng("netns")
	ops := append([]*rm.Op{rm.FindOp("GetDevices")}, reqOps()...)
	N := c.N(300, 6000)
	bcasts := []string{"", fmt.Sprintf("255.255.255.255:%d", altPort), nsBcast + ":60000", fmt.Sprintf("%s:%d", nsBcast, altPort)}
	// arrivals are attributed to calls by content (see the loopback layer)
	recent := map[string]int{}
	recentQ := []string{}
	remember := func(b []byte) {
		k := string(b)
		recent[k]++
		recentQ = append(recentQ, k)
		if len(recentQ) > 64 {
			old := recentQ[0]
			recentQ = recentQ[1:]
			if recent[old]--; recent[old] <= 0 {
				delete(recent, old)
			}
		}
	}
	for i := 0; i < N; i++ {
		caseNo := int64(i)
		serial := uint32(0x48000000) + uint32(c.Batch)<<20 + uint32(i) + 1
		dv := c06Dev{c06States[r.Pick(5)], c06Protos[r.Pick(6)], r.Chance(0.5)}
		if i%3 == 0 {
			dv.state = "valid"
		}
		if r.Chance(0.25) {
			dv.proto = "tcp"
		}
		k := r.Pick(4)
		bc := bcasts[r.Pick(len(bcasts))]
		bindKind := []string{"0.0.0.0:0", nsClient + ":0", nsCtl(4) + ":0", "fixed"}[r.Pick(4)]
		cfg := ClientCfg{Broadcast: bc, Timeout: T, Bind: bindKind}
		fixedPort := 0
		if bindKind == "fixed" {
			if fixedPort = freePort(nsClient); fixedPort == 0 {
				c.Res.Inconcl("no free port for a fixed bind address")
				continue
			}
			cfg.Bind = fmt.Sprintf("%s:%d", nsClient, fixedPort)
		}
		for j := 0; j < 4; j++ {
			if j != k && r.Chance(0.6) {
				cfg.Devices = append(cfg.Devices, DevCfg{ID: serial ^ uint32(0x01000000*(j+1)), Addr: ctls[j].udp.Addr, Proto: c06Protos[r.Pick(6)], NewDevice: r.Chance(0.5)})
			}
		}
		switch dv.state {
		case "zero":
			cfg.Devices = append(cfg.Devices, DevCfg{ID: serial, Addr: "", Proto: dv.proto, NewDevice: dv.newd})
		case "unspecified":
			cfg.Devices = append(cfg.Devices, DevCfg{ID: serial, Addr: fmt.Sprintf("0.0.0.0:%d", ctls[k].udp.Port), Proto: dv.proto, NewDevice: dv.newd})
		case "port0":
			cfg.Devices = append(cfg.Devices, DevCfg{ID: serial, Addr: nsCtl(k) + ":0", Proto: dv.proto, NewDevice: dv.newd})
		case "valid":
			cfg.Devices = append(cfg.Devices, DevCfg{ID: serial, Addr: ctls[k].udp.Addr, Proto: dv.proto, NewDevice: dv.newd})
		}
		op := ops[r.Pick(len(ops))]
		a, p := r.Args(op)
		aux := toAux(p)
		fixArgs(op, a, aux)
		u := mkClient(cfg)
		total := func() int64 {
			var n int64
			for _, ep := range fm.Endpoints {
				n += ep.Recv.Load()
			}
			return n
		}
		histBefore := total()
		hist := c06History(r, u, cfg, serial, [][4]byte{{10, 77, 0, 2}, {10, 77, 0, 3}, {10, 77, 0, 4}, {10, 77, 0, 5}, {127, 0, 0, 1}}, i%8 == 7, func(hop *rm.Op, hs uint32, ha rm.Vals) {
			remember(hop.Request(hs, ha))
			cur.Lock()
			cur.op, cur.noise, cur.delay = hop, nil, 0
			cur.reply = validReply(r, hop, hs, ha)
			if hop.Discovery {
				// an earlier discovery is answered by the judged controller itself, reporting whatever address it has (2 of 3), or by another one
				cur.reply = validReply(r, hop, map[bool]uint32{true: serial, false: 77}[r.Pick(3) > 0], ha)
			}
			cur.Unlock()
		})
		if len(hist) > 0 {
			// every earlier call put exactly one request on the network: wait (bounded) until the farm has logged them all -
			// a TCP request of a call that does not wait for a reply can be read by the farm well after the call returned
			for q := 0; q < 500 && total() < histBefore+int64(c06NetCalls(hist)); q++ {
				time.Sleep(2 * time.Millisecond)
			}
			time.Sleep(3 * time.Millisecond)
			fm.WaitIdle(2 * time.Second)
			c.Res.Count("netns:cases-with-earlier-calls-on-the-client", 1)
		}
		cur.Lock()
		cur.op = op
		if op.Discovery {
			cur.reply = validReply(r, op, r.Serial(), a)
		} else {
			cur.reply = validReply(r, op, serial, a)
		}
		cur.noise = c06Noise(r, cur.reply)
		cur.delay = 0
		replyClass := "prompt"
		switch x := r.Pick(20); {
		case x < 1:
			cur.delay, replyClass = T*65/100, "after-0.65T"
		case x < 2:
			cur.delay, replyClass = -1, "never"
		}
		c.Res.Count("netns:reply:"+replyClass, 1)
		nNoise := len(cur.noise)
		cur.Unlock()
		if nNoise > 0 {
			c.Res.Count("netns:cases-with-stray-datagrams-before-the-reply", 1)
		}
		fm.ResetLog()
		recvBefore := total()
		var out rm.Outcome
		start := time.Now()
		if op.Discovery {
			if _, err := u.GetDevices(); err != nil {
				out.Err = err.Error()
			}
		} else {
			out, _ = adapter.SafeCall(u, op.Name, serial, a, aux)
		}
		elapsed := time.Since(start)
		for w := 0; w < 500 && total() == recvBefore; w++ {
			time.Sleep(2 * time.Millisecond)
		}
		time.Sleep(3 * time.Millisecond)
		fm.WaitIdle(2 * time.Second)
		events := fm.Events()

		// ---- expectation
		wantProto, wantDst := "udp", ""
		var wantEP *farm.Endpoint
		broadcast := op.Discovery || dv.state != "valid"
		if broadcast {
			ap := netip.MustParseAddrPort("255.255.255.255:60000")
			if bc != "" {
				ap = netip.MustParseAddrPort(bc)
			}
			wantDst = ap.Addr().String()
			wantEP = wild
			if ap.Port() == altPort {
				wantEP = wildAlt
			}
		} else if dv.proto == "tcp" {
			wantEP, wantProto = ctls[k].tcp, "tcp"
		} else {
			wantEP, wantDst = ctls[k].udp, nsCtl(k)
		}
		wantSerial := serial
		if op.Discovery {
			wantSerial = 0
		}
		wantReq := op.Request(wantSerial, a)
		c.Res.Eval(1)
		c.Res.DistinctKey("netns", op.Name, dv.state, dv.proto, dv.newd, bindKind, bc)
		route := "controller"
		if broadcast {
			route = "broadcast:" + map[bool]string{true: "default-255.255.255.255:60000", false: bc}[bc == ""]
		}
		c.Res.Count("netns:route:"+wantProto+":"+route, 1)

		recvs := []farm.Event{}
		desc := []string{}
		remember(wantReq)
		for _, e := range events {
			if e.Kind == "recv" {
				if string(e.Data) != string(wantReq) && recent[string(e.Data)] > 0 {
					c.Res.Count("netns:late-log-entries-of-earlier-calls(attributed by content)", 1)
					continue
				}
				recvs = append(recvs, e)
				desc = append(desc, fmt.Sprintf("%s endpoint %s from %s to %s (%d bytes)", e.Proto, fm.Endpoints[e.Endpoint].Addr, e.Src, e.Dst, len(e.Data)))
			}
		}
		wv := map[string]any{"layer": "netns", "op": op.Name, "config": fmt.Sprintf("%+v", cfg), "controller": dv.state, "protocol": dv.proto, "bind": cfg.Bind, "broadcast": bc,
			"expected": fmt.Sprintf("%s %s (destination address %s)", wantProto, wantEP.Addr, wantDst), "arrivals": desc, "err": out.Err, "elapsed_ms": elapsed.Milliseconds(), "earlier_calls_on_this_client": hist, "stray_datagrams_before_reply": nNoise, "reply": replyClass}
		key := fmt.Sprintf("C06:netns:%s:%s", dv.state, wantProto)
		if broadcast && bc == "" {
			key = "C06:default-broadcast-address"
		}
		if len(recvs) == 0 && (strings.Contains(out.Err, "address already in use") || strings.Contains(out.Err, "cannot assign requested address")) {
			c.Res.Inconcl("bind collision on a 'fixed' port: " + out.Err)
			continue
		}
		if len(recvs) == 0 && wantProto == "tcp" && strings.Contains(out.Err, "i/o timeout") && strings.Contains(out.Err, "->"+wantEP.Addr) {
			// the connection to the right endpoint over the right transport was not established within the timeout (a stalled host):
			// nothing left, and nothing can be said about routing
			c.Res.Inconcl("TCP connection to the expected endpoint not established within the timeout (host stalled?): " + out.Err)
			continue
		}
		if len(recvs) != 1 {
			c.Res.Violate(key+":count", fmt.Sprintf("%s (controller %s, protocol %q, bind %s, broadcast %q): %d requests arrived on the segment, expected exactly one at %s %s: %v (call: %q)", op.Name, dv.state, dv.proto, cfg.Bind, bc, len(recvs), wantProto, wantEP.Addr, desc, out.Err), wv, caseNo)
			continue
		}
		e := recvs[0]
		if e.Endpoint != wantEP.Index || e.Proto != wantProto || (wantDst != "" && e.Dst != wantDst) {
			c.Res.Violate(key+":endpoint", fmt.Sprintf("%s (controller %s, protocol %q, broadcast %q): the request arrived at %s %s addressed to %s, the routing rule says %s %s addressed to %s", op.Name, dv.state, dv.proto, bc, e.Proto, fm.Endpoints[e.Endpoint].Addr, e.Dst, wantProto, wantEP.Addr, wantDst), wv, caseNo)
			continue
		}
		src, perr := netip.ParseAddrPort(e.Src)
		bindIP := strings.Split(cfg.Bind, ":")[0]
		srcOK := perr == nil
		if srcOK && bindIP != "0.0.0.0" && src.Addr().String() != bindIP {
			srcOK = false
		}
		if srcOK && bindIP == "0.0.0.0" && !strings.HasPrefix(src.Addr().String(), "10.77.0.") {
			srcOK = false
		}
		if srcOK && fixedPort != 0 && int(src.Port()) != fixedPort {
			srcOK = false
		}
		if !srcOK {
			c.Res.Violate("C06:netns:source-address:"+wantProto, fmt.Sprintf("%s over %s: the request came from %s, the configured bind address is %s", op.Name, wantProto, e.Src, cfg.Bind), wv, caseNo)
			continue
		}
		if string(e.Data) != string(wantReq) {
			wv["got"], wv["want"] = wk.Hex(e.Data), wk.Hex(wantReq)
			c.Res.Violate("C06:netns:request-bytes", fmt.Sprintf("%s: the bytes that arrived at the endpoint differ from the reference encoding", op.Name), wv, caseNo)
			continue
		}
		if i%97 == 0 {
			c.Res.Sample(map[string]any{"layer": "netns", "op": op.Name, "controller": dv.state, "protocol": dv.proto, "bind": cfg.Bind, "broadcast": bc, "arrived": desc})
		}
	}
}
