package main

import (
	"fmt"
	"net"
	"strings"
	"sync"
	"time"

	"github.com/uhppoted/uhppote-core/types"
	"github.com/uhppoted/uhppote-core/uhppote"

	"verif/harness/adapter"
	"verif/harness/farm"
	"verif/harness/gen"
	rm "verif/harness/refmodel"
	"verif/harness/wk"
)

func init() { registry["C11"] = c11 }

type c11Reply struct {
	data    []byte
	class   string // valid | duplicate | wrong-length | wrong-protocol | wrong-function | bad-bcd-date | impossible-date
	verdict string // entry | none | either
	exp     rm.CallExp
	serial  uint32
	timing  string // must | grey | late  (loopback layer)
	sendOff time.Duration
	at      time.Duration // > 0: planned offset of a grey reply (replies that keep arriving while the collection ends)
}

// c11Mix builds a random reply list for a discovery.
func c11Mix(r gen.R, n int, serials []uint32) []*c11Reply {
	op := rm.FindOp("GetDevice")
	l := op.ReplyLayout()
	out := []*c11Reply{}
	malformedSerials := []uint32{}
	for i := 0; i < n; i++ {
		serial := r.Serial()
		if len(serials) > 0 && r.Chance(0.5) {
			serial = serials[r.Pick(len(serials))]
		}
		if len(malformedSerials) > 0 && r.Chance(0.3) {
			// the controller whose earlier datagram was malformed answers properly now: its entry is not hidden by the earlier junk
			serial = malformedSerials[r.Pick(len(malformedSerials))]
		}
		if r.Pick(40) == 0 {
			serial = 0 // "all field values": a reply that reports serial number 0 is a well-formed reply like any other
		}
		rep := &c11Reply{class: "valid", serial: serial}
		rep.data = r.Reply(op, 0x17, serial, rm.Vals{}, true)
		switch k := r.Pick(16); {
		case k < 8:
		case k < 10 && len(out) > 0:
			src := out[r.Pick(len(out))]
			rep.class, rep.data, rep.serial = "duplicate", append([]byte{}, src.data...), src.serial
		case k == 10:
			rep.class = "wrong-length"
			n := []int{0, 1, 8, 63, 65, 128, 1024, 2048, 3000, r.Pick(64), 65 + r.Pick(900)}[r.Pick(11)]
			if n <= 64 {
				rep.data = rep.data[:n]
			} else {
				rep.data = append(rep.data, make([]byte, n-64)...)
			}
		case k == 11:
			rep.class = "wrong-protocol"
			rep.data[0] = []byte{0x00, 0x16, 0x18, 0x19, 0xff}[r.Pick(5)]
		case k == 12:
			rep.class = "wrong-function"
			rep.data[1] = []byte{0x00, 0x20, 0x92, 0x95, 0x96, 0xff}[r.Pick(6)]
		case k == 13:
			rep.class = "bad-bcd-date"
			f := l.Field("Date")
			pos := r.Pick(4)
			if r.Chance(0.5) {
				rep.data[f.Offset+pos] = rep.data[f.Offset+pos]&0x0f | byte(10+r.Pick(6))<<4
			} else {
				rep.data[f.Offset+pos] = rep.data[f.Offset+pos]&0xf0 | byte(10+r.Pick(6))
			}
		case k == 14:
			rep.class = "impossible-date"
			f := l.Field("Date")
			copy(rep.data[f.Offset:], [][]byte{{0x20, 0x23, 0x02, 0x30}, {0x20, 0x24, 0x13, 0x01}, {0x20, 0x24, 0x04, 0x31}, {0x19, 0x00, 0x02, 0x29}, {0x20, 0x24, 0x00, 0x10}}[r.Pick(5)])
		case k == 15:
			rep.class = "zero-date"
			f := l.Field("Date")
			copy(rep.data[f.Offset:], []byte{0, 0, 0, 0})
		}
		if rep.class != "valid" && rep.class != "duplicate" && rep.class != "zero-date" && len(rep.data) >= 8 {
			malformedSerials = append(malformedSerials, uint32(rep.data[4])|uint32(rep.data[5])<<8|uint32(rep.data[6])<<16|uint32(rep.data[7])<<24)
		}
		// verdict
		switch {
		case len(rep.data) != 64, rep.data[0] != 0x17, rep.data[1] != 0x94:
			rep.verdict = "none"
		default:
			rep.serial = uint32(rep.data[4]) | uint32(rep.data[5])<<8 | uint32(rep.data[6])<<16 | uint32(rep.data[7])<<24
			rep.exp = op.Expect(rep.serial, rm.Vals{}, rep.data)
			d := rm.DecodeField(rep.data, *l.Field("Date"))
			switch d.Class {
			case "date-nonbcd":
				rep.verdict = "none"
			case "date-impossible", "date-outside-domain":
				rep.verdict = "either"
			default:
				rep.verdict = "entry"
			}
		}
		out = append(out, rep)
	}
	return out
}

// c11Match: does the returned device equal the decoding of the reply, with the address completed by port and the configured name?
func c11Match(dev *types.Device, rep *c11Reply, port uint16, names map[uint32]string) string {
	if msg := rep.exp.Judge(rm.Outcome{Fields: adapter.PDevice(dev)}); msg != "" {
		return msg
	}
	ip := rep.data[8:12]
	want := fmt.Sprintf("%d.%d.%d.%d:%d", ip[0], ip[1], ip[2], ip[3], port)
	if dev.Address.String() != want {
		return fmt.Sprintf("address %v, expected %s (reply address completed by the broadcast port)", dev.Address, want)
	}
	if dev.Name != names[rep.serial] {
		return fmt.Sprintf("name %q, expected %q (configured controller with serial %d)", dev.Name, names[rep.serial], rep.serial)
	}
	return ""
}

// c11Compare walks the ordered datagrams and the result; returns "" or a description of the first disagreement.
func c11Compare(list []types.Device, replies []*c11Reply, port uint16, names map[uint32]string) (string, string) {
	p := 0
	for i, rep := range replies {
		if rep.verdict == "none" || rep.timing == "late" {
			// nothing may come of it; if the next result equals it although nothing else explains it, it is caught below as an extra
			continue
		}
		if p < len(list) && c11Match(&list[p], rep, port, names) == "" {
			p++
			continue
		}
		if rep.verdict == "entry" && rep.timing != "grey" {
			why := "missing"
			if p < len(list) {
				why = c11Match(&list[p], rep, port, names)
			}
			return fmt.Sprintf("reply #%d (%s, serial %d) has no entry at position %d of the result: %s", i, rep.class, rep.serial, p, why), rep.class
		}
	}
	if p < len(list) {
		return fmt.Sprintf("result entry #%d (%s) corresponds to no well-formed reply at that position", p, adapter.PDevice(&list[p]).String()), "extra-entry"
	}
	return "", ""
}

func c11(c *Ctx) {
	c.Res.Rule = "discovery against reply lists mixing valid replies (all field values), exact duplicates and malformed datagrams (wrong length, wrong protocol id, wrong function code, non-BCD date; calendar-impossible dates are three-valued) in random order; hooked layer: the transport returns the list; loopback layer: a farm answers the real broadcast from several sockets with delays, and replies sent after the deadline must not appear (those in the grey zone 0.6T..T+0.3s are don't-care); the result must be, in order, exactly the decodings of the well-formed replies with the address completed by the broadcast port and the configured name; distinct = distinct (layer, class sequence)"
	if c.Mode == "loopback" || c.Mode == "race" {
		c11Loopback(c)
		return
	}
	r := c.Rng("hook")
	N := c.N(20000, 400000)
	for i := 0; i < N; i++ {
		cfg := ClientCfg{Bind: "0.0.0.0:0"}
		port := uint16(60000)
		if r.Chance(0.6) {
			port = []uint16{60000, 60001, 59999, 12345, uint16(1 + r.Pick(65535))}[r.Pick(5)]
			cfg.Broadcast = fmt.Sprintf("192.168.1.255:%d", port)
		}
		names := map[uint32]string{}
		serials := []uint32{}
		for k := 0; k < r.Pick(4); k++ {
			s := r.Serial()
			serials = append(serials, s)
			dc := DevCfg{ID: s, Name: fmt.Sprintf("controller-%d", k), Proto: []string{"udp", "tcp"}[r.Pick(2)], NewDevice: r.Chance(0.5)}
			switch r.Pick(3) {
			case 0:
				dc.Addr = fmt.Sprintf("10.0.0.%d:%d", 1+k, 54321+k) // a configured port that differs from the broadcast port
			case 1:
				dc.Addr = fmt.Sprintf("10.0.0.%d:60000", 1+k)
			}
			names[s] = dc.Name
			cfg.Devices = append(cfg.Devices, dc)
		}
		u, d := mkMemClient(cfg)
		if i%3 == 1 {
			c11EditDeviceList(u, serials)
			c.Res.Count("hook:discoveries-after-the-application-edited-its-copy-of-the-controller-list", 1)
		}
		replies := c11Mix(r, r.Pick(41), serials)
		raw := [][]byte{}
		seq := []string{}
		for _, rep := range replies {
			raw = append(raw, rep.data)
			seq = append(seq, rep.class)
		}
		d.Script = func(adapter.Invocation) ([][]byte, error) { return raw, nil }
		var list []types.Device
		var err error
		panicked := ""
		func() {
			defer func() {
				if p := recover(); p != nil {
					panicked = fmt.Sprint(p)
				}
			}()
			list, err = u.GetDevices()
		}()
		c.Res.Eval(1)
		c.Res.DistinctKey("hook", strings.Join(seq, ","))
		for _, s := range seq {
			c.Res.Count("replies:"+s, 1)
		}
		w := map[string]any{"layer": "hook", "classes": seq, "config": fmt.Sprintf("%+v", cfg), "entries": len(list)}
		if panicked != "" {
			c.Res.Violate("C11:panic", "GetDevices panicked: "+panicked, w, int64(i))
			continue
		}
		if err != nil {
			c.Res.Violate("C11:noise-fails-call", "GetDevices failed because of the replies it received: "+err.Error(), w, int64(i))
			continue
		}
		if msg, class := c11Compare(list, replies, port, names); msg != "" {
			c.Res.Violate("C11:hook:"+class, "GetDevices: "+msg, w, int64(i))
		} else if i%3 == 0 && len(list) > 0 {
			// the application works on the entries it was given - masks the addresses in place - one entry at a time: no other entry
			// of the list changes with it (duplicates are entries of their own), and the next poll of the same site through the same
			// client reports what the controllers sent, not what the application made of the last result
			before := make([]string, len(list))
			for k := range list {
				before[k] = fmt.Sprintf("%v %v %v %v", list[k].IpAddress, list[k].SubnetMask, list[k].Gateway, list[k].MacAddress)
			}
			shared := ""
			for k := range list {
				for _, ip := range []net.IP{list[k].IpAddress, list[k].SubnetMask, list[k].Gateway} {
					for q := range ip {
						ip[q] ^= 0xa5
					}
				}
				for q := range list[k].MacAddress {
					list[k].MacAddress[q] ^= 0x5a
				}
				for j := k + 1; j < len(list) && shared == ""; j++ {
					if now := fmt.Sprintf("%v %v %v %v", list[j].IpAddress, list[j].SubnetMask, list[j].Gateway, list[j].MacAddress); now != before[j] {
						shared = fmt.Sprintf("entry %d (serial %d) changed from %s to %s when the application wrote into the addresses of entry %d (serial %d)", j, list[j].SerialNumber, before[j], now, k, list[k].SerialNumber)
					}
				}
			}
			c.Res.Eval(1)
			if shared != "" {
				c.Res.Violate("C11:hook:entries-share-storage", "GetDevices: "+shared, w, int64(i))
			} else {
				d.Reset()
				d.Script = func(adapter.Invocation) ([][]byte, error) { return raw, nil }
				again, err2 := u.GetDevices()
				if err2 != nil {
					c.Res.Violate("C11:noise-fails-call", "GetDevices (second poll through the same client) failed: "+err2.Error(), w, int64(i))
				} else if msg, class := c11Compare(again, replies, port, names); msg != "" {
					c.Res.Violate("C11:hook:"+class+":second-poll", "GetDevices, polled again through the same client after the application had written into the entries of the first result: "+msg, w, int64(i))
				}
				c.Res.Count("hook:second-polls-after-the-application-edited-the-first-result", 1)
			}
		}
		if i%4999 == 0 {
			c.Res.Sample(map[string]any{"layer": "hook", "classes": seq, "entries": len(list), "broadcast": cfg.Broadcast})
		}
	}
	_ = wk.Hex
}

func c11Loopback(c *Ctx) {
	c09Stalls.start() // host-stall monitor (see c09.go)
	defer close(c09Stalls.stop)
	T := 230 * time.Millisecond // (not a round number)
	workers := 8
	N := c.N(12, 80)
	if c.Mode == "race" {
		N = c.N(6, 30)
	}
	var wg sync.WaitGroup
	for w := 0; w < workers; w++ {
		wg.Add(1)
		go func(w int) {
			defer wg.Done()
			r := gen.New(c.Seed, fmt.Sprintf("C11/loopback/w%d", w), c.Batch)
			fm := farm.New()
			fm.KeepLog = false
			bc, err := fm.AddUDP("127.0.0.1", 0)
			if err != nil {
				c.Res.Inconcl("farm: " + err.Error())
				return
			}
			defer fm.Close()
			// extra sockets: several controllers answer one broadcast
			extra := []*net.UDPConn{}
			for k := 0; k < 3; k++ {
				if s, err := net.ListenUDP("udp4", &net.UDPAddr{IP: net.ParseIP("127.0.0.1")}); err == nil {
					extra = append(extra, s)
					defer s.Close()
				}
			}
			var mu sync.Mutex
			var cur []*c11Reply
			var recvT int64
			sent := make(chan struct{}, 1)
			fm.SetScript(func(ep *farm.Endpoint, src net.Addr, req []byte, seq uint64) []farm.Action {
				if len(req) != 64 || req[1] != 0x94 || req[4]|req[5]|req[6]|req[7] != 0 {
					return nil // not a discovery request (the call that holds the fixed bind port in the queued cases): silence
				}
				mu.Lock()
				replies := cur
				recvT = farm.Mono()
				mu.Unlock()
				go func() {
					start := farm.Mono()
					for i, rep := range replies {
						// planned offsets: most early, a few in the grey zone, a few after the deadline
						var at time.Duration
						switch rep.timing {
						case "must":
							at = time.Duration(i) * T / 2 / time.Duration(len(replies)+1)
						case "grey":
							if at = T*7/10 + time.Duration(i)*time.Millisecond; rep.at > 0 {
								at = rep.at
							}
						case "late":
							at = T + 350*time.Millisecond
						}
						if d := at - time.Duration(farm.Mono()-start); d > 0 {
							time.Sleep(d)
						}
						rep.sendOff = time.Duration(farm.Mono() - start)
						sock := extra[i%len(extra)]
						sock.WriteToUDP(rep.data, src.(*net.UDPAddr))
					}
					sent <- struct{}{}
				}()
				return nil
			})
			for i := 0; i < N; i++ {
				caseNo := int64(w*1000 + i)
				names := map[uint32]string{}
				serials := []uint32{}
				cfg := ClientCfg{Bind: workerIP(c, w) + ":0", Broadcast: bc.Addr, Timeout: T, Debug: i%5 == 3} // every fifth client dumps its traffic (debug mode)
				for k := 0; k < r.Pick(3); k++ {
					s := r.Serial()
					serials = append(serials, s)
					names[s] = fmt.Sprintf("ctl-%d", k)
					cfg.Devices = append(cfg.Devices, DevCfg{ID: s, Name: names[s], Addr: fmt.Sprintf("127.0.0.1:%d", 50000+k), Proto: "udp"})
				}
				// every fourth case: a fixed bind port that another call is holding when the discovery starts - the discovery
				// waits its turn and must then collect replies for a full timeout of its own
				queued := i%4 == 1
				nReplies := r.Pick(30)
				if i%6 == 2 {
					nReplies = 70 + r.Pick(130) // a whole site answers at once: far more replies than any internal queue is likely to hold
					c.Res.Count("loopback:discoveries-with-70..200-replies", 1)
				}
				var holder sync.WaitGroup
				if queued {
					if p := freePort(workerIP(c, w)); p != 0 {
						cfg.Bind = fmt.Sprintf("%s:%d", workerIP(c, w), p)
						if nReplies < 8 {
							nReplies = 8 + r.Pick(20)
						}
					} else {
						queued = false
					}
				}
				replies := c11Mix(r, nReplies, serials)
				// timing classes keep the send order: must..., then grey..., then late...
				nLate, nGrey := r.Pick(3), r.Pick(3)
				straddle := i%6 == 4 && !queued
				if straddle {
					// replies are still arriving when the collection ends: a steady stream from 40 ms before to 40 ms after the deadline
					// (what of it is in the result is don't-care; the result must be intact and the call must not fail)
					replies = append(replies, c11Mix(r, 80+r.Pick(170), serials)...)
					nLate, nGrey = 0, len(replies)-r.Pick(6)
					if nGrey < 0 {
						nGrey = len(replies)
					}
					c.Res.Count("loopback:discoveries-with-replies-straddling-the-deadline", 1)
				}
				for k, rep := range replies {
					switch {
					case k >= len(replies)-nLate:
						rep.timing = "late"
					case k >= len(replies)-nLate-nGrey:
						rep.timing = "grey"
						if straddle {
							rep.at = T - 40*time.Millisecond + time.Duration(k-(len(replies)-nGrey))*80*time.Millisecond/time.Duration(nGrey)
						}
					default:
						rep.timing = "must"
					}
				}
				mu.Lock()
				cur = replies
				mu.Unlock()
				u := mkClient(cfg)
				if i%3 == 2 {
					c11EditDeviceList(u, serials)
				}
				if queued {
					holder.Add(1)
					h := mkClient(cfg)
					go func() {
						defer holder.Done()
						h.GetTime(0x7fff0000 + uint32(i)) // not configured: broadcast-to, nobody answers, holds the port for T
					}()
					time.Sleep(T * 4 / 10)
					c.Res.Count("loopback:discoveries-queued-behind-another-call-on-a-fixed-port", 1)
				}
				start := time.Now()
				t0mono := farm.Mono()
				list, err := u.GetDevices()
				elapsed := time.Since(start)
				holder.Wait()
				if queued && err != nil && (strings.Contains(err.Error(), "address already in use") || strings.Contains(err.Error(), "cannot assign requested address")) {
					c.Res.Inconcl("bind collision on a fixed port: " + err.Error())
					continue
				}
				<-sent
				c.Res.Eval(1)
				seq := []string{}
				for _, rep := range replies {
					seq = append(seq, rep.class+"/"+rep.timing)
					// measured: a "must" reply that in fact left later than 0.6T is only grey
					if rep.timing == "must" && rep.sendOff > T*6/10 {
						rep.timing = "grey"
					}
				}
				c.Res.DistinctKey("loopback", strings.Join(seq, ","))
				c.Res.Count("loopback:discoveries", 1)
				c.Res.Count("loopback:replies", int64(len(replies)))
				wv := map[string]any{"layer": "loopback", "classes": seq, "entries": len(list), "elapsed_ms": elapsed.Milliseconds(), "T_ms": T.Milliseconds(), "queued_behind_another_call_on_a_fixed_bind_port": queued}
				if err != nil {
					c.Res.Violate("C11:noise-fails-call", "GetDevices failed because of the replies it received: "+err.Error(), wv, caseNo)
					continue
				}
				_, portStr, _ := net.SplitHostPort(bc.Addr)
				var port uint16
				fmt.Sscan(portStr, &port)
				if msg, class := c11Compare(list, replies, port, names); msg != "" {
					if st := c09Stalls.during(t0mono, farm.Mono()); st > 25*time.Millisecond && strings.Contains(msg, "missing") {
						// a reply that was in the socket buffer when the collection window closed on a stalled host: not judged
						c.Res.Inconcl(fmt.Sprintf("a reply is missing but the host stalled the process for %v during the discovery", st))
					} else {
						c.Res.Violate("C11:loopback:"+class, "GetDevices: "+msg, wv, caseNo)
					}
				}
				if elapsed < T*93/100 || elapsed > T+1500*time.Millisecond+map[bool]time.Duration{true: T * time.Duration(2*workers+1), false: 0}[queued] { // the bind port guard is process wide: the queued cases of all workers wait for each other
					c.Res.Violate("C11:loopback:duration", fmt.Sprintf("GetDevices collected replies for %v, the timeout is %v", elapsed, T), wv, caseNo)
				}
				_ = recvT
				if i == 0 && w == 0 {
					c.Res.Sample(map[string]any{"layer": "loopback", "classes": seq, "entries": len(list)})
				}
			}
		}(w)
	}
	wg.Wait()
}

// c11EditDeviceList: the application takes the controller list (DeviceList) and edits what it was given - deletes entries, renames
// them, adds one for a controller that is not configured. The names a later discovery reports are those of the configuration the
// client was built with.
func c11EditDeviceList(u uhppote.IUHPPOTE, serials []uint32) {
	defer func() { recover() }()
	list := u.DeviceList()
	k := 0
	for id, dev := range list {
		if k++; k%2 == 0 {
			delete(list, id)
		} else {
			dev.Name = "renamed-by-the-application"
			list[id] = dev
		}
	}
	for _, s := range serials {
		if _, ok := list[s]; !ok {
			list[s] = uhppote.Device{Name: "added-by-the-application", DeviceID: s}
		}
	}
	list[0x0badf00d] = uhppote.Device{Name: "added-by-the-application", DeviceID: 0x0badf00d}
}
