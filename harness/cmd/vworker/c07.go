package main

import (
	"fmt"
	"net"
	"net/netip"
	"time"

	"github.com/uhppoted/uhppote-core/types"
	"github.com/uhppoted/uhppote-core/uhppote"

	"verif/harness/adapter"
	rm "verif/harness/refmodel"
	"verif/harness/wk"
)

func init() { registry["C07"] = c07 }

func refWiegand26(card uint32) bool {
	if card > 99999999 {
		return false
	}
	return card/100000 <= 255 && card%100000 <= 65535
}

// refCardAccepted: the documented PutCard validation.
func refCardAccepted(card uint32, pin uint32, formats []uint8) bool {
	if card == 0 || card == 0xffffffff || card == 0x00ffffff {
		return false
	}
	if pin > 999999 {
		return false
	}
	if len(formats) == 0 {
		return true
	}
	for _, f := range formats {
		switch f {
		case 0: // any
			return true
		case 1:
			if refWiegand26(card) {
				return true
			}
		}
	}
	return false
}

func c07(c *Ctx) {
	c.Res.Rule = "calls with arguments on both sides of every documented validation rule are made through the in-memory driver; a call the rule rejects must return an error and reach the driver zero times, a call the rule accepts must reach it exactly once and not fail (the scripted reply is valid); distinct = distinct (operation, argument class/value) cases"
	r := c.Rng("main")
	u, d := mkMemClient(ClientCfg{Bind: "0.0.0.0:0", Broadcast: "192.168.1.255:60000"})
	var caseNo int64
	var cur rm.Vals // arguments of the call being judged (for building an acceptable reply)

	// judge runs call() and compares acceptance with the rule.
	judge := func(op *rm.Op, serial uint32, key string, shouldAccept bool, desc string, wantReq []byte, call func() error) {
		caseNo++
		d.Reset()
		reply := okReply(op, serial)
		reply[8] = 1
		if cur != nil {
			reply = validReply(r, op, serial, cur)
		}
		d.Script = func(adapter.Invocation) ([][]byte, error) { return [][]byte{reply}, nil }
		var err error
		panicked := false
		func() {
			defer func() {
				if p := recover(); p != nil {
					panicked = true
					err = fmt.Errorf("panic: %v", p)
				}
			}()
			err = call()
		}()
		inv := d.Invocations()
		c.Res.Eval(1)
		c.Res.DistinctKey(op.Name, desc)
		if shouldAccept {
			c.Res.Count("accepted-expected", 1)
		} else {
			c.Res.Count("rejected-expected", 1)
		}
		w := map[string]any{"op": op.Name, "serial": serial, "case": desc, "err": fmt.Sprint(err), "requests": len(inv)}
		switch {
		case panicked:
			c.Res.Violate("C07:"+op.Name+":panic", fmt.Sprintf("%s(%s) panicked: %v", op.Name, desc, err), w, caseNo)
		case !shouldAccept && len(inv) > 0:
			c.Res.Violate("C07:"+op.Name+":"+key+":sent", fmt.Sprintf("%s(%s) must be rejected but %d request(s) reached the network (err=%v)", op.Name, desc, len(inv), err), w, caseNo)
		case !shouldAccept && err == nil:
			c.Res.Violate("C07:"+op.Name+":"+key+":accepted", fmt.Sprintf("%s(%s) must be rejected but returned no error", op.Name, desc), w, caseNo)
		case shouldAccept && (err != nil || len(inv) != 1):
			c.Res.Violate("C07:"+op.Name+":"+key+":spurious-rejection", fmt.Sprintf("%s(%s) is valid but was rejected or not sent exactly once (err=%v, requests=%d)", op.Name, desc, err, len(inv)), w, caseNo)
		case shouldAccept && wantReq != nil && string(inv[0].Request) != string(wantReq):
			w["expected"], w["got"] = wk.Hex(wantReq), wk.Hex(inv[0].Request)
			c.Res.Violate("C07:"+op.Name+":"+key+":request", fmt.Sprintf("%s(%s): request differs from the documented encoding", op.Name, desc), w, caseNo)
		}
		if caseNo%30011 == 0 {
			c.Res.Sample(map[string]any{"op": op.Name, "case": desc, "accepted": err == nil, "requests": len(inv)})
		}
	}

	// ---- (a) controller id 0 is rejected by every operation that takes one; any other id is accepted
	for round := 0; round < c.N(20, 300); round++ {
		for _, op := range reqOps() {
			a, p := r.Args(op)
			aux := toAux(p)
			fixArgs(op, a, aux)
			judge(op, 0, "id0", false, "controller id 0 "+a.String(), nil, func() error {
				out := adapter.Call(u, op.Name, 0, a, aux)
				if out.Err != "" {
					return fmt.Errorf("%s", out.Err)
				}
				return nil
			})
			// ... also when the configuration (a garbled file, say) lists a controller with id 0 and a perfectly good address
			{
				u0, d0 := mkMemClient(ClientCfg{Bind: "0.0.0.0:0", Broadcast: "192.168.1.255:60000", Devices: []DevCfg{
					{ID: 0, Name: "zero", Addr: "192.168.1.100:60000", Proto: []string{"udp", "tcp", ""}[r.Pick(3)], NewDevice: r.Chance(0.5)}, {ID: r.Serial(), Addr: "192.168.1.101:60000"}}})
				uSaved, dSaved := u, d
				u, d = u0, d0
				judge(op, 0, "id0-configured", false, "controller id 0 (a controller with id 0 is configured) "+a.String(), nil, func() error {
					out := adapter.Call(u0, op.Name, 0, a, aux)
					if out.Err != "" {
						return fmt.Errorf("%s", out.Err)
					}
					return nil
				})
				u, d = uSaved, dSaved
			}
			serial := r.Serial()
			cur = a
			if round%4 == 1 {
				// the controller did not answer the previous call (a time-out): that is no reason to reject this one
				d.Reset()
				d.Script = func(adapter.Invocation) ([][]byte, error) { return nil, adapter.ErrTimeout }
				adapter.Call(u, op.Name, serial, a, aux)
				if gt := rm.FindOp("GetTime"); gt != nil {
					adapter.Call(u, "GetTime", serial, rm.Vals{}, adapter.Aux{})
				}
			}
			judge(op, serial, "valid", true, fmt.Sprintf("valid call %v", a), op.Request(serial, a), func() error {
				out := adapter.Call(u, op.Name, serial, a, aux)
				if out.Err != "" {
					return fmt.Errorf("%s", out.Err)
				}
				return nil
			})
			// ... and for a controller that is configured - with whatever protocol string its entry carries, whatever door names,
			// built either way: how a controller is configured is no reason to reject a call
			if round%3 == 0 {
				sc := r.Serial()
				proto := []string{"any", "xyz", "", "UDP", "tcp", "udp", "TCP", "Any"}[r.Pick(8)]
				uc, dc := mkMemClient(ClientCfg{Bind: "0.0.0.0:0", Broadcast: "192.168.1.255:60000", Devices: []DevCfg{
					{ID: sc, Name: "configured", Addr: []string{"192.168.1.100:60000", "10.0.0.7:54321", "0.0.0.0:60000", "192.168.1.100:0"}[r.Pick(4)], Proto: proto, NewDevice: r.Chance(0.5), Doors: [][]string{nil, {}, {"a", "", "c", ""}, {"a", "b", "c", "d"}}[r.Pick(4)]}}})
				uSaved, dSaved := u, d
				u, d = uc, dc
				judge(op, sc, "valid-configured", true, fmt.Sprintf("valid call to a configured controller (protocol %q) %v", proto, a), op.Request(sc, a), func() error {
					out := adapter.Call(uc, op.Name, sc, a, aux)
					if out.Err != "" {
						return fmt.Errorf("%s", out.Err)
					}
					return nil
				})
				u, d = uSaved, dSaved
			}
		}
	}

	cur = nil
	// ---- (b) PutCard
	put := rm.FindOp("PutCard")
	formatLists := [][]uint8{nil, {0}, {1}, {1, 0}, {0, 1}, {2}, {2, 1}, {1, 2}, {255}, {1, 1}, {7, 9}}
	tryCard := func(card uint32, pin uint32, formats []uint8, tag string) {
		a, p := r.Args(put)
		a["CardNumber"], a["PIN"] = rm.UVal(rm.U32, uint64(card)), rm.UVal(rm.PIN, uint64(pin))
		p.Formats = formats
		aux := toAux(p)
		serial := r.Serial()
		accept := refCardAccepted(card, pin, formats)
		var want []byte
		if accept {
			want = put.Request(serial, a)
		}
		key := "card"
		switch {
		case card == 0 || card == 0xffffffff || card == 0x00ffffff:
			key = "reserved-card"
		case pin > 999999:
			key = "pin"
		case len(formats) > 0 && card > 99999999:
			key = "wiegand26-9-digits"
		case len(formats) > 0:
			key = "format"
		}
		judge(put, serial, key, accept, fmt.Sprintf("%s card=%d pin=%d formats=%v", tag, card, pin, formats), want, func() error {
			_, err := u.PutCard(serial, adapter.BuildCard(a, aux), toFormats(formats)...)
			return err
		})
	}
	cards := []uint32{0, 1, 2, 0x00fffffe, 0x00ffffff, 0x01000000, 0xfffffffe, 0xffffffff,
		65535, 65536, 99999, 100000, 165535, 165536, 25565535, 25565536, 25599999, 25600000, 25665535, 25465535, 25500000,
		99999999, 100000000, 100000001, 100065535, 255065535, 1000000000, 1025565535, 4294967295, 4294967294, 6553565535 & 0xffffffff,
		8165535, 10058400, 12345678, 123456789, 6500001, 65535 + 100000*255, 65536 + 100000*255, 65535 + 100000*256}
	pins := []uint32{0, 1, 999999, 1000000, 1000001, 0xffffffff, 7531, 16777215, 16777216}
	for _, card := range cards {
		for _, fl := range formatLists {
			for _, pin := range pins {
				tryCard(card, pin, fl, "boundary")
			}
		}
	}
	// ---- (b') the application keeps one list of formats and passes it to every call; cards that match none of them are rejected - the
	// first time and every time after (and the list is still what it was)
	for _, list := range [][]types.CardFormat{{types.Wiegand26, types.Wiegand26}, {types.Wiegand26}, {types.Wiegand26, types.Wiegand26, types.Wiegand26}, {1, 1, 1, 1}} {
		orig := fmt.Sprint(list)
		for k := 0; k < 4; k++ {
			cardNo := []uint32{25600001, 99999999, 4294967294, 6553600000 & 0xffffffff}[k]
			if refCardAccepted(cardNo, 0, []uint8{1}) {
				continue
			}
			serial := r.Serial()
			card := types.Card{CardNumber: cardNo, From: types.ToDate(2024, 1, 1), To: types.ToDate(2024, 12, 31), Doors: map[uint8]uint8{1: 1, 2: 0, 3: 0, 4: 0}}
			judge(put, serial, "format-list-reused", false, fmt.Sprintf("card %d with the application's format list %s, call %d with that list", cardNo, orig, k+1), nil, func() error {
				_, err := u.PutCard(serial, card, list...)
				return err
			})
			if now := fmt.Sprint(list); now != orig {
				c.Res.Violate("C07:PutCard:format-list-modified", fmt.Sprintf("PutCard changed the caller's list of card formats from %s to %s", orig, now), nil, caseNo)
				break
			}
		}
	}

	N := c.N(60000, 600000)
	for i := 0; i < N; i++ {
		card := r.U32()
		switch r.Pick(4) {
		case 0: // around the Wiegand-26 limits
			f, n := uint32(r.Pick(300)), uint32(r.Pick(70000))
			card = f*100000 + n
		case 1:
			card = uint32(99990000 + r.Pick(20000))
		}
		pin := r.PIN()
		if r.Chance(0.1) {
			pin = 999990 + uint32(r.Pick(20))
		}
		tryCard(card, pin, formatLists[r.Pick(len(formatLists))], "random")
	}
	if c.Thorough() {
		// all 2^32 card numbers against [Wiegand-26], partitioned over batches (direct call, reference judged)
		var accepted, rejected int64
		d.Script = func(adapter.Invocation) ([][]byte, error) { return nil, nil }
		lo := uint64(c.Batch) * (1 << 32) / uint64(c.NBatch)
		hi := uint64(c.Batch+1) * (1 << 32) / uint64(c.NBatch)
		card := types.Card{From: types.ToDate(2024, 1, 1), To: types.ToDate(2024, 12, 31), Doors: map[uint8]uint8{1: 1}}
		for v := lo; v < hi; v++ {
			card.CardNumber = uint32(v)
			d.Log = d.Log[:0]
			d.Handed = d.Handed[:0]
			_, err := u.PutCard(405419896, card, types.Wiegand26)
			sent := len(d.Log)
			want := refCardAccepted(uint32(v), 0, []uint8{1})
			// a valid call fails only with the scripted time-out, after exactly one request
			isAccepted := sent == 1
			if want != isAccepted || (!want && err == nil) {
				caseNo++
				key := "format"
				if v > 99999999 {
					key = "wiegand26-9-digits"
				}
				c.Res.Violate("C07:PutCard:"+key+":sweep", fmt.Sprintf("PutCard card=%d formats=[Wiegand-26]: requests sent=%d err=%v, rule says accepted=%v", v, sent, err, want), map[string]any{"card": v}, caseNo)
			}
			if want {
				accepted++
			} else {
				rejected++
			}
		}
		c.Res.Eval(int64(hi - lo))
		c.Res.Count("sweep:all-2^32-cards-vs-wiegand26(partitioned):accepted", accepted)
		c.Res.Count("sweep:all-2^32-cards-vs-wiegand26(partitioned):rejected", rejected)
	}

	// ---- (c) SetListener
	setl := rm.FindOp("SetListener")
	aps := []netip.AddrPort{
		{}, netip.MustParseAddrPort("0.0.0.0:0"), netip.MustParseAddrPort("0.0.0.0:60001"), netip.MustParseAddrPort("192.168.1.100:60001"),
		netip.MustParseAddrPort("192.168.1.100:0"), netip.MustParseAddrPort("255.255.255.255:1"), netip.MustParseAddrPort("[::1]:60001"),
		netip.MustParseAddrPort("[::]:0"), netip.MustParseAddrPort("[::ffff:192.168.1.100]:60001"), netip.MustParseAddrPort("[::ffff:0.0.0.0]:0"),
		netip.MustParseAddrPort("[fe80::1%eth0]:60001"), netip.MustParseAddrPort("[2001:db8::1]:80"), netip.MustParseAddrPort("127.0.0.1:65535"),
		netip.AddrPortFrom(netip.Addr{}, 60001), netip.MustParseAddrPort("[::ffff:10.0.0.1]:0"),
	}
	refListener := func(ap netip.AddrPort) bool {
		if !ap.Addr().IsValid() {
			return false
		}
		b := ap.Addr().AsSlice()
		if len(b) != 4 { // anything but a 4 byte IPv4 address (IPv6, IPv4-mapped IPv6, zoned) is rejected
			return false
		}
		if b[0] == 0 && b[1] == 0 && b[2] == 0 && b[3] == 0 && ap.Port() == 0 {
			return true
		}
		return ap.Port() != 0
	}
	// the rule does not depend on what the client itself listens on: clients without a listen address, with an explicit one, and
	// with the wildcard address take turns
	type lclient struct {
		u uhppote.IUHPPOTE
		d *adapter.MemDriver
	}
	lclients := []lclient{{u, d}}
	for _, l := range []string{"192.168.1.100:60001", "0.0.0.0:60001", "127.0.0.1:60001"} {
		ul, dl := mkMemClient(ClientCfg{Bind: "0.0.0.0:0", Broadcast: "192.168.1.255:60000", Listen: l})
		lclients = append(lclients, lclient{ul, dl})
	}
	tryListener := func(ap netip.AddrPort, interval uint8) {
		lc := lclients[int(caseNo)%len(lclients)]
		u := lc.u
		saved := d
		d = lc.d
		defer func() { d = saved }()
		serial := r.Serial()
		accept := refListener(ap)
		var want []byte
		if accept {
			b := ap.Addr().As4()
			want = setl.Request(serial, rm.Vals{"AddrPort": rm.Val{K: rm.AddrPort, B: b[:], U: uint64(ap.Port())}, "Interval": rm.UVal(rm.U8, uint64(interval))})
		}
		judge(setl, serial, "address", accept, fmt.Sprintf("listener=%v interval=%d", ap, interval), want, func() error {
			_, err := u.SetListener(serial, ap, interval)
			return err
		})
	}
	for _, ap := range aps {
		tryListener(ap, r.U8())
	}
	for i := 0; i < c.N(20000, 200000); i++ {
		var ap netip.AddrPort
		port := r.Port()
		if r.Chance(0.25) {
			port = 0
		}
		switch r.Pick(6) {
		case 0:
			var b [16]byte
			for k := range b {
				b[k] = byte(r.Pick(256))
			}
			ap = netip.AddrPortFrom(netip.AddrFrom16(b), port)
		case 1:
			v := r.IP()
			ap = netip.AddrPortFrom(netip.AddrFrom16([16]byte{0, 0, 0, 0, 0, 0, 0, 0, 0, 0, 0xff, 0xff, v.B[0], v.B[1], v.B[2], v.B[3]}), port)
		case 2:
			ap = netip.AddrPortFrom(netip.AddrFrom4([4]byte{0, 0, 0, 0}), port)
		default:
			v := r.IP()
			ap = netip.AddrPortFrom(netip.AddrFrom4([4]byte{v.B[0], v.B[1], v.B[2], v.B[3]}), port)
		}
		tryListener(ap, r.U8())
	}

	// ---- (d) SetAddress
	seta := rm.FindOp("SetAddress")
	mkIP := func(class int) (net.IP, bool, [4]byte) {
		v := r.IP()
		b4 := [4]byte{v.B[0], v.B[1], v.B[2], v.B[3]}
		switch class {
		case 0:
			return net.IP{b4[0], b4[1], b4[2], b4[3]}, true, b4
		case 1:
			return net.IPv4(b4[0], b4[1], b4[2], b4[3]), true, b4
		case 2:
			return nil, false, b4
		case 3:
			return net.IP{}, false, b4
		case 4:
			return net.IP{1, 2, 3}, false, b4
		case 5:
			return net.IP{1, 2, 3, 4, 5}, false, b4
		case 6:
			return net.ParseIP("2001:db8::1"), false, b4
		case 7:
			return net.ParseIP("::1"), false, b4
		case 8:
			ip := make(net.IP, 16)
			copy(ip[12:], b4[:])
			return ip, false, b4 // IPv4-compatible (not mapped) form
		case 9:
			// round 10: a genuine IPv6 address that merely looks IPv4-mapped in its bytes 10..15 (seeded C07-W)
			ip := make(net.IP, 16)
			copy(ip[12:], b4[:])
			ip[10], ip[11] = 0xff, 0xff
			ip[int(b4[0])%10] = 1 + b4[1]%255
			return ip, false, b4
		case 10:
			// any 16 bytes that are not the IPv4-mapped form
			w := r.IP()
			ip := net.IP{w.B[0], w.B[1], w.B[2], w.B[3], b4[3], b4[2], b4[1], b4[0], w.B[3], w.B[0] | 1, b4[0], b4[1], b4[0], b4[1], b4[2], b4[3]}
			return ip, ip.To4() != nil, b4
		}
		return net.IP{b4[0], b4[1], b4[2], b4[3]}, true, b4
	}
	for i := 0; i < c.N(5000, 60000); i++ {
		cls := [3]int{r.Pick(2), r.Pick(2), r.Pick(2)}
		if r.Chance(0.6) {
			cls[r.Pick(3)] = r.Pick(11)
		}
		if r.Chance(0.1) {
			cls = [3]int{r.Pick(11), r.Pick(11), r.Pick(11)}
		}
		var ips [3]net.IP
		var oks [3]bool
		var b4s [3][4]byte
		accept := true
		for k := 0; k < 3; k++ {
			ips[k], oks[k], b4s[k] = mkIP(cls[k])
			accept = accept && oks[k]
		}
		serial := r.Serial()
		var want []byte
		if accept {
			want = seta.Request(serial, rm.Vals{"Address": rm.IPVal(b4s[0][0], b4s[0][1], b4s[0][2], b4s[0][3]), "Mask": rm.IPVal(b4s[1][0], b4s[1][1], b4s[1][2], b4s[1][3]), "Gateway": rm.IPVal(b4s[2][0], b4s[2][1], b4s[2][2], b4s[2][3])})
		}
		judge(seta, serial, "address", accept, fmt.Sprintf("address classes %v: %v %v %v", cls, ips[0], ips[1], ips[2]), want, func() error {
			_, err := u.SetAddress(serial, ips[0], ips[1], ips[2])
			return err
		})
	}

	// ---- (e) SetDoorPasscodes
	setp := rm.FindOp("SetDoorPasscodes")
	for door := 0; door < 256; door++ {
		for k := 0; k < c.N(8, 60); k++ {
			a, p := r.Args(setp)
			a["Door"] = rm.UVal(rm.U8, uint64(door))
			serial := r.Serial()
			accept := door >= 1 && door <= 4
			var want []byte
			if accept {
				want = setp.Request(serial, a)
			}
			judge(setp, serial, "door", accept, fmt.Sprintf("door=%d passcodes=%v", door, p.Passcodes), want, func() error {
				_, err := u.SetDoorPasscodes(serial, uint8(door), p.Passcodes...)
				return err
			})
		}
	}

	// ... the same on a client on which the controller is configured - with a list of two, five, no door names: the rule is about the
	// door number 1..4, not about what the configuration calls the doors
	{
		names := [][]string{nil, {}, {"Front"}, {"Front", "Back"}, {"A", "B", "C"}, {"A", "B", "C", "D"}, {"A", "B", "C", "D", "E"}, {"1", "2", "3", "4", "5", "6", "7"}}
		devs := []DevCfg{}
		for i, nn := range names {
			devs = append(devs, DevCfg{ID: 0x0d000000 + uint32(i), Name: fmt.Sprintf("c%d", i), Addr: fmt.Sprintf("192.168.1.%d:60000", 100+i), Proto: []string{"udp", "tcp", ""}[i%3], NewDevice: i%2 == 0, Doors: nn, TZ: "Asia/Kolkata"})
		}
		uc, dc := mkMemClient(ClientCfg{Bind: "0.0.0.0:0", Broadcast: "192.168.1.255:60000", Devices: devs})
		uSaved, dSaved := u, d
		u, d = uc, dc
		for _, dev := range devs {
			for door := 0; door <= 9; door++ {
				a, p := r.Args(setp)
				a["Door"] = rm.UVal(rm.U8, uint64(door))
				accept := door >= 1 && door <= 4
				var want []byte
				if accept {
					want = setp.Request(dev.ID, a)
				}
				judge(setp, dev.ID, "door", accept, fmt.Sprintf("door=%d passcodes=%v (controller configured with %d door names)", door, p.Passcodes, len(dev.Doors)), want, func() error {
					_, err := uc.SetDoorPasscodes(dev.ID, uint8(door), p.Passcodes...)
					return err
				})
			}
		}
		u, d = uSaved, dSaved
	}

	// ---- (f) SetTimeProfile
	stp := rm.FindOp("SetTimeProfile")
	for i := 0; i < c.N(20000, 200000); i++ {
		a, p := r.Args(stp)
		p.ExtraKeys = false
		aux := toAux(p)
		accept := true
		desc := "valid"
		missing := 0
		switch r.Pick(8) {
		case 0:
			a["From"] = rm.ZeroDate()
			accept, desc = false, "zero from"
		case 1:
			a["To"] = rm.ZeroDate()
			accept, desc = false, "zero to"
		case 2:
			missing = 1 + r.Pick(3)
			accept, desc = false, fmt.Sprintf("segment %d missing", missing)
		case 3:
			missing = 4
			accept, desc = false, "nil segments"
		case 4, 5:
			seg := fmt.Sprintf("Segment%d", 1+r.Pick(3))
			s, e := a[seg+"Start"], a[seg+"End"]
			if s.H != e.H || s.Mi != e.Mi {
				a[seg+"Start"], a[seg+"End"] = e, s // end before start
				accept, desc = false, seg+" ends before it starts"
			}
		}
		serial := r.Serial()
		profile := adapter.BuildProfile(a, aux)
		// a missing date is missing in whatever location its zero time.Time happens to carry
		if loc := []*time.Location{nil, time.FixedZone("W", -5*3600), time.FixedZone("E", 9*3600), time.Local}[r.Pick(4)]; loc != nil {
			if desc == "zero from" {
				profile.From = types.Date(time.Time{}.In(loc))
				desc += " (zero time in " + loc.String() + ")"
			} else if desc == "zero to" {
				profile.To = types.Date(time.Time{}.In(loc))
				desc += " (zero time in " + loc.String() + ")"
			}
		}
		switch missing {
		case 1, 2, 3:
			delete(profile.Segments, uint8(missing))
			if r.Chance(0.5) && profile.Segments != nil {
				// ... and an entry under a key that is no segment number takes its place in the map: still missing
				profile.Segments[[]uint8{0, 4, 5, 7, 255}[r.Pick(5)]] = types.Segment{Start: types.NewHHmm(8, 0), End: types.NewHHmm(9, 0)}
				desc += " (an entry under another key present)"
			}
		case 4:
			profile.Segments = nil
		}
		if accept && r.Chance(0.2) && profile.Segments != nil {
			// an irrelevant entry under a key that is no segment number - even a back-to-front one - changes nothing
			profile.Segments[[]uint8{0, 4, 9}[r.Pick(3)]] = types.Segment{Start: types.NewHHmm(18, 0), End: types.NewHHmm(7, 30)}
			desc += " + irrelevant entry under a key outside 1..3"
		}
		var want []byte
		if accept {
			want = stp.Request(serial, a)
		}
		key := "profile"
		if !accept {
			key = desc[:4]
		}
		judge(stp, serial, key, accept, desc+" "+a.String(), want, func() error {
			_, err := u.SetTimeProfile(serial, profile)
			return err
		})
	}
}

func toFormats(f []uint8) []types.CardFormat {
	out := []types.CardFormat{}
	for _, x := range f {
		out = append(out, types.CardFormat(x))
	}
	return out
}
