package main

import (
	"encoding/json"
	"fmt"
	"github.com/uhppoted/uhppote-core/uhppote"
	"net"
	"net/netip"
	"os"
	"strings"
	"sync"
	"sync/atomic"
	"time"

	"github.com/uhppoted/uhppote-core/types"

	"verif/harness/adapter"
	"verif/harness/farm"
	rm "verif/harness/refmodel"
	"verif/harness/wk"
)

// c04Loopback: the real transport (ut0311 over loopback sockets) under every network behaviour the farm can produce,
// for every operation, and the real event listener shut down while its callback is busy. The hooked layer cannot
// reach the code between the socket and the driver interface (error values of Read/Dial, buffers, the listener's
// read loop and its shutdown handshake).
func c04Loopback(c *Ctx) {
	c.Res.Rule = "loopback layer: every operation x path {udp, tcp, broadcast} x network behaviour {valid reply, arbitrary bytes of length 0..300, truncated valid reply, two datagrams, silence, TCP peer that reads the request and closes / resets / stalls, TCP peer that closes or resets at once, refused TCP connection, closed UDP port, reply followed by close} through the real driver; real listener cycles stopped while the event callback is busy with further events in flight; a Go panic (recovered in the caller, or killing the worker with a trace through the library) is the violation; distinct = distinct (operation, path, behaviour)"
	T := 40 * time.Millisecond
	r := c.Rng("loopback")
	fm := farm.New()
	fm.KeepLog = false
	defer fm.Close()
	type plan struct {
		kind   string
		reply  []byte
		second []byte
		cuts   []int
	}
	var cur atomic.Pointer[plan]
	fm.SetScript(func(ep *farm.Endpoint, src net.Addr, req []byte, seq uint64) []farm.Action {
		p := cur.Load()
		if p == nil {
			return nil
		}
		switch p.kind {
		case "silence":
			return nil
		case "tcp-read-close":
			return []farm.Action{{Close: true}}
		case "tcp-read-reset":
			return []farm.Action{{Reset: true}}
		case "tcp-stall":
			return []farm.Action{{Stall: true}}
		case "reply-then-close":
			return []farm.Action{{Data: p.reply}, {Close: true}}
		case "two":
			return []farm.Action{{Data: p.reply}, {Data: p.second}}
		case "pieces":
			// the reply arrives in two or three writes with pauses in between (TCP is a byte stream); in total 64 bytes or more
			out := []farm.Action{}
			rest := append(append([]byte{}, p.reply...), p.second...)
			for i, n := range p.cuts {
				if n > len(rest) {
					n = len(rest)
				}
				d := time.Duration(0)
				if i > 0 {
					d = 8 * time.Millisecond
				}
				out = append(out, farm.Action{Delay: d, Data: rest[:n]})
				rest = rest[n:]
			}
			return out
		}
		return []farm.Action{{Data: p.reply}}
	})
	udp, err1 := fm.AddUDP("127.0.0.1", 0)
	tcp, err2 := fm.AddTCP("127.0.0.1", 0)
	bc, err3 := fm.AddUDP("127.0.0.1", 0)
	if err1 != nil || err2 != nil || err3 != nil {
		c.Res.Inconcl("cannot build farm")
		return
	}
	// a TCP peer that closes (or resets) every connection as soon as it is accepted, without reading
	rude := func(reset bool) (*net.TCPListener, string) {
		l, err := net.ListenTCP("tcp4", &net.TCPAddr{IP: net.IPv4(127, 0, 0, 1)})
		if err != nil {
			return nil, ""
		}
		go func() {
			for {
				cn, err := l.AcceptTCP()
				if err != nil {
					return
				}
				if reset {
					cn.SetLinger(0)
				}
				cn.Close()
			}
		}()
		return l, l.Addr().String()
	}
	lc, closeAddr := rude(false)
	lr, resetAddr := rude(true)
	if lc == nil || lr == nil {
		c.Res.Inconcl("cannot build farm")
		return
	}
	defer lc.Close()
	defer lr.Close()
	closedPort := unlistenedPort("127.0.0.1")

	kinds := map[string][]string{
		"udp":       {"valid", "random", "truncated", "two", "silence", "udp-closed-port", "empty"},
		"broadcast": {"valid", "random", "truncated", "two", "silence", "empty"},
		"tcp":       {"valid", "random", "truncated", "two", "tcp-read-close", "tcp-read-reset", "tcp-stall", "tcp-accept-close", "tcp-accept-reset", "tcp-refused", "reply-then-close", "pieces"},
	}
	ops := reqOps()
	N := c.N(900, 30000)
	var caseNo int64
	adapter.ResultHook = func(op string, v any) { c04Render(c, op, v, caseNo, nil) }
	defer func() { adapter.ResultHook = nil }()
	for i := 0; i < N; i++ {
		caseNo++
		op := ops[r.Pick(len(ops))]
		path := []string{"udp", "tcp", "broadcast"}[r.Pick(3)]
		ks := kinds[path]
		kind := ks[r.Pick(len(ks))]
		if i < len(ops)*len(kinds["tcp"]) { // every operation meets every TCP behaviour at least once
			op = ops[i%len(ops)]
			path = "tcp"
			kind = kinds["tcp"][(i/len(ops))%len(kinds["tcp"])]
		}
		serial := uint32(0x64000000) + uint32(c.Batch)<<20 + uint32(i) + 1
		a, p := r.Args(op)
		aux := toAux(p)
		fixArgs(op, a, aux)
		pl := &plan{kind: kind}
		valid := validReply(r, op, serial, a)
		switch kind {
		case "valid", "reply-then-close":
			pl.reply = valid
		case "random":
			pl.reply = randomBytes(r, r.Pick(301))
			if r.Chance(0.5) && len(pl.reply) >= 8 {
				pl.reply[0], pl.reply[1] = 0x17, op.Fn
				pl.reply[4], pl.reply[5], pl.reply[6], pl.reply[7] = byte(serial), byte(serial>>8), byte(serial>>16), byte(serial>>24)
			}
		case "truncated":
			if valid != nil {
				pl.reply = valid[:r.Pick(64)]
			} else {
				pl.reply = []byte{0x17}
			}
		case "two":
			pl.reply, pl.second = randomBytes(r, r.Pick(80)), valid
		case "empty":
			pl.reply = []byte{}
		case "pieces":
			pl.reply = valid
			if pl.reply == nil {
				pl.reply = randomBytes(r, 64)
			}
			pl.second = randomBytes(r, []int{0, 0, 16, 40}[r.Pick(4)]) // sometimes more than 64 bytes in all
			pl.cuts = [][]int{{40, 40, 64}, {32, 32, 64}, {1, 63, 64}, {63, 1, 64}, {20, 20, 64}, {40, 64, 64}}[r.Pick(6)]
		}
		cur.Store(pl)
		cfg := ClientCfg{Bind: workerIP(c, 0) + ":0", Broadcast: bc.Addr, Timeout: T, Debug: serial%3 == 0} // every third client dumps whatever arrives (debug mode)
		switch {
		case kind == "udp-closed-port":
			cfg.Devices = []DevCfg{{ID: serial, Addr: fmt.Sprintf("127.0.0.1:%d", closedPort), Proto: "udp"}}
		case kind == "tcp-refused":
			cfg.Devices = []DevCfg{{ID: serial, Addr: fmt.Sprintf("127.0.0.1:%d", closedPort), Proto: "tcp"}}
		case kind == "tcp-accept-close":
			cfg.Devices = []DevCfg{{ID: serial, Addr: closeAddr, Proto: "tcp"}}
		case kind == "tcp-accept-reset":
			cfg.Devices = []DevCfg{{ID: serial, Addr: resetAddr, Proto: "tcp"}}
		case path == "udp":
			cfg.Devices = []DevCfg{{ID: serial, Addr: udp.Addr, Proto: "udp"}}
		case path == "tcp":
			cfg.Devices = []DevCfg{{ID: serial, Addr: tcp.Addr, Proto: "tcp"}}
		}
		u := mkClient(cfg)
		c.Res.Eval(1)
		c.Res.DistinctKey("loopback", op.Name, path, kind)
		c.Res.Count("loopback:"+path+":"+kind, 1)
		out, panicked := adapter.SafeCall(u, op.Name, serial, a, aux)
		if panicked {
			c.Res.Violate("C04:loopback:"+path+":"+kind, fmt.Sprintf("%s over %s panicked when the network did this: %s: %s", op.Name, path, kind, out.Err),
				map[string]any{"op": op.Name, "path": path, "behaviour": kind, "reply": wk.Hex(pl.reply), "panic": out.Err}, caseNo)
		}
		if kind == "two" || kind == "tcp-stall" {
			fm.WaitIdle(time.Second)
		}
	}
	fm.WaitIdle(2 * time.Second)

	// ---- Listen on a client whose listen address is the zero value / has no port / is not an address of this host: an error, not a panic
	for i, la := range []types.ListenAddr{{}, {AddrPort: netip.AddrPortFrom(netip.Addr{}, 60001)}, {AddrPort: netip.MustParseAddrPort("127.0.0.3:0")}, {AddrPort: netip.MustParseAddrPort("203.0.113.9:60001")}} {
		u := uhppote.NewUHPPOTE(types.BindAddr{AddrPort: netip.MustParseAddrPort(workerIP(c, 0) + ":0")}, types.BroadcastAddr{}, la, time.Second, nil, false)
		q := make(chan os.Signal, 1)
		done := make(chan error, 1)
		c.Res.Eval(1)
		c.Res.DistinctKey("listen-bad-address", i)
		go func() {
			defer func() {
				if p := recover(); p != nil {
					c.Res.Violate("C04:loopback:listen:bad-address", fmt.Sprintf("Listen panicked on a client whose listen address is %v: %v", la, p), map[string]any{"listen": fmt.Sprint(la)}, int64(i))
					done <- nil
				}
			}()
			done <- u.Listen(&c04Listener{connected: new(atomic.Int64), on: func(*types.Status) {}}, q)
		}()
		select {
		case <-done:
		case <-time.After(500 * time.Millisecond):
			q <- os.Interrupt
			select {
			case <-done:
			case <-time.After(5 * time.Second):
			}
		}
		c.Res.Count("loopback:listen-with-unusable-address", 1)
	}

	// ---- the real listener, stopped while its callback is busy
	cycles := c.N(12, 120)
	for i := 0; i < cycles; i++ {
		port := freePort("127.0.0.3")
		if port == 0 {
			continue
		}
		addr := fmt.Sprintf("127.0.0.3:%d", port)
		u := mkClient(ClientCfg{Bind: workerIP(c, 0) + ":0", Listen: addr, Timeout: time.Second})
		busy := time.Duration(20+r.Pick(200)) * time.Millisecond
		var connected, events atomic.Int64
		var once sync.Once
		inCallback := make(chan struct{})
		l := &c04Listener{connected: &connected, on: func(*types.Status) {
			n := events.Add(1)
			once.Do(func() { close(inCallback) })
			if n <= 2 {
				time.Sleep(busy)
			} else {
				time.Sleep(time.Millisecond)
			}
		}}
		l.errRet = i%2 == 0
		if i%3 == 1 {
			l.errSleep = 2 * time.Millisecond
		}
		q := make(chan os.Signal, 1)
		done := make(chan error, 1)
		go func() { done <- u.Listen(l, q) }()
		for k := 0; k < 1000 && connected.Load() == 0; k++ {
			time.Sleep(time.Millisecond)
		}
		conn, err := net.Dial("udp4", addr)
		if err != nil || connected.Load() == 0 {
			c.Res.Inconcl("listener did not start")
			q <- os.Interrupt
			continue
		}
		burst := 2 + r.Pick(40)
		stopAfter := time.Duration(r.Pick(int(busy/time.Millisecond)+10)) * time.Millisecond
		var sender sync.WaitGroup
		sender.Add(1)
		go func() {
			defer sender.Done()
			for k := 0; k < burst; k++ {
				ev := r.Reply(rm.FindOp("GetStatus"), 0x17, 7000+uint32(k), rm.Vals{}, true)
				if (k+i)%3 == 2 { // rejected datagrams in between (wrong length, serial number 0): the error callback, in bursts too
					if k%2 == 0 {
						ev = ev[:10+k%50]
					} else {
						copy(ev[4:8], []byte{0, 0, 0, 0})
					}
					conn.Write(ev)
					conn.Write(ev[:5])
				}
				conn.Write(ev)
				if k%5 == 4 {
					time.Sleep(time.Millisecond)
				}
			}
		}()
		select {
		case <-inCallback:
		case <-time.After(2 * time.Second):
		}
		time.Sleep(stopAfter)
		q <- os.Interrupt
		c.Res.Eval(1)
		c.Res.DistinctKey("listener-stop-busy", burst > 10, stopAfter > busy/2)
		c.Res.Count("loopback:listener-stopped-while-callback-busy", 1)
		select {
		case err := <-done:
			if err != nil {
				c.Res.Violate("C04:loopback:listen:stop-error", "Listen returned an error when stopped while the event callback was busy: "+err.Error(), nil, int64(i))
			}
		case <-liveAfter(10 * time.Second):
			c.Res.Inconcl("listener did not stop within 10 s of the signal (callback busy)")
		}
		sender.Wait()
		conn.Close()
		time.Sleep(busy + 20*time.Millisecond) // anything still in flight inside the library gets the chance to blow up now
	}

	// ---- a listener on the wildcard address (the default): on a dual-stack host its socket also hears IPv6; whatever arrives that way -
	// an event, junk - is a datagram like any other
	for round := 0; round < c.N(2, 6); round++ {
		port := freePort("0.0.0.0")
		if port == 0 {
			continue
		}
		addr := fmt.Sprintf("0.0.0.0:%d", port)
		u := mkClient(ClientCfg{Bind: workerIP(c, 0) + ":0", Listen: addr, Timeout: time.Second})
		var connected, events atomic.Int64
		l := &c04Listener{connected: &connected, errRet: true, on: func(s *types.Status) { events.Add(1); _ = s.String() }}
		q := make(chan os.Signal, 1)
		done := make(chan error, 1)
		go func() { done <- u.Listen(l, q) }()
		for k := 0; k < 1000 && connected.Load() == 0; k++ {
			time.Sleep(time.Millisecond)
		}
		if connected.Load() == 0 {
			q <- os.Interrupt
			continue
		}
		sent6 := 0
		for _, target := range []string{fmt.Sprintf("[::1]:%d", port), fmt.Sprintf("127.0.0.1:%d", port), fmt.Sprintf("[::ffff:127.0.0.1]:%d", port)} {
			conn, err := net.Dial("udp", target)
			if err != nil {
				continue
			}
			for k := 0; k < 6; k++ {
				ev := r.Reply(rm.FindOp("GetStatus"), 0x17, 9000+uint32(k), rm.Vals{}, true)
				if k%3 == 2 {
					ev = ev[:1+r.Pick(63)]
				}
				if _, err := conn.Write(ev); err == nil && strings.HasPrefix(target, "[::1]") {
					sent6++
				}
			}
			conn.Close()
		}
		time.Sleep(30 * time.Millisecond)
		q <- os.Interrupt
		select {
		case <-done:
		case <-liveAfter(10 * time.Second):
			c.Res.Inconcl("listener on the wildcard address did not stop within 10 s of the signal")
		}
		c.Res.Eval(1)
		c.Res.DistinctKey("listener-wildcard", sent6 > 0)
		c.Res.Count("loopback:wildcard-listener-cycles", 1)
		c.Res.Count("loopback:datagrams-sent-to-the-wildcard-listener-over-ipv6", int64(sent6))
	}

	// ---- the application renders the events on goroutines of its own (the callback only queues them, so that the receiver is not
	// held up) while further events keep arriving: every delivered status can be rendered at any time
	for round := 0; round < c.N(2, 8); round++ {
		port := freePort("127.0.0.3")
		if port == 0 {
			continue
		}
		addr := fmt.Sprintf("127.0.0.3:%d", port)
		u := mkClient(ClientCfg{Bind: workerIP(c, 0) + ":0", Listen: addr, Timeout: time.Second})
		var connected, events, rendered atomic.Int64
		queue := make(chan *types.Status, 256)
		var renderers sync.WaitGroup
		for k := 0; k < 4; k++ {
			renderers.Add(1)
			go func() {
				defer renderers.Done()
				renderDelivered(c, queue, &rendered)
			}()
		}
		l := &c04Listener{connected: &connected, errRet: true, on: func(s *types.Status) {
			events.Add(1)
			select {
			case queue <- s:
			default:
			}
		}}
		q := make(chan os.Signal, 1)
		done := make(chan error, 1)
		go func() { done <- u.Listen(l, q) }()
		for k := 0; k < 1000 && connected.Load() == 0; k++ {
			time.Sleep(time.Millisecond)
		}
		conn, err := net.Dial("udp4", addr)
		if err != nil || connected.Load() == 0 {
			c.Res.Inconcl("listener did not start")
			q <- os.Interrupt
			close(queue)
			continue
		}
		total := c.N(4000, 30000)
		for k := 0; k < total; k++ {
			ev := r.Reply(rm.FindOp("GetStatus"), 0x17, 8000+uint32(k%7), rm.Vals{}, true)
			conn.Write(ev)
			for int64(k)-events.Load() > 64 { // keep the socket buffer from overflowing
				time.Sleep(50 * time.Microsecond)
				if connected.Load() == 0 {
					break
				}
			}
		}
		for k := 0; k < 500 && events.Load() < int64(total); k++ {
			time.Sleep(time.Millisecond)
		}
		q <- os.Interrupt
		select {
		case <-done:
		case <-liveAfter(10 * time.Second):
			c.Res.Inconcl("listener did not stop within 10 s of the signal")
		}
		conn.Close()
		close(queue)
		renderers.Wait()
		c.Res.Eval(1)
		c.Res.DistinctKey("listener-render-elsewhere", round)
		c.Res.Count("loopback:events-delivered-while-earlier-ones-were-being-rendered-elsewhere", events.Load())
		c.Res.Count("loopback:renderings-of-delivered-events-on-other-goroutines", rendered.Load())
	}
}

// renderDelivered renders the statuses the listener was given - String and JSON, several times each - on a goroutine of the
// application. It only ever reads them. (The parent recognises this function in a crash trace: if the runtime aborts the process
// because a map is written while it is being read here, the writer is the library.)
//
//go:noinline
func renderDelivered(c *Ctx, queue chan *types.Status, rendered *atomic.Int64) {
	for s := range queue {
		func() {
			defer func() {
				if p := recover(); p != nil {
					c.Res.Violate("C04:render:panic:delivered-event", fmt.Sprintf("rendering a delivered event panicked: %v", p), nil, -6)
				}
			}()
			for k := 0; k < 40; k++ {
				_ = s.String()
				if _, err := json.Marshal(s); err != nil {
					break
				}
				rendered.Add(2)
			}
		}()
	}
}

type c04Listener struct {
	connected *atomic.Int64
	on        func(*types.Status)
	errRet    bool          // what OnError returns (the library must cope with either)
	errSleep  time.Duration // a slow OnError: the next rejected datagram is already queued when it returns
	onErr     func(error)   // (optional) sees every error the listener is handed
}

func (l *c04Listener) OnConnected()            { l.connected.Add(1) }
func (l *c04Listener) OnEvent(s *types.Status) { l.on(s) }
func (l *c04Listener) OnError(err error) bool {
	if l.onErr != nil {
		l.onErr(err)
	}
	if l.errSleep > 0 {
		time.Sleep(l.errSleep)
	}
	return l.errRet
}
