package main

import (
	"fmt"
	"net"
	"strings"
	"sync"
	"sync/atomic"
	"time"

	"verif/harness/adapter"
	"verif/harness/farm"
	"verif/harness/gen"
	rm "verif/harness/refmodel"
	"verif/harness/wk"
)

func init() { registry["C03"] = c03 }

type seqItem struct {
	class  gen.Class
	marker uint32
}

func seqString(seq []seqItem) string {
	parts := []string{}
	for _, s := range seq {
		parts = append(parts, s.class.String())
	}
	if len(parts) == 0 {
		return "silence"
	}
	return strings.Join(parts, ",")
}

type c03Exp struct {
	outcome  string // success | error
	marker   uint32
	waits    bool // the call must keep waiting until its deadline (broadcast path, nothing decisive arrives)
	deciding string
}

// c03Automaton is the acceptance automaton of the property.
func c03Automaton(path string, op *rm.Op, seq []seqItem) c03Exp {
	if op.NoReply {
		return c03Exp{outcome: "success", deciding: "no-reply-expected"}
	}
	accepts := func(c gen.Class) bool {
		return c == gen.Valid || (c == gen.Protocol19 && op.Fn == 0x20)
	}
	if path == "broadcast" {
		for _, s := range seq {
			switch s.class {
			case gen.Len0, gen.LenShort, gen.LenLong, gen.WrongSerial, gen.Serial0:
				continue // ignored: the call keeps waiting for S
			}
			if accepts(s.class) {
				return c03Exp{outcome: "success", marker: s.marker, deciding: s.class.String()}
			}
			return c03Exp{outcome: "error", deciding: s.class.String()}
		}
		return c03Exp{outcome: "error", waits: true, deciding: "silence"}
	}
	if len(seq) == 0 {
		return c03Exp{outcome: "error", waits: true, deciding: "silence"}
	}
	if accepts(seq[0].class) {
		return c03Exp{outcome: "success", marker: seq[0].marker, deciding: seq[0].class.String()}
	}
	return c03Exp{outcome: "error", deciding: seq[0].class.String()}
}

func classesFor(op *rm.Op, path string, loopback bool) []gen.Class {
	out := []gen.Class{}
	for c := gen.Valid; c < gen.NClasses; c++ {
		if c == gen.Malformed && !gen.HasMalformed(op) {
			continue
		}
		if c == gen.Len0 && path == "tcp" && loopback {
			continue // a zero length write sends nothing on TCP
		}
		out = append(out, c)
	}
	return out
}

// markerOf reads the marker back from a call's result.
func markerOf(op *rm.Op, out rm.Outcome) (uint32, bool) {
	mf := gen.MarkerField[op.Name]
	if mf == "" || out.Fields == nil {
		return 0, false
	}
	v, ok := out.Fields[mf]
	return uint32(v.U), ok
}

func markerMask(op *rm.Op) uint32 {
	mf := gen.MarkerField[op.Name]
	if mf == "" {
		return 0
	}
	switch op.ReplyLayout().Field(mf).Kind {
	case rm.U8:
		return 0xff
	case rm.U16, rm.Version:
		return 0xffff
	case rm.PIN:
		return 0xffffff
	}
	return 0xffffffff
}

type c03Case struct {
	path   string
	op     *rm.Op
	serial uint32
	args   rm.Vals
	pres   gen.Presentation
	seq    []seqItem
	dgrams [][]byte
	// loopback layer: what the farm answers to anything but the first request of the case - a retransmission, or the same request
	// over another transport: a perfectly good reply (a correct client never gets that far: one call, one request)
	again []byte
	reqs  atomic.Int32
	// loopback layer, directed UDP: a perfectly formed reply for this very request that comes from ANOTHER address than the controller's
	// (sent first): the request went to the controller over a connected socket - what other hosts send to the port is not its reply
	decoy []byte
}

func c03Judge(c *Ctx, cs *c03Case, out rm.Outcome, panicked bool, elapsed, T time.Duration, layer string, caseNo int64, consumed int) {
	exp := c03Automaton(cs.path, cs.op, cs.seq)
	c.Res.Eval(1)
	c.Res.DistinctKey(layer, cs.path, cs.op.Name, seqString(cs.seq))
	c.Res.Count(layer+":"+cs.path, 1)
	c.Res.Count("expected:"+exp.outcome, 1)
	hexes := []string{}
	for _, d := range cs.dgrams {
		h := wk.Hex(d)
		if len(h) > 160 {
			h = h[:160] + "..."
		}
		hexes = append(hexes, h)
	}
	w := map[string]any{"layer": layer, "path": cs.path, "op": cs.op.Name, "serial": cs.serial, "sequence": seqString(cs.seq), "datagrams": hexes,
		"expected": exp.outcome, "result": out.Fields.String(), "err": out.Err, "nil": out.Nil, "elapsed_ms": elapsed.Milliseconds()}
	key := fmt.Sprintf("C03:%s:%s:%s", cs.path, cs.op.Name, exp.deciding)
	if panicked {
		c.Res.Violate(key+":panic", fmt.Sprintf("%s over %s with datagrams [%s] panicked: %s", cs.op.Name, cs.path, seqString(cs.seq), out.Err), w, caseNo)
		return
	}
	ok := out.Err == ""
	if cs.decoy != nil && ok && !cs.op.NoReply {
		// whatever the controller's own datagrams were: a result that carries the decoy's marker was taken from a datagram that came
		// from another address than the controller's
		if got, has := markerOf(cs.op, out); has && got == 0x0d&markerMask(cs.op) && exp.marker&markerMask(cs.op) != got {
			c.Res.Violate(key+":foreign-content:reply-from-another-address", fmt.Sprintf("%s over %s: the result carries the marker (%d) of a datagram that was sent to the call's port from another address than the controller's (the controller's own datagrams: [%s])", cs.op.Name, cs.path, got, seqString(cs.seq)), w, caseNo)
			return
		}
	}
	switch {
	case exp.outcome == "success" && !ok:
		c.Res.Violate(key+":rejected-valid", fmt.Sprintf("%s over %s with datagrams [%s]: a valid reply from the addressed controller was not accepted: %s", cs.op.Name, cs.path, seqString(cs.seq), out.Err), w, caseNo)
	case exp.outcome == "error" && ok:
		c.Res.Violate(key+":accepted-invalid", fmt.Sprintf("%s over %s with datagrams [%s]: the call must fail (deciding datagram: %s) but returned %v", cs.op.Name, cs.path, seqString(cs.seq), exp.deciding, out.Fields), w, caseNo)
	case exp.outcome == "success" && !cs.op.NoReply:
		if got, has := markerOf(cs.op, out); has && got != exp.marker&markerMask(cs.op) {
			c.Res.Violate(key+":foreign-content", fmt.Sprintf("%s over %s with datagrams [%s]: the result carries marker %d, the accepted datagram carried %d", cs.op.Name, cs.path, seqString(cs.seq), got, exp.marker&markerMask(cs.op)), w, caseNo)
		} else {
			// every field of the result is the decoding of the accepted datagram - nothing in it comes from anywhere else
			for i, it := range cs.seq {
				if it.marker == exp.marker && it.class == gen.Valid && i < len(cs.dgrams) && len(cs.dgrams[i]) == 64 {
					if msg := cs.op.Expect(cs.serial, cs.args, cs.dgrams[i]).Judge(out); msg != "" {
						c.Res.Violate(key+":foreign-content", fmt.Sprintf("%s over %s with datagrams [%s]: the result is not the decoding of the accepted datagram: %s", cs.op.Name, cs.path, seqString(cs.seq), msg), w, caseNo)
					}
					break
				}
			}
		}
	}
	if layer == "loopback" {
		if exp.waits && elapsed < T*8/10 {
			c.Res.Violate(key+":gave-up-early", fmt.Sprintf("%s over %s with datagrams [%s]: nothing decisive arrived, the call must wait until its deadline (%v) but returned after %v", cs.op.Name, cs.path, seqString(cs.seq), T, elapsed), w, caseNo)
		}
		if cs.op.NoReply && elapsed > T/2 {
			c.Res.Violate(key+":set-address-waits", fmt.Sprintf("SetAddress over %s must return once the request is sent, took %v", cs.path, elapsed), w, caseNo)
		}
	} else if cs.op.NoReply && consumed > 0 {
		c.Res.Violate(key+":set-address-consumes", fmt.Sprintf("SetAddress over %s consumed %d datagram(s)", cs.path, consumed), w, caseNo)
	}
	if caseNo%701 == 0 {
		c.Res.Sample(map[string]any{"layer": layer, "path": cs.path, "op": cs.op.Name, "sequence": seqString(cs.seq), "expected": exp.outcome, "observed_err": out.Err, "elapsed_ms": elapsed.Milliseconds()})
	}
}

func c03(c *Ctx) {
	c.Res.Rule = "datagram-sequence scripts over the class alphabet {valid, len0, len1-63, len65-4096, wrong-serial, serial0, wrong-function, wrong-protocol, protocol-0x19, malformed}; every valid-looking datagram carries a unique marker in a result field; all sequences up to length L (2 quick / 3 thorough; 4 on the hooked layer) plus random sequences up to length 8, on the broadcast, connected-UDP and TCP paths; hooked layer: all 31 operations through the in-memory driver; loopback layer: real sockets against the controller farm; oracle = acceptance automaton; distinct = distinct (layer, path, operation, class sequence)"
	if c.Mode == "loopback" {
		c03Loopback(c)
		return
	}
	c03Hook(c)
}

func enumerate(classes []gen.Class, maxLen int, yield func([]gen.Class)) {
	var rec func(prefix []gen.Class)
	rec = func(prefix []gen.Class) {
		yield(append([]gen.Class{}, prefix...))
		if len(prefix) == maxLen {
			return
		}
		for _, c := range classes {
			rec(append(prefix, c))
		}
	}
	rec(nil)
}

func (cs *c03Case) build(r gen.R, classes []gen.Class, base uint32) {
	cs.seq = nil
	cs.dgrams = nil
	for i, cl := range classes {
		m := (base + uint32(i)*7 + 1) & markerMask(cs.op)
		if markerMask(cs.op) == 0xff {
			m = uint32(i+1)&0x0f | (base&0x0f)<<4
		}
		cs.seq = append(cs.seq, seqItem{cl, m})
		cs.dgrams = append(cs.dgrams, r.Datagram(cs.op, cs.serial, cs.args, cl, m))
	}
	if !cs.op.NoReply {
		cs.again = r.Datagram(cs.op, cs.serial, cs.args, gen.Valid, 0x0e&markerMask(cs.op))
	}
}

// ---------------------------------------------------------------------------------------------
// hooked layer: sendto + receive filter for every operation

func c03Hook(c *Ctx) {
	r := c.Rng("hook")
	paths := []string{"broadcast", "udp", "tcp"}
	L := c.N(3, 4)
	var caseNo int64
	slot := 0
	run := func(op *rm.Op, path string, classes []gen.Class) {
		caseNo++
		serial := r.Serial()
		cfg := ClientCfg{Broadcast: "192.168.1.255:60000"}
		switch path {
		case "udp":
			cfg.Devices = []DevCfg{{ID: serial, Addr: "10.0.0.1:60000", Proto: "udp"}}
		case "tcp":
			cfg.Devices = []DevCfg{{ID: serial, Addr: "10.0.0.1:60000", Proto: "tcp"}}
		}
		u, d := mkMemClient(cfg)
		a, p := r.Args(op)
		aux := toAux(p)
		fixArgs(op, a, aux)
		cs := &c03Case{path: path, op: op, serial: serial, args: a, pres: p}
		cs.build(r, classes, uint32(caseNo)*31)
		d.Script = func(adapter.Invocation) ([][]byte, error) { return cs.dgrams, nil }
		out, panicked := adapter.SafeCall(u, op.Name, serial, a, aux)
		c03Judge(c, cs, out, panicked, 0, 0, "hook", caseNo, d.Consumed)
	}
	for _, op := range reqOps() {
		for _, path := range paths {
			classes := classesFor(op, path, false)
			l := L
			if op.NoReply {
				l = 2
			}
			enumerate(classes, l, func(seq []gen.Class) {
				slot++
				if slot%c.MNBatch != c.MBatch {
					return
				}
				run(op, path, seq)
			})
		}
	}
	// random longer sequences
	ops := reqOps()
	for i := 0; i < c.N(20000, 300000); i++ {
		op := ops[r.Pick(len(ops))]
		path := paths[r.Pick(3)]
		classes := classesFor(op, path, false)
		n := r.Pick(9)
		seq := make([]gen.Class, n)
		for k := range seq {
			seq[k] = classes[r.Pick(len(classes))]
			if r.Chance(0.5) { // bias towards the ignored classes so that long prefixes are skipped
				seq[k] = []gen.Class{gen.WrongSerial, gen.LenShort, gen.LenLong, gen.Serial0, gen.Len0}[r.Pick(5)]
			}
		}
		run(op, path, seq)
	}
	c.Res.Note("hook-layer", fmt.Sprintf("all sequences up to length %d over the class alphabet x 3 paths x 31 operations (partitioned over batches)", L))
}

// ---------------------------------------------------------------------------------------------
// loopback layer: the real driver against the controller farm

func c03Loopback(c *Ctx) {
	r := c.Rng("loopback")
	T := 150 * time.Millisecond
	fm := farm.New()
	fm.KeepLog = false
	bc, err1 := fm.AddUDP("127.0.0.1", 0)
	cu, err2 := fm.AddUDP("127.0.0.1", 0)
	ct, err3 := fm.AddTCP("127.0.0.1", 0)
	if err1 != nil || err2 != nil || err3 != nil {
		c.Res.Inconcl(fmt.Sprintf("cannot open farm endpoints: %v %v %v", err1, err2, err3))
		return
	}
	defer fm.Close()
	// a controller that can be reached over UDP and over TCP at the same address and port (for controllers configured with a
	// protocol string that is not "tcp": they are UDP controllers, whatever else listens there)
	var pu, pt *farm.Endpoint
	for try := 0; try < 20 && pt == nil; try++ {
		var e error
		if pu, e = fm.AddUDP("127.0.0.1", 0); e != nil {
			break
		}
		if pt, e = fm.AddTCP("127.0.0.1", pu.Port); e != nil {
			pt = nil
		}
	}

	var cases sync.Map // serial -> *c03Case
	fm.SetScript(func(ep *farm.Endpoint, src net.Addr, req []byte, seq uint64) []farm.Action {
		if len(req) < 8 {
			return nil
		}
		serial := uint32(req[4]) | uint32(req[5])<<8 | uint32(req[6])<<16 | uint32(req[7])<<24
		v, ok := cases.Load(serial)
		if !ok {
			return nil
		}
		cs := v.(*c03Case)
		if cs.reqs.Add(1) > 1 {
			if cs.again == nil {
				return nil
			}
			return []farm.Action{{Data: cs.again}}
		}
		actions := []farm.Action{}
		if cs.decoy != nil && ep == cu {
			actions = append(actions, farm.Action{Data: cs.decoy, Via: bc})
		}
		for i, d := range cs.dgrams {
			delay := time.Millisecond
			if ep.Proto == "udp" && serial%2 == 0 {
				delay = 0 // back to back: the next datagram is already queued when the client reads this one
			}
			if ep.Proto == "tcp" {
				if i == 1 {
					// the first datagram decides on a directed path; anything further is sent late, and only if the
					// first one was not an accepting datagram (a correct client has closed long before)
					if e := c03Automaton("tcp", cs.op, cs.seq); e.outcome == "success" {
						break
					}
					delay = 30 * time.Millisecond
				}
			}
			actions = append(actions, farm.Action{Delay: delay, Data: d})
		}
		return actions
	})

	ops := []*rm.Op{rm.FindOp("GetCards"), rm.FindOp("GetStatus"), rm.FindOp("GetCardByID"), rm.FindOp("GetTimeProfile"), rm.FindOp("GetEvent"), rm.FindOp("SetAddress")}
	paths := []string{"broadcast", "udp", "tcp"}
	type job struct {
		op      *rm.Op
		path    string
		classes []gen.Class
		no      int64
	}
	jobs := []job{}
	L := c.N(2, 3)
	slot := 0
	var no int64
	for _, op := range ops {
		for _, path := range paths {
			l := L
			if op.NoReply {
				l = 1
			}
			enumerate(classesFor(op, path, true), l, func(seq []gen.Class) {
				slot++
				if slot%c.MNBatch != c.MBatch {
					return
				}
				no++
				jobs = append(jobs, job{op, path, seq, no})
			})
		}
	}
	for i := 0; i < c.N(600, 4000); i++ {
		op := ops[r.Pick(len(ops))]
		path := paths[r.Pick(3)]
		classes := classesFor(op, path, true)
		n := 3 + r.Pick(6)
		seq := make([]gen.Class, n)
		for k := range seq {
			seq[k] = classes[r.Pick(len(classes))]
			if r.Chance(0.6) {
				seq[k] = []gen.Class{gen.WrongSerial, gen.LenShort, gen.LenLong, gen.Serial0}[r.Pick(4)]
			}
		}
		no++
		jobs = append(jobs, job{op, path, seq, no})
	}
	// shuffle so that waiting cases are spread out
	for i := len(jobs) - 1; i > 0; i-- {
		j := r.Pick(i + 1)
		jobs[i], jobs[j] = jobs[j], jobs[i]
	}

	var next atomic.Int64
	var wg sync.WaitGroup
	workers := 24
	serialBase := uint32(0x30000000) + uint32(c.Batch)<<20
	for w := 0; w < workers; w++ {
		wg.Add(1)
		go func(w int) {
			defer wg.Done()
			rr := gen.New(c.Seed, fmt.Sprintf("C03/loopback/w%d", w), c.Batch)
			for {
				i := int(next.Add(1)) - 1
				if i >= len(jobs) {
					return
				}
				jb := jobs[i]
				serial := serialBase + uint32(i) + 1
				cfg := ClientCfg{Bind: workerIP(c, w) + ":0", Broadcast: bc.Addr, Timeout: T, Debug: i%5 == 0} // every fifth client dumps its traffic (debug mode): the results are judged all the same
				switch jb.path {
				case "udp":
					cfg.Devices = []DevCfg{{ID: serial, Addr: cu.Addr, Proto: "udp"}}
					if i%4 == 1 && pt != nil {
						cfg.Devices = []DevCfg{{ID: serial, Addr: pu.Addr, Proto: []string{"any", "", "xyz", "UDP"}[(i/4)%4]}}
						c.Res.Count("loopback:udp:controllers-with-another-protocol-string-and-a-tcp-listener-at-the-same-port", 1)
					}
				case "tcp":
					cfg.Devices = []DevCfg{{ID: serial, Addr: ct.Addr, Proto: "tcp"}}
				}
				u := mkClient(cfg)
				a, p := rr.Args(jb.op)
				aux := toAux(p)
				fixArgs(jb.op, a, aux)
				cs := &c03Case{path: jb.path, op: jb.op, serial: serial, args: a, pres: p}
				cs.build(rr, jb.classes, uint32(i)*131)
				if jb.path == "udp" && i%3 == 0 && !jb.op.NoReply && len(cfg.Devices) == 1 && cfg.Devices[0].Addr == cu.Addr {
					cs.decoy = rr.Datagram(jb.op, serial, a, gen.Valid, 0x0d&markerMask(jb.op))
					c.Res.Count("loopback:udp:cases-with-a-well-formed-reply-from-another-address-first", 1)
				}
				cases.Store(serial, cs)
				start := time.Now()
				out, panicked := adapter.SafeCall(u, jb.op.Name, serial, a, aux)
				elapsed := time.Since(start)
				cases.Delete(serial)
				// let the farm finish playing this case's script before this worker opens its next socket
				scriptLen := time.Duration(len(cs.dgrams))*time.Millisecond + 3*time.Millisecond
				if jb.path == "tcp" && len(cs.dgrams) > 1 {
					scriptLen += 30 * time.Millisecond
				}
				if rest := scriptLen - elapsed; rest > 0 {
					time.Sleep(rest)
				}
				if elapsed > T+3*time.Second {
					c.Res.Inconcl(fmt.Sprintf("call took %v (host overloaded?)", elapsed))
					continue
				}
				c03Judge(c, cs, out, panicked, elapsed, T, "loopback", jb.no, 0)
			}
		}(w)
	}
	wg.Wait()
	c03LateThenNext(c, T)
	c03SetAddressUnsendable(c, T)
	c.Res.Note("loopback-layer", fmt.Sprintf("T=%v, %d parallel clients, all sequences up to length %d x 3 paths x 6 operations + random long ones; farm endpoints %s (broadcast), %s (udp), %s (tcp)", T, workers, L, bc.Addr, cu.Addr, ct.Addr))
}

// c03LateThenNext: one client, one TCP (and one UDP) controller. The controller answers the first request after the call has given
// up; the calls that follow get prompt replies. Every result is the reply to its own request (the reply carries the record the
// request asked for) - the late reply of the first call is nobody's.
func c03LateThenNext(c *Ctx, T time.Duration) {
	fm := farm.New()
	fm.KeepLog = false
	ct, err1 := fm.AddTCP("127.0.0.1", 0)
	cu, err2 := fm.AddUDP("127.0.0.1", 0)
	if err1 != nil || err2 != nil {
		return
	}
	defer fm.Close()
	op := rm.FindOp("GetCardByIndex")
	l := op.ReplyLayout()
	var late atomic.Uint32 // the index whose reply is sent after the deadline
	fm.SetScript(func(ep *farm.Endpoint, src net.Addr, req []byte, seq uint64) []farm.Action {
		if len(req) != 64 || req[1] != op.Fn {
			return nil
		}
		serial := uint32(req[4]) | uint32(req[5])<<8 | uint32(req[6])<<16 | uint32(req[7])<<24
		index := uint32(req[8]) | uint32(req[9])<<8 | uint32(req[10])<<16 | uint32(req[11])<<24
		msg := okReply(op, serial)
		rm.EncodeField(msg, *l.Field("CardNumber"), rm.UVal(rm.U32, uint64(8000000+index)))
		rm.EncodeField(msg, *l.Field("From"), rm.DateVal(2024, 1, 1))
		rm.EncodeField(msg, *l.Field("To"), rm.DateVal(2024, 12, 31))
		rm.EncodeField(msg, *l.Field("Door1"), rm.UVal(rm.U8, 1))
		if index == late.Load() {
			return []farm.Action{{Delay: T * 13 / 10, Data: msg}}
		}
		return []farm.Action{{Data: msg}}
	})
	for round := 0; round < c.N(4, 16); round++ {
		serial := uint32(0x31000000) + uint32(c.Batch)<<16 + uint32(round)
		proto, addr := "tcp", ct.Addr
		if round%2 == 1 {
			proto, addr = "udp", cu.Addr
		}
		u := mkClient(ClientCfg{Bind: workerIP(c, 0) + ":0", Broadcast: "127.0.0.1:1", Timeout: T, Devices: []DevCfg{{ID: serial, Addr: addr, Proto: proto}}})
		base := uint32(100 * (round + 1))
		late.Store(base)
		start := time.Now()
		u.GetCardByIndex(serial, base) // gives up at T; the reply leaves at 1.3 T
		if rest := T*15/10 - time.Since(start); rest > 0 {
			time.Sleep(rest)
		}
		for k := uint32(1); k <= 5; k++ {
			card, err := u.GetCardByIndex(serial, base+k)
			c.Res.Eval(1)
			c.Res.DistinctKey("loopback", "late-then-next", proto)
			if err == nil && card != nil && card.CardNumber != 8000000+base+k {
				c.Res.Violate("C03:"+proto+":GetCardByIndex:valid:foreign-content:after-a-late-reply", fmt.Sprintf("GetCardByIndex(%d) over %s returned card %d - the reply to another request (the controller had answered the call before the previous ones too late; the reply to this request carries card %d)", base+k, proto, card.CardNumber, 8000000+base+k), map[string]any{"round": round}, int64(round))
				break
			}
		}
		c.Res.Count("loopback:late-reply-then-further-calls:"+proto, 1)
	}
}

// c03SetAddressUnsendable: "SetAddress succeeds once the request is sent" - and not when it cannot be sent. Where this machine
// refuses to send a datagram to the broadcast address (no route: the monitor tries it with a socket of its own first), SetAddress
// over the broadcast path reports the failure.
func c03SetAddressUnsendable(c *Ctx, T time.Duration) {
	for _, bcast := range []string{"203.0.113.255:60000", "240.1.2.3:60000", "198.51.100.255:60000"} {
		probe, err := net.ListenUDP("udp4", &net.UDPAddr{IP: net.ParseIP(workerIP(c, 0))})
		if err != nil {
			continue
		}
		ua, _ := net.ResolveUDPAddr("udp4", bcast)
		_, werr := probe.WriteToUDP(make([]byte, 64), ua)
		probe.Close()
		if werr == nil {
			c.Res.Count("loopback:set-address-unsendable:address-is-sendable-here(skipped)", 1)
			continue
		}
		u := mkClient(ClientCfg{Bind: workerIP(c, 0) + ":0", Broadcast: bcast, Timeout: T})
		serial := uint32(0x32000000) + uint32(c.Batch)
		res, err2 := u.SetAddress(serial, net.IPv4(10, 0, 0, 9), net.IPv4(255, 255, 255, 0), net.IPv4(10, 0, 0, 1))
		c.Res.Eval(1)
		c.Res.DistinctKey("loopback", "set-address-unsendable", bcast)
		c.Res.Count("loopback:set-address-where-the-kernel-refuses-the-send", 1)
		if err2 == nil {
			c.Res.Violate("C03:broadcast:SetAddress:reported-sent-although-unsendable", fmt.Sprintf("SetAddress over the broadcast path to %s returned %v without an error although the kernel refuses to send there (%v): nothing was sent", bcast, res, werr), map[string]any{"broadcast": bcast, "probe_error": werr.Error()}, 0)
		}
	}
}
