package main

import (
	"encoding/json"
	"fmt"
	"net"
	"os"
	"sync"
	"sync/atomic"
	"time"

	"github.com/uhppoted/uhppote-core/types"

	"verif/harness/adapter"
	"verif/harness/farm"
	"verif/harness/gen"
	rm "verif/harness/refmodel"
)

// c17Loopback: returned values against the REAL transport's buffers. The hooked layer overwrites the buffers the in-memory
// driver handed over; what the real driver does with its own receive buffers (reuse, pooling, the listener's single read
// buffer) is only visible over sockets. Every value an operation returns is kept (the typed value itself, through
// adapter.ResultHook) together with a rendering taken at once; after the next calls - sequential and concurrent, on the
// same and on other clients, over UDP, TCP and broadcast - the kept values are rendered again and must not have changed.
// Listener: events delivered in bursts behind a busy callback must each be the decoding of their own datagram and must
// not change afterwards.
func c17Loopback(c *Ctx) {
	c.Res.Rule = "loopback layer (real driver): results of GetDevice, GetDevices, GetStatus, GetCardByIndex, GetCardByID, GetTimeProfile, GetListener, GetEvent, GetTime are retained as returned and re-rendered after 1..12 later calls (sequential and 4-way concurrent; UDP, TCP, broadcast; same and other clients) - any change is a violation; real listener: bursts of events behind a busy callback, every delivered status compared with the decoding of its own datagram at delivery and again after the burst; distinct = distinct (operation, path, age at re-check)"
	T := 150 * time.Millisecond
	r := c.Rng("loopback")
	fm := farm.New()
	fm.KeepLog = false
	defer fm.Close()
	fm.SetScript(func(ep *farm.Endpoint, src net.Addr, req []byte, seq uint64) []farm.Action {
		if len(req) == 64 && req[1] == 0x94 && req[4]|req[5]|req[6]|req[7] == 0 {
			out := []farm.Action{}
			n := 3
			if seq%3 == 0 {
				n = 48 // round 9: a large site - more replies than fit into one 2K receive block (seeded C17-V)
			}
			for i := 0; i < n; i++ {
				vals := rm.Vals{"SerialNumber": rm.Val{K: rm.Serial, U: uint64(0x0d000001 + i + int(seq)<<8)}, "IpAddress": rm.IPVal(10, byte(seq), 0, byte(1+i)), "SubnetMask": rm.IPVal(255, 255, 255, 0), "Gateway": rm.IPVal(10, 0, 0, 254),
					"MacAddress": rm.Val{K: rm.MAC, B: []byte{byte(seq), 1, 2, 3, 4, byte(i)}}, "Version": rm.UVal(rm.Version, 0x0892), "Date": rm.DateVal(2020, 1, 1+i%28)}
				out = append(out, farm.Action{Data: rm.Encode(rm.FindOp("GetDevice").ReplyLayout(), 0x17, vals)})
			}
			return out
		}
		if reply := c17EchoReply(req); reply != nil {
			return []farm.Action{{Data: reply}}
		}
		return nil
	})
	udp, err1 := fm.AddUDP("127.0.0.1", 0)
	tcp, err2 := fm.AddTCP("127.0.0.1", 0)
	bc, err3 := fm.AddUDP("127.0.0.1", 0)
	if err1 != nil || err2 != nil || err3 != nil {
		c.Res.Inconcl("cannot build farm")
		return
	}
	serialBase := uint32(0x66000000) + uint32(c.Batch)<<20
	paths := []string{"udp", "tcp", "broadcast"}
	mk := func(w int) (ClientCfg, [3]uint32) {
		s := [3]uint32{serialBase + uint32(w)*16 + 1, serialBase + uint32(w)*16 + 2, serialBase + uint32(w)*16 + 3}
		return ClientCfg{Bind: workerIP(c, w) + ":0", Broadcast: bc.Addr, Timeout: T, Devices: []DevCfg{{ID: s[0], Addr: udp.Addr, Proto: "udp"}, {ID: s[1], Addr: tcp.Addr, Proto: "tcp", NewDevice: true}}}, s
	}
	type kept struct {
		op, path string
		v        any
		snap     string
		born     int64
	}
	render := func(v any) string {
		js, _ := json.Marshal(v)
		return fmt.Sprintf("%+v | %s", v, js)
	}
	var mu sync.Mutex
	var keep []kept
	var calls atomic.Int64
	adapter.ResultHook = func(op string, v any) {
		mu.Lock()
		keep = append(keep, kept{op: op, v: v, snap: render(v), born: calls.Load()})
		mu.Unlock()
	}
	defer func() { adapter.ResultHook = nil }()
	ops := []string{"GetDevice", "GetStatus", "GetCardByIndex", "GetCardByID", "GetTimeProfile", "GetListener", "GetEvent", "GetTime", "GetDoorControlState"}
	recheck := func(final bool) {
		mu.Lock()
		defer mu.Unlock()
		now := calls.Load()
		rest := keep[:0]
		for _, k := range keep {
			age := now - k.born
			if !final && age < int64(1+len(k.op)%12) {
				rest = append(rest, k)
				continue
			}
			c.Res.Eval(1)
			c.Res.DistinctKey("retained", k.op, age > 4)
			c.Res.Count("loopback:retained-results-rechecked", 1)
			if after := render(k.v); after != k.snap {
				c.Res.Violate("C17:result-aliases-buffer:"+k.op+":real-transport", fmt.Sprintf("the value %s returned changed after %d later calls through the real transport: %s -> %s", k.op, age, truncateStr(k.snap, 300), truncateStr(after, 300)),
					map[string]any{"op": k.op, "before": k.snap, "after": after, "later_calls": age}, k.born)
			}
		}
		keep = rest
	}
	one := func(rr gen.R, w int) {
		cfg, serials := mk(w)
		u := mkClient(cfg)
		for k := 0; k < 6; k++ {
			pi := rr.Pick(3)
			name := ops[rr.Pick(len(ops))]
			op := rm.FindOp(name)
			a, p := rr.Args(op)
			aux := toAux(p)
			fixArgs(op, a, aux)
			calls.Add(1)
			c.Res.Count("loopback:calls:"+paths[pi], 1)
			if rr.Chance(0.12) {
				c.Res.Count("loopback:calls:discovery", 1)
				if devs, err := u.GetDevices(); err == nil {
					for i := range devs {
						adapter.ResultHook("GetDevices", &devs[i])
					}
					// every entry is the decoding of ONE reply of this discovery: the farm derives address and MAC from the serial
					// number, so an entry assembled from (or overwritten by) another reply's bytes shows, and so does a reply listed twice
					seen := map[uint32]bool{}
					if len(devs) > 32 {
						c.Res.Count("loopback:discoveries-with-more-than-32-entries", 1)
					}
					for i := range devs {
						sn := uint32(devs[i].SerialNumber)
						d := sn - 0x0d000001
						ix, sq := byte(d), byte(d>>8)
						ip := devs[i].IpAddress.To4()
						c.Res.Eval(1)
						if sn>>24 != 0x0d || ix >= 48 || ip == nil || ip[0] != 10 || ip[1] != sq || ip[2] != 0 || ip[3] != 1+ix || len(devs[i].MacAddress) != 6 || devs[i].MacAddress[0] != sq || devs[i].MacAddress[5] != ix {
							c.Res.Violate("C17:discovery:entry-not-one-reply", fmt.Sprintf("GetDevices (%d entries): entry %d is not the decoding of any single reply that was sent: serial %d address %v MAC %v", len(devs), i, sn, devs[i].IpAddress, devs[i].MacAddress),
								map[string]any{"entries": len(devs), "entry": i, "value": fmt.Sprintf("%+v", devs[i])}, calls.Load())
							break
						}
						if seen[sn] {
							c.Res.Violate("C17:discovery:reply-listed-twice", fmt.Sprintf("GetDevices (%d entries): controller %d, which answered once, is listed twice - an earlier reply's buffer was overwritten by a later reply", len(devs), sn),
								map[string]any{"entries": len(devs), "entry": i, "value": fmt.Sprintf("%+v", devs[i])}, calls.Load())
							break
						}
						seen[sn] = true
					}
				}
				continue
			}
			adapter.SafeCall(u, name, serials[pi], a, aux)
		}
	}
	rounds := c.N(60, 1500)
	for i := 0; i < rounds; i++ {
		if i%3 == 2 { // concurrent round
			var wg sync.WaitGroup
			for w := 0; w < 4; w++ {
				wg.Add(1)
				go func(w int) {
					defer wg.Done()
					one(gen.New(c.Seed, fmt.Sprintf("C17/loopback/%d/%d", i, w), c.Batch), w)
				}(w)
			}
			wg.Wait()
		} else {
			one(r, 0)
		}
		recheck(false)
	}
	fm.WaitIdle(time.Second)
	recheck(true)

	// ---- the real listener: bursts behind a busy callback
	cycles := c.N(10, 120)
	for cy := 0; cy < cycles; cy++ {
		port := freePort("127.0.0.3")
		if port == 0 {
			continue
		}
		addr := fmt.Sprintf("127.0.0.3:%d", port)
		u := mkClient(ClientCfg{Bind: workerIP(c, 0) + ":0", Listen: addr, Timeout: time.Second})
		type got struct {
			st   *types.Status
			snap string
		}
		var lmu sync.Mutex
		delivered := []got{}
		type gotErr struct {
			err  error
			text string
		}
		errs := []gotErr{}
		var connected atomic.Int64
		release := make(chan struct{})
		blockAt := 1 + r.Pick(4)
		l := &c04Listener{connected: &connected, on: func(s *types.Status) {
			lmu.Lock()
			delivered = append(delivered, got{s, render(s)})
			n := len(delivered)
			lmu.Unlock()
			if n == blockAt {
				select {
				case <-release:
				case <-time.After(3 * time.Second):
				}
			}
		}}
		l.errRet = true
		l.onErr = func(err error) {
			// the application keeps the errors it is handed (to log them later, in one go): what they say does not change
			lmu.Lock()
			errs = append(errs, gotErr{err, fmt.Sprintf("%v|%+v", err, err)})
			lmu.Unlock()
		}
		q := make(chan os.Signal, 1)
		done := make(chan error, 1)
		go func() { done <- u.Listen(l, q) }()
		for k := 0; k < 2000 && connected.Load() == 0; k++ {
			time.Sleep(time.Millisecond)
		}
		conn, err := net.Dial("udp4", addr)
		if err != nil || connected.Load() == 0 {
			c.Res.Inconcl("listener did not start")
			q <- os.Interrupt
			continue
		}
		burst := 6 + r.Pick(60)
		dropsBefore := rcvbufErrors()
		want := map[uint32]string{}
		order := []uint32{}
		for k := 0; k < burst; k++ {
			seqid := uint32(cy)<<12 + uint32(k) + 1
			ev := c17Event(0x07000000+uint32(cy), seqid)
			want[seqid] = fmt.Sprintf("%x", ev)
			order = append(order, seqid)
			conn.Write(ev)
			if k%4 == 2 {
				// a datagram the listener rejects (wrong length; another one each time) between the events
				junk := append([]byte{}, ev[:20+k%40]...)
				junk[8], junk[9] = byte(k), byte(cy)
				conn.Write(junk)
			}
			if k == blockAt+1 {
				time.Sleep(2 * time.Millisecond) // let the read loop reach the datagram behind the busy callback
			}
		}
		time.Sleep(5 * time.Millisecond)
		close(release)
		for k := 0; k < 3000; k++ {
			lmu.Lock()
			n := len(delivered)
			lmu.Unlock()
			if n >= burst {
				break
			}
			time.Sleep(time.Millisecond)
		}
		q <- os.Interrupt
		select {
		case <-done:
		case <-liveAfter(5 * time.Second):
			c.Res.Inconcl("listener did not stop")
		}
		conn.Close()
		time.Sleep(10 * time.Millisecond)
		dropped := rcvbufErrors() != dropsBefore
		lmu.Lock()
		seen := map[uint32]int{}
		for i, g := range delivered {
			c.Res.Eval(1)
			c.Res.Count("loopback:listener-events", 1)
			seqid := g.st.SequenceId
			seen[seqid]++
			w := map[string]any{"cycle": cy, "burst": burst, "busy_callback_at": blockAt, "position": i}
			if after := render(g.st); after != g.snap {
				c.Res.Violate("C17:event-changes-after-delivery:real-transport", fmt.Sprintf("a delivered event changed after later datagrams arrived: %s -> %s", truncateStr(g.snap, 300), truncateStr(after, 300)), w, int64(cy))
				continue
			}
			exp := c17EventStatus(uint32(g.st.SerialNumber), seqid)
			if _, ok := want[seqid]; !ok || exp != c17StatusKey(g.st) {
				c.Res.Violate("C17:event-from-another-datagram:real-transport", fmt.Sprintf("event %d of a burst of %d (callback busy at %d) is not the decoding of any datagram sent: sequence id %d, %s; the datagram with that id decodes to %s", i+1, burst, blockAt, seqid, c17StatusKey(g.st), exp), w, int64(cy))
				continue
			}
			if seen[seqid] > 1 {
				c.Res.Violate("C17:event-from-another-datagram:real-transport", fmt.Sprintf("the event with sequence id %d was delivered %d times in a burst of %d (callback busy at %d): a later datagram's content delivered in an earlier one's place", seqid, seen[seqid], burst, blockAt), w, int64(cy))
			}
		}
		for _, ge := range errs {
			c.Res.Eval(1)
			c.Res.Count("loopback:listener-errors-kept", 1)
			if now := fmt.Sprintf("%v|%+v", ge.err, ge.err); now != ge.text {
				c.Res.Violate("C17:error-changes-after-delivery:real-transport", fmt.Sprintf("an error handed to the listener's error callback reads differently after later datagrams arrived: %q -> %q", truncateStr(ge.text, 300), truncateStr(now, 300)), map[string]any{"cycle": cy}, int64(cy))
				break
			}
		}
		if !dropped && len(delivered) >= burst {
			for _, id := range order {
				if seen[id] == 0 {
					c.Res.Violate("C17:event-from-another-datagram:real-transport", fmt.Sprintf("the event with sequence id %d of a burst of %d was never delivered although %d events were", id, burst, len(delivered)), map[string]any{"cycle": cy, "burst": burst}, int64(cy))
					break
				}
			}
		}
		lmu.Unlock()
		c.Res.Count("loopback:listener-bursts", 1)
	}
}

// c17EchoReply: a valid reply whose result fields are a function of the request (serial, first argument word).
func c17EchoReply(req []byte) []byte { return echoReplyAny(req) }

func echoReplyAny(req []byte) []byte {
	if len(req) != 64 {
		return nil
	}
	var op *rm.Op
	for i := range rm.Ops {
		if rm.Ops[i].Fn == req[1] && !rm.Ops[i].Discovery {
			op = &rm.Ops[i]
		}
	}
	if op == nil || op.NoReply {
		return nil
	}
	serial := uint32(req[4]) | uint32(req[5])<<8 | uint32(req[6])<<16 | uint32(req[7])<<24
	h := serial*2654435761 ^ (uint32(req[8])|uint32(req[9])<<8|uint32(req[10])<<16|uint32(req[11])<<24)*40503
	msg := make([]byte, 64)
	l := op.ReplyLayout()
	msg[0], msg[1] = 0x17, op.Fn
	for _, f := range l.Fields {
		switch f.Kind {
		case rm.Bool:
			msg[f.Offset] = byte(h >> uint(f.Offset%20) & 1)
		case rm.U8:
			msg[f.Offset] = byte(h>>uint(f.Offset%13)) | 1
		case rm.U16, rm.U32, rm.IPv4, rm.MAC, rm.AddrPort, rm.Version:
			for i := 0; i < f.Kind.Size(); i++ {
				msg[f.Offset+i] = byte(h>>uint((i*5+f.Offset)%24)) | 1
			}
		case rm.Date:
			copy(msg[f.Offset:], []byte{0x20, 0x21 + byte(h%8), 1 + byte(h%9), 1 + byte(h>>4%9)})
		case rm.DateTime:
			copy(msg[f.Offset:], []byte{0x20, 0x21 + byte(h%8), 1 + byte(h%9), 1 + byte(h>>4%9), byte(h >> 8 % 10), byte(h >> 12 % 10), byte(h >> 16 % 10)})
		case rm.SysDate:
			copy(msg[f.Offset:], []byte{0x21 + byte(h%8), 1 + byte(h%9), 1 + byte(h>>4%9)})
		case rm.SysTime:
			copy(msg[f.Offset:], []byte{byte(h >> 8 % 10), byte(h >> 12 % 10), byte(h >> 16 % 10)})
		case rm.HHmm:
			copy(msg[f.Offset:], []byte{byte(h >> 8 % 10), byte(h >> 12 % 10)})
		case rm.PIN:
			copy(msg[f.Offset:], []byte{byte(h), byte(h >> 8), 1})
		}
	}
	copy(msg[4:8], req[4:8])
	switch op.Name { // echoed identifiers
	case "GetCardByID":
		copy(msg[8:12], req[8:12])
	case "GetTimeProfile":
		msg[8] = req[8]
	case "GetEvent":
		copy(msg[8:12], req[8:12])
		if msg[12] == 0xff {
			msg[12] = 1
		}
	case "GetDoorControlState":
		msg[8] = req[8]
		msg[9] = 1 + byte(h%3)
	}
	return msg
}

// c17Event: a well-formed event datagram whose fields are a function of (serial, sequence id).
func c17Event(serial, seqid uint32) []byte {
	op := rm.FindOp("GetStatus")
	l := op.ReplyLayout()
	msg := okReply(op, serial)
	h := seqid * 2654435761
	rm.EncodeField(msg, *l.Field("SequenceId"), rm.UVal(rm.U32, uint64(seqid)))
	rm.EncodeField(msg, *l.Field("EventIndex"), rm.UVal(rm.U32, uint64(seqid*3+1)))
	rm.EncodeField(msg, *l.Field("EventType"), rm.UVal(rm.U8, uint64(1+h%3)))
	rm.EncodeField(msg, *l.Field("CardNumber"), rm.UVal(rm.U32, uint64(h|1)))
	rm.EncodeField(msg, *l.Field("Door"), rm.UVal(rm.U8, uint64(1+h%4)))
	for k, name := range []string{"Door1State", "Door2State", "Door3State", "Door4State", "Door1Button", "Door2Button", "Door3Button", "Door4Button"} {
		rm.EncodeField(msg, *l.Field(name), rm.BoolVal(h>>uint(k+3)&1 == 1)) // the door maps of consecutive events differ
	}
	rm.EncodeField(msg, *l.Field("Timestamp"), rm.DateTimeVal(2024, 1+int(h%12), 1+int(h%28), int(h%24), int(h%60), int(h>>8%60)))
	rm.EncodeField(msg, *l.Field("SystemDate"), rm.Val{K: rm.SysDate, Y: 2024, Mo: 1 + int(h%12), D: 1 + int(h%28)})
	rm.EncodeField(msg, *l.Field("SystemTime"), rm.Val{K: rm.SysTime, H: int(h % 24), Mi: int(h % 60), S: int(h >> 8 % 60)})
	return msg
}

func c17EventStatus(serial, seqid uint32) string {
	h := seqid * 2654435761
	return fmt.Sprintf("index=%d card=%d door=%d ts=2024-%02d-%02d %02d:%02d:%02d", seqid*3+1, h|1, 1+h%4, 1+int(h%12), 1+int(h%28), int(h%24), int(h%60), int(h>>8%60))
}

func c17StatusKey(s *types.Status) string {
	return fmt.Sprintf("index=%d card=%d door=%d ts=%s", s.Event.Index, s.Event.CardNumber, s.Event.Door, adapter.PDateTime(s.Event.Timestamp).String())
}
