package main

import (
	"fmt"
	"net"
	"net/netip"
	"reflect"
	"sync"
	"time"

	codec "github.com/uhppoted/uhppote-core/encoding/UTO311-L0x"
	"github.com/uhppoted/uhppote-core/messages"
	"github.com/uhppoted/uhppote-core/types"

	"verif/harness/gen"
	rm "verif/harness/refmodel"
	"verif/harness/wk"
)

func init() { registry["C05"] = c05 }

type msgType struct {
	t      reflect.Type
	layout *rm.Layout
	som    byte
}

// messageTypes obtains the repository's own message structs through its dispatchers (one per registered
// function code) plus the two event types.
func messageTypes(c *Ctx) []msgType {
	out := []msgType{}
	for i := range rm.Layouts {
		l := &rm.Layouts[i]
		msg := make([]byte, 64)
		msg[0], msg[1] = 0x17, l.Fn
		var v any
		var err error
		switch l.Side {
		case rm.Request:
			v, err = messages.UnmarshalRequest(msg)
		case rm.Reply:
			v, err = messages.UnmarshalResponse(msg)
		case rm.EventMsg:
			out = append(out, msgType{reflect.TypeOf(messages.Event{}), l, 0x17})
			out = append(out, msgType{reflect.TypeOf(messages.EventV6_62{}), l, 0x19})
			continue
		}
		if err != nil || v == nil {
			c.Res.Violate("C05:dispatch:"+l.Name, fmt.Sprintf("dispatcher rejects a zero-payload %s (function 0x%02x): %v", l.Name, l.Fn, err), nil, 0)
			continue
		}
		t := reflect.TypeOf(v).Elem()
		if t.Name() != l.Name {
			c.Res.Violate("C05:dispatch:"+l.Name, fmt.Sprintf("dispatcher returns %s for function code 0x%02x, expected %s", t.Name(), l.Fn, l.Name), nil, 0)
			continue
		}
		out = append(out, msgType{t, l, 0x17})
	}
	// SetFirstCard (0xaa) is registered but not in the frozen API table: take it for the round trip only
	for _, side := range []int{0, 1} {
		msg := make([]byte, 64)
		msg[0], msg[1] = 0x17, 0xaa
		var v any
		if side == 0 {
			v, _ = messages.UnmarshalRequest(msg)
		} else {
			v, _ = messages.UnmarshalResponse(msg)
		}
		if v != nil {
			out = append(out, msgType{reflect.TypeOf(v).Elem(), nil, 0x17})
		}
	}
	return out
}

var (
	tDate     = reflect.TypeOf(types.Date{})
	tDateTime = reflect.TypeOf(types.DateTime{})
	tSysDate  = reflect.TypeOf(types.SystemDate{})
	tSysTime  = reflect.TypeOf(types.SystemTime{})
	tHHmm     = reflect.TypeOf(types.HHmm{})
	tPIN      = reflect.TypeOf(types.PIN(0))
	tVersion  = reflect.TypeOf(types.Version(0))
	tMAC      = reflect.TypeOf(types.MacAddress{})
	tSerial   = reflect.TypeOf(types.SerialNumber(0))
	tMsgType  = reflect.TypeOf(types.MsgType(0))
	tSOM      = reflect.TypeOf(types.SOM(0))
	tIP       = reflect.TypeOf(net.IP{})
	tHWAddr   = reflect.TypeOf(net.HardwareAddr{})
	tAddrPort = reflect.TypeOf(netip.AddrPort{})
)

// localDateTime: a civil date-time that exists in the process zone (constructed UTC -> local only).
func localDateTime(r gen.R) time.Time {
	// 0001-01-02 .. 9999-12-30 in seconds since the epoch
	const lo, hi = -62135510400, 253402128000
	var sec int64
	switch r.Pick(4) {
	case 0:
		sec = int64(r.Pick(4102444800)) // 1970..2100
	case 1:
		sec = int64(946684800 + r.Pick(1577836800)) // 2000..2050
	default:
		sec = lo + int64(r.Uint64()%uint64(hi-lo))
	}
	return time.Unix(sec, 0).In(time.Local)
}

// fill sets every field of a message struct to an in-domain value and returns the neutral values by field name.
func fill(r gen.R, v reflect.Value, vals rm.Vals, zeroDates bool) {
	t := v.Type()
	for i := 0; i < t.NumField(); i++ {
		f := v.Field(i)
		sf := t.Field(i)
		if sf.Anonymous {
			fill(r, f, vals, zeroDates)
			continue
		}
		name := sf.Name
		ft := sf.Type
		ptr := false
		if ft.Kind() == reflect.Ptr {
			ptr = true
			ft = ft.Elem()
		}
		set := func(x reflect.Value) {
			if ptr {
				if r.Chance(0.15) && ft == tHHmm {
					vals[name] = rm.HHmmVal(0, 0) // nil pointer == zero value
					return
				}
				p := reflect.New(ft)
				p.Elem().Set(x)
				f.Set(p)
			} else {
				f.Set(x)
			}
		}
		switch ft {
		case tMsgType, tSOM:
			// fixed by the tag
		case tSerial:
			s := r.U32()
			set(reflect.ValueOf(types.SerialNumber(s)))
			vals[name] = rm.UVal(rm.Serial, uint64(s))
		case tDate:
			if zeroDates || r.Chance(0.1) {
				set(reflect.ValueOf(types.Date{}))
				vals[name] = rm.ZeroDate()
			} else {
				d := r.Date()
				set(reflect.ValueOf(types.ToDate(d.Y, time.Month(d.Mo), d.D)))
				vals[name] = d
			}
		case tDateTime:
			if zeroDates || r.Chance(0.1) {
				set(reflect.ValueOf(types.DateTime{}))
				vals[name] = rm.ZeroDateTime()
			} else {
				tt := localDateTime(r)
				// a date-time an application made from its own clock has a fraction of a second: the protocol carries whole seconds - the
				// second the value is in, not the nearest one
				tt = tt.Add(time.Duration([]int{0, 0, 1, 499_999_999, 500_000_000, 750_000_000, 999_999_999}[r.Pick(7)]))
				set(reflect.ValueOf(types.DateTime(tt)))
				y, m, d := tt.Date()
				h, mi, s := tt.Clock()
				vals[name] = rm.DateTimeVal(y, int(m), d, h, mi, s)
			}
		case tSysDate:
			d := r.SysDate()
			set(reflect.ValueOf(types.SystemDate(time.Date(d.Y, time.Month(d.Mo), d.D, 12, 0, 0, 0, time.UTC))))
			vals[name] = rm.Val{K: rm.SysDate, Y: d.Y, Mo: d.Mo, D: d.D}
		case tSysTime:
			h, mi, s := r.Pick(24), r.Pick(60), r.Pick(60)
			set(reflect.ValueOf(types.SystemTime(time.Date(2000, 1, 1, h, mi, s, 0, time.UTC))))
			vals[name] = rm.Val{K: rm.SysTime, H: h, Mi: mi, S: s}
		case tHHmm:
			h := r.HHmm()
			set(reflect.ValueOf(types.NewHHmm(h.H, h.Mi)))
			if _, done := vals[name]; !done {
				vals[name] = h
			}
		case tPIN:
			p := r.PIN()
			set(reflect.ValueOf(types.PIN(p)))
			vals[name] = rm.UVal(rm.PIN, uint64(p))
		case tVersion:
			x := uint16(r.Pick(65536))
			set(reflect.ValueOf(types.Version(x)))
			vals[name] = rm.UVal(rm.Version, uint64(x))
		case tMAC:
			b := make([]byte, 6)
			for k := range b {
				b[k] = byte(r.Pick(256))
			}
			set(reflect.ValueOf(types.MacAddress(b)))
			vals[name] = rm.Val{K: rm.MAC, B: append([]byte{}, b...)}
		case tIP:
			ipv := r.IP()
			if r.Chance(0.5) {
				set(reflect.ValueOf(net.IPv4(ipv.B[0], ipv.B[1], ipv.B[2], ipv.B[3])))
			} else {
				set(reflect.ValueOf(net.IP{ipv.B[0], ipv.B[1], ipv.B[2], ipv.B[3]}))
			}
			vals[name] = ipv
		case tAddrPort:
			ipv := r.IP()
			port := uint16(r.Pick(65536))
			if r.Pick(8) == 0 {
				ipv, port = rm.IPVal(0, 0, 0, 0), []uint16{0, 0, 60001}[r.Pick(3)] // 0.0.0.0:0 is an address and a port like any other ("no listener")
			}
			set(reflect.ValueOf(netip.AddrPortFrom(netip.AddrFrom4([4]byte{ipv.B[0], ipv.B[1], ipv.B[2], ipv.B[3]}), port)))
			vals[name] = rm.Val{K: rm.AddrPort, B: ipv.B, U: uint64(port)}
		default:
			switch ft.Kind() {
			case reflect.Bool:
				b := r.Chance(0.5)
				set(reflect.ValueOf(b))
				vals[name] = rm.BoolVal(b)
			case reflect.Uint8:
				x := r.U8()
				set(reflect.ValueOf(x).Convert(ft))
				vals[name] = rm.UVal(rm.U8, uint64(x))
			case reflect.Uint16:
				x := uint16(r.Pick(65536))
				set(reflect.ValueOf(x).Convert(ft))
				vals[name] = rm.UVal(rm.U16, uint64(x))
			case reflect.Uint32:
				x := r.U32()
				set(reflect.ValueOf(x).Convert(ft))
				vals[name] = rm.UVal(rm.U32, uint64(x))
			default:
				panic(fmt.Sprintf("harness: C05 cannot fill field %s of type %v", name, ft))
			}
		}
	}
}

// canon renders a message struct field by field in a canonical, representation independent form.
func canon(v reflect.Value, out map[string]string) {
	t := v.Type()
	for i := 0; i < t.NumField(); i++ {
		f := v.Field(i)
		sf := t.Field(i)
		if sf.Anonymous {
			canon(f, out)
			continue
		}
		if f.Kind() == reflect.Ptr {
			if f.IsNil() {
				f = reflect.Zero(f.Type().Elem())
			} else {
				f = f.Elem()
			}
		}
		x := f.Interface()
		s := ""
		switch y := x.(type) {
		case types.MsgType, types.SOM:
			continue
		case types.Date:
			s = adapterDate(y)
		case types.DateTime:
			if y.IsZero() {
				s = "datetime:zero"
			} else {
				s = time.Time(y).Format("2006-01-02 15:04:05")
			}
		case types.SystemDate:
			if y.IsZero() {
				s = "date:zero"
			} else {
				s = time.Time(y).Format("2006-01-02")
			}
		case types.SystemTime:
			s = time.Time(y).Format("15:04:05")
		case types.HHmm:
			s = y.String()
		case types.MacAddress:
			s = fmt.Sprintf("%x", []byte(y))
		case net.IP:
			if y4 := y.To4(); y4 != nil {
				s = fmt.Sprintf("%d.%d.%d.%d", y4[0], y4[1], y4[2], y4[3])
			} else {
				s = fmt.Sprintf("ip?%x", []byte(y))
			}
		case netip.AddrPort:
			s = y.String()
		default:
			s = fmt.Sprintf("%v", x)
		}
		out[sf.Name] = s
	}
}

func adapterDate(d types.Date) string {
	if d.IsZero() {
		return "date:zero"
	}
	return time.Time(d).Format("2006-01-02")
}

// c05Case: one value of one message type - fill, encode, compare with the reference encoding, decode, compare, then
// randomise the bytes outside every field and decode again. Safe for concurrent use (r belongs to the caller).
func c05Case(c *Ctx, r gen.R, mt msgType, zero bool, caseNo int64, zone, phase string) {
	v := reflect.New(mt.t).Elem()
	vals := rm.Vals{}
	fill(r, v, vals, zero)
	var enc []byte
	var err error
	func() {
		defer func() {
			if p := recover(); p != nil {
				err = fmt.Errorf("panic: %v", p)
			}
		}()
		enc, err = codec.Marshal(v.Interface())
	}()
	c.Res.Eval(1)
	if err != nil {
		c.Res.Violate("C05:"+mt.t.Name()+":encode", fmt.Sprintf("Marshal(%s) failed for an in-domain value: %v", mt.t.Name(), err), map[string]any{"zone": zone, "phase": phase, "values": vals.String()}, caseNo)
		return
	}
	c.Res.DistinctKey(mt.t.Name(), enc)
	if mt.layout != nil {
		want := rm.Encode(mt.layout, mt.som, vals)
		if string(want) != string(enc) {
			diff := diffOffsets(want, enc)
			key := "C05:" + mt.t.Name() + ":encoding:" + fieldAt(mt.layout, diff[0])
			c.Res.Violate(key, fmt.Sprintf("Marshal(%s) differs from the protocol encoding at offsets %v (%s)", mt.t.Name(), diff, fieldAt(mt.layout, diff[0])),
				map[string]any{"zone": zone, "phase": phase, "values": vals.String(), "expected": wk.Hex(want), "got": wk.Hex(enc)}, caseNo)
			return
		}
	}
	before := map[string]string{}
	canon(v, before)

	decode := func(b []byte) (map[string]string, error) {
		w := reflect.New(mt.t)
		var derr error
		func() {
			defer func() {
				if p := recover(); p != nil {
					derr = fmt.Errorf("panic: %v", p)
				}
			}()
			derr = codec.Unmarshal(b, w.Interface())
		}()
		if derr != nil {
			return nil, derr
		}
		m := map[string]string{}
		canon(w.Elem(), m)
		return m, nil
	}
	// every fourth case: a damaged copy of the message (a non-decimal nibble somewhere inside a field, a wrong length) is decoded
	// first, by this goroutine - whatever that leaves behind must not show in the decode that follows
	if r.Pick(4) == 0 && mt.layout != nil && len(mt.layout.Fields) > 0 {
		bad := append([]byte{}, enc...)
		f := mt.layout.Fields[r.Pick(len(mt.layout.Fields))]
		if f.Kind.Size() > 1 {
			bad[f.Offset+1+r.Pick(f.Kind.Size()-1)] = byte(0xa0 + r.Pick(0x5f))
		} else {
			bad[f.Offset] = 0xfa
		}
		decode(bad)
		decode(bad[:40])
	}
	buf := append([]byte{}, enc...)
	after, derr := decode(buf)
	if derr != nil {
		c.Res.Violate("C05:"+mt.t.Name()+":decode", fmt.Sprintf("Unmarshal(Marshal(%s)) failed: %v", mt.t.Name(), derr), map[string]any{"zone": zone, "phase": phase, "values": vals.String(), "bytes": wk.Hex(enc)}, caseNo)
		return
	}
	bad := ""
	for k, b := range before {
		if after[k] != b {
			bad = k
			key := "C05:" + mt.t.Name() + ":roundtrip:" + k
			if b == "datetime:zero" {
				key = "C05:zero-datetime"
			}
			c.Res.Violate(key, fmt.Sprintf("%s.%s: decoding the encoding of %s yields %s (zone %s)", mt.t.Name(), k, b, after[k], zone),
				map[string]any{"zone": zone, "phase": phase, "type": mt.t.Name(), "field": k, "before": b, "after": after[k], "bytes": wk.Hex(enc)}, caseNo)
			break
		}
	}
	if bad != "" {
		return
	}
	// the decoded value shares no memory with the buffer it was decoded from
	{
		w := reflect.New(mt.t)
		b2 := append([]byte{}, enc...)
		var aerr error
		func() {
			defer func() {
				if p := recover(); p != nil {
					aerr = fmt.Errorf("panic: %v", p)
				}
			}()
			aerr = codec.Unmarshal(b2, w.Interface())
		}()
		if aerr == nil {
			for i := range b2 {
				b2[i] ^= 0x5a
			}
			m := map[string]string{}
			canon(w.Elem(), m)
			for k, b := range before {
				if m[k] != b {
					c.Res.Violate("C05:"+mt.t.Name()+":aliases-input:"+k, fmt.Sprintf("%s.%s changed from %s to %s when the buffer it was decoded from was overwritten", mt.t.Name(), k, b, m[k]), map[string]any{"zone": zone, "phase": phase, "bytes": wk.Hex(enc)}, caseNo)
					break
				}
			}
		}
	}
	if caseNo%6007 == 0 {
		c.Res.Sample(map[string]any{"type": mt.t.Name(), "zone": zone, "bytes": wk.Hex(enc), "decoded": fmt.Sprint(after)})
	}
	// decoding into a variable that already holds another message of the type (an application reusing one struct): the
	// result is the new message, nothing of the old one survives
	if r.Pick(3) == 0 {
		prevV := reflect.New(mt.t).Elem()
		fill(r, prevV, rm.Vals{}, false)
		if prevEnc, perr := codec.Marshal(prevV.Interface()); perr == nil {
			w := reflect.New(mt.t)
			var derr error
			heldSlices, heldCopies, heldNames := [][]byte{}, []string{}, []string{}
			func() {
				defer func() {
					if p := recover(); p != nil {
						derr = fmt.Errorf("panic: %v", p)
					}
				}()
				if derr = codec.Unmarshal(prevEnc, w.Interface()); derr == nil {
					// the application copies the addresses out of the first message before it reuses the variable
					for fi := 0; fi < w.Elem().NumField(); fi++ {
						if f := w.Elem().Field(fi); f.Kind() == reflect.Slice && f.Type().Elem().Kind() == reflect.Uint8 && f.Len() > 0 {
							heldSlices = append(heldSlices, f.Bytes())
							heldCopies = append(heldCopies, string(f.Bytes()))
							heldNames = append(heldNames, mt.t.Field(fi).Name)
						}
					}
					derr = codec.Unmarshal(enc, w.Interface())
				}
			}()
			for hi := range heldSlices {
				if string(heldSlices[hi]) != heldCopies[hi] {
					c.Res.Violate("C05:"+mt.t.Name()+":earlier-result-changes:"+heldNames[hi], fmt.Sprintf("%s.%s: the address taken from a decoded message (%x) reads %x after the next message was decoded into the same variable", mt.t.Name(), heldNames[hi], []byte(heldCopies[hi]), heldSlices[hi]), map[string]any{"zone": zone, "phase": phase, "bytes": wk.Hex(enc), "previous": wk.Hex(prevEnc)}, caseNo)
					break
				}
			}
			c.Res.Eval(1)
			if derr != nil {
				c.Res.Violate("C05:"+mt.t.Name()+":decode-into-used-variable", fmt.Sprintf("%s: decoding into a variable that already held another message failed: %v", mt.t.Name(), derr), map[string]any{"zone": zone, "phase": phase, "bytes": wk.Hex(enc)}, caseNo)
			} else {
				m := map[string]string{}
				canon(w.Elem(), m)
				for k, b := range before {
					if m[k] != b {
						c.Res.Violate("C05:"+mt.t.Name()+":decode-into-used-variable:"+k, fmt.Sprintf("%s.%s: decoding the encoding of %s into a variable that already held another message yields %s (zone %s)", mt.t.Name(), k, b, m[k], zone),
							map[string]any{"zone": zone, "phase": phase, "type": mt.t.Name(), "field": k, "before": b, "after": m[k], "bytes": wk.Hex(enc), "previous": wk.Hex(prevEnc)}, caseNo)
						break
					}
				}
			}
		}
	}
	// bytes that belong to no field must not matter
	if mt.layout != nil {
		cov := mt.layout.Covered()
		noisy := append([]byte{}, enc...)
		for k := 2; k < 64; k++ {
			if !cov[k] {
				noisy[k] = byte(r.Pick(256))
			}
		}
		again, nerr := decode(noisy)
		c.Res.Eval(1)
		if nerr != nil {
			c.Res.Violate("C05:"+mt.t.Name()+":unused-bytes", fmt.Sprintf("%s: decode fails when bytes outside every field change: %v", mt.t.Name(), nerr), map[string]any{"bytes": wk.Hex(noisy)}, caseNo)
		} else {
			for k, b := range after {
				if again[k] != b {
					c.Res.Violate("C05:"+mt.t.Name()+":unused-bytes", fmt.Sprintf("%s.%s changes from %s to %s when only bytes outside every field change", mt.t.Name(), k, b, again[k]),
						map[string]any{"bytes": wk.Hex(noisy), "clean": wk.Hex(enc)}, caseNo)
					break
				}
			}
		}
	}
}

func c05(c *Ctx) {
	c.Res.Rule = "for each of the repository's message structs (obtained through its own dispatchers) every field is filled from in-domain generators, encoded, checked against the reference encoding, decoded into a fresh value and compared field by field in canonical form; then every byte that belongs to no field is randomised and the decode must not change; dispatchers are probed with all 256 function codes x lengths 0..128 x protocol ids; the process time zone is that of the batch (TZ); distinct = distinct (type, encoded bytes) pairs + dispatcher cases"
	r := c.Rng("main")
	zone := time.Local.String()
	c.Res.Note("zone", zone)
	// ---- first use of every message type, by 8 goroutines at the same moment, before anything else has touched the codec in this
	// process (the types are named statically here: asking the dispatchers for them would decode them first); the first batch
	// repeats this phase in fresh child processes
	{
		static := []msgType{}
		for i := range rm.Layouts {
			l := &rm.Layouts[i]
			if l.Side == rm.EventMsg {
				static = append(static, msgType{staticMsgTypes["Event"], l, 0x17}, msgType{staticMsgTypes["EventV6_62"], l, 0x19})
			} else if t, ok := staticMsgTypes[l.Name]; ok {
				static = append(static, msgType{t, l, 0x17})
			}
		}
		stages := []func(int){}
		for ti := range static {
			mt := static[ti]
			stages = append(stages, func(g int) {
				rr := gen.New(c.Seed, fmt.Sprintf("C05/first-use/%s/%d", mt.t.Name(), g), c.Batch)
				for k := 0; k < 2; k++ {
					c05Case(c, rr, mt, false, int64(-1000), zone, "concurrent-first-use")
				}
			})
		}
		if c.MBatch < 4 || c.Mode == "firstuse" { // (the other batches of a mode leave it to these and to the fresh child processes)
			firstUse(c, "C05:first-use", "the codec", 8, stages...)
		}
		if c.Mode == "firstuse" {
			return
		}
	}
	typesList := messageTypes(c)
	c.Res.Count("message-types", int64(len(typesList)))
	var caseNo int64
	N := c.N(400, 4000)
	if c.Mode == "utc-deep" {
		N = c.N(4000, 60000)
	}

	// ---- the sequential sweep, then a sustained concurrent phase on random types
	if c.Mode != "race" {
		for _, mt := range typesList {
			for i := 0; i < N; i++ {
				caseNo++
				c05Case(c, r, mt, i == 0, caseNo, zone, "sequential")
			}
		}
	}
	{
		G := 8
		per := N * len(typesList) / 4 / G
		var wg sync.WaitGroup
		for g := 0; g < G; g++ {
			wg.Add(1)
			go func(g int) {
				defer wg.Done()
				rr := gen.New(c.Seed, fmt.Sprintf("C05/concurrent/%d", g), c.Batch)
				for k := 0; k < per; k++ {
					c05Case(c, rr, typesList[rr.Pick(len(typesList))], rr.Chance(0.02), int64(-2000-g), zone, "concurrent")
				}
			}(g)
		}
		wg.Wait()
		c.Res.Count("concurrent-phase:cases", int64(G*per))
	}

	// ---- dispatchers (time zone independent: first batch only, plus every batch in utc-deep mode)
	if c.Batch == 0 || c.Mode == "utc-deep" {
		reqCodes, repCodes := map[byte]string{}, map[byte]string{}
		for _, l := range rm.Layouts {
			if l.Side == rm.Request {
				reqCodes[l.Fn] = l.Name
			} else if l.Side == rm.Reply {
				repCodes[l.Fn] = l.Name
			}
		}
		reqCodes[0xaa], repCodes[0xaa] = "SetFirstCardRequest", "SetFirstCardResponse"
		for _, som := range []byte{0x17, 0x19, 0x00, 0x18, 0x16, 0xff} {
			for code := 0; code < 256; code++ {
				for _, n := range []int{0, 1, 2, 7, 8, 32, 63, 64, 65, 66, 127, 128, r.Pick(129), r.Pick(129)} {
					for side := 0; side < 2; side++ {
						caseNo++
						msg := make([]byte, n)
						if n > 0 {
							msg[0] = som
						}
						if n > 1 {
							msg[1] = byte(code)
						}
						if n >= 8 {
							msg[4] = 1
						}
						var got any
						var err error
						func() {
							defer func() {
								if p := recover(); p != nil {
									err = fmt.Errorf("panic: %v", p)
									c.Res.Violate("C05:dispatch:panic", fmt.Sprintf("dispatcher panicked on som=%02x code=%02x len=%d: %v", som, code, n, p), nil, caseNo)
								}
							}()
							if side == 0 {
								got, err = messages.UnmarshalRequest(msg)
							} else {
								got, err = messages.UnmarshalResponse(msg)
							}
						}()
						c.Res.Eval(1)
						c.Res.DistinctKey("dispatch", side, som, code, n)
						codes := reqCodes
						if side == 1 {
							codes = repCodes
						}
						name, registered := codes[byte(code)]
						if som == 0x19 && code == 0x20 && side == 1 {
							continue // status/event framing of v6.62 firmware: don't-care for the response dispatcher (requests are never framed 0x19)
						}
						shouldAccept := n == 64 && som == 0x17 && registered
						sideName := []string{"UnmarshalRequest", "UnmarshalResponse"}[side]
						switch {
						case shouldAccept && (err != nil || got == nil):
							c.Res.Violate("C05:dispatch:rejects-known", fmt.Sprintf("%s rejects function code 0x%02x (%s): %v", sideName, code, name, err), nil, caseNo)
						case shouldAccept && reflect.TypeOf(got).Elem().Name() != name:
							c.Res.Violate("C05:dispatch:wrong-type", fmt.Sprintf("%s returns %s for function code 0x%02x, expected %s", sideName, reflect.TypeOf(got).Elem().Name(), code, name), nil, caseNo)
						case !shouldAccept && err == nil:
							c.Res.Violate("C05:dispatch:accepts-invalid", fmt.Sprintf("%s accepts protocol id 0x%02x, function code 0x%02x, length %d", sideName, som, code, n), map[string]any{"som": som, "code": code, "len": n}, caseNo)
						}
					}
				}
			}
		}
		// all lengths 0..128 for a few codes
		for n := 0; n <= 128; n++ {
			for _, code := range []byte{0x20, 0x94, 0x50, 0x01} {
				msg := make([]byte, n)
				if n > 1 {
					msg[0], msg[1] = 0x17, code
				}
				_, e1 := messages.UnmarshalRequest(msg)
				_, e2 := messages.UnmarshalResponse(msg)
				c.Res.Eval(2)
				if n != 64 && (e1 == nil || e2 == nil) {
					c.Res.Violate("C05:dispatch:accepts-invalid", fmt.Sprintf("dispatcher accepts a %d byte message (code %02x)", n, code), nil, caseNo)
				}
			}
		}
		c.Res.Count("dispatcher-probes", 1)
	}

	// ---- what the dispatchers return is the decoding of the datagram it was given - and stays that: a later dispatch (of the same
	// function code or another) does not change a message returned earlier
	{
		type held struct {
			v    any
			enc  string
			what string
		}
		ring := []held{}
		check := func(h held) bool {
			enc, err := codec.Marshal(h.v)
			if err != nil || string(enc) != h.enc {
				c.Res.Violate("C05:dispatch:result-changes-after-a-later-dispatch", fmt.Sprintf("the message the dispatcher returned for %s no longer encodes to the datagram it was decoded from after later datagrams were dispatched (now %x, err %v)", h.what, enc, err), map[string]any{"datagram": wk.Hex([]byte(h.enc))}, caseNo)
				return false
			}
			return true
		}
		ops := reqOps()
		bad := 0
		for i := 0; i < c.N(3000, 30000) && bad < 3; i++ {
			caseNo++
			op := ops[r.Pick(len(ops))]
			if i%5 < 3 && len(ring) > 0 {
				op = ops[(i/7)%len(ops)] // the same few function codes come back again and again
			}
			a, _ := r.Args(op)
			serial := r.Serial()
			var msg []byte
			var v any
			var err error
			side := "request"
			if i%2 == 0 || op.NoReply || op.Discovery {
				msg = op.Request(serial, a)
				v, err = messages.UnmarshalRequest(msg)
			} else {
				side = "reply"
				msg = validReply(r, op, serial, a)
				if msg == nil {
					continue
				}
				v, err = messages.UnmarshalResponse(msg)
			}
			c.Res.Eval(1)
			if err != nil || v == nil {
				continue // what the dispatcher accepts is judged above
			}
			enc, merr := codec.Marshal(v)
			if merr != nil {
				continue
			}
			for _, h := range ring {
				if !check(h) {
					bad++
					break
				}
			}
			ring = append(ring, held{v, string(enc), fmt.Sprintf("a %s %s (function 0x%02x)", op.Name, side, op.Fn)})
			if len(ring) > 12 {
				ring = ring[1:]
			}
			c.Res.Count("dispatcher-results-held-across-later-dispatches", 1)
		}
	}
}
