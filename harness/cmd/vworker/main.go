// vworker executes one batch of one property's workload against the library built from /repo's
// current working tree (tags: verif) and writes what its monitors observed as JSON.
package main

import (
	"flag"
	"fmt"
	"os"
	"runtime"
	"runtime/debug"
	"sort"
	"strings"
	"time"
	_ "time/tzdata"

	"verif/harness/adapter"
	"verif/harness/gen"
	"verif/harness/wk"
)

type Ctx struct {
	Prop    string
	Tier    string
	Seed    uint64
	Batch   int
	NBatch  int
	MBatch  int    // index among the batches of the same mode
	MNBatch int    // number of batches of the same mode (partitions of exhaustive enumerations)
	Mode    string // sub-mode within a property (e.g. "race", "strace", "tz")
	Res     *wk.Result
	start   time.Time
}

// NBatchOr1: number of batches of this batch's mode (at least 1).
func (c *Ctx) NBatchOr1() int {
	if c.MNBatch > 0 {
		return c.MNBatch
	}
	return 1
}

func (c *Ctx) Thorough() bool { return c.Tier == "thorough" }
func (c *Ctx) Rng(stream string) gen.R {
	return gen.New(c.Seed, c.Prop+"/"+stream, c.Batch)
}

// N picks the per-batch case count for the tier.
func (c *Ctx) N(quick, thorough int) int {
	if c.Thorough() {
		return thorough
	}
	return quick
}

var registry = map[string]func(*Ctx){}

func main() {
	prop := flag.String("prop", "", "property id")
	tier := flag.String("tier", "quick", "quick|thorough")
	seed := flag.Uint64("seed", 1, "VERIF_SEED")
	batch := flag.Int("batch", 0, "batch index")
	nbatch := flag.Int("nbatch", 1, "number of batches")
	mode := flag.String("mode", "", "sub-mode")
	mbatch := flag.Int("mbatch", -1, "batch index within the mode")
	mnbatch := flag.Int("mnbatch", -1, "number of batches of the mode")
	out := flag.String("out", "", "result file")
	reportAs := flag.String("report-as", "", "report the violations of this workload under another property id")
	onlyKeys := flag.String("only-keys", "", "with -report-as: comma separated substrings; violations whose key contains none are dropped")
	flag.Parse()

	f, ok := registry[*prop]
	if !ok {
		ids := []string{}
		for k := range registry {
			ids = append(ids, k)
		}
		sort.Strings(ids)
		fmt.Fprintf(os.Stderr, "vworker: unknown property %q (have %v)\n", *prop, ids)
		os.Exit(2)
	}
	debug.SetGCPercent(200)
	if *mbatch < 0 || *mnbatch <= 0 {
		*mbatch, *mnbatch = *batch, *nbatch
	}
	c := &Ctx{Prop: *prop, Tier: *tier, Seed: *seed, Batch: *batch, NBatch: *nbatch, MBatch: *mbatch, MNBatch: *mnbatch, Mode: *mode, start: time.Now()}
	c.Res = wk.New(*prop, *tier, *seed, *batch)
	c.Res.Env = fmt.Sprintf("TZ=%s mode=%s GOMAXPROCS=%d", os.Getenv("TZ"), *mode, runtime.GOMAXPROCS(0))
	if tz := os.Getenv("TZ"); tz != "" && tz != "UTC" {
		// a calendar day that the process zone skipped entirely is outside the domain of every date property
		zo := newZoneOracle(time.Local)
		gen.DayFilter = func(y, m, d int) bool { return zo.dayHasInstant(y, m, d) }
	}
	if *prop != "C04" { // C04 reports panics itself, with the input that caused them
		adapter.OnPanic = func(op string, r any, stack string) {
			if !strings.Contains(stack, "github.com/uhppoted/uhppote-core/") {
				c.Res.Inconcl(fmt.Sprintf("panic outside the library while calling %s: %v", op, r))
				return
			}
			if len(stack) > 3000 {
				stack = stack[:3000]
			}
			c.Res.Violate(*prop+":panic:"+op, fmt.Sprintf("%s panicked instead of returning a value or an error: %v", op, r), map[string]any{"op": op, "panic": fmt.Sprint(r), "stack": stack}, -1)
		}
	}
	f(c)
	if *reportAs != "" {
		// a borrowed workload: keep what concerns the borrowing property, under its name
		keep := []wk.Violation{}
		for _, v := range c.Res.Violations {
			for _, k := range strings.Split(*onlyKeys, ",") {
				if k != "" && strings.Contains(v.Key, k) {
					v.Key = *reportAs + strings.TrimPrefix(v.Key, *prop)
					v.What = "(workload of " + *prop + ") " + v.What
					keep = append(keep, v)
					break
				}
			}
		}
		if d := len(c.Res.Violations) - len(keep); d > 0 {
			c.Res.Note("violations-of-"+*prop+"-not-concerning-"+*reportAs, fmt.Sprint(d))
		}
		c.Res.Violations, c.Res.NViolations, c.Res.Property = keep, int64(len(keep)), *reportAs
		c.Res.Rule = ""
		obs := map[string]int64{}
		for k, v := range c.Res.Observed {
			if strings.HasPrefix(k, "max:") {
				obs["max:"+*prop+"-workload:"+strings.TrimPrefix(k, "max:")] = v
			} else {
				obs[*prop+"-workload:"+k] = v
			}
		}
		c.Res.Observed = obs
	}
	c.Res.Note("wall_s", fmt.Sprintf("%.2f", time.Since(c.start).Seconds()))
	if *out == "" {
		*out = "/dev/stdout"
	}
	if err := c.Res.Write(*out); err != nil {
		fmt.Fprintf(os.Stderr, "vworker: cannot write result: %v\n", err)
		os.Exit(2)
	}
}
