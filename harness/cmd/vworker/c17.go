package main

import (
	"fmt"
	"net"
	"net/netip"
	"os"
	"reflect"
	"time"

	"github.com/uhppoted/uhppote-core/messages"
	"github.com/uhppoted/uhppote-core/types"
	"github.com/uhppoted/uhppote-core/uhppote"

	"verif/harness/adapter"
	"verif/harness/gen"
	rm "verif/harness/refmodel"
	"verif/harness/wk"
)

func init() { registry["C17"] = c17 }

// route: the driver method and address a call for a controller must use, computed from a configuration.
func refRoute(cfg ClientCfg, serial uint32) (string, string) {
	bc := "255.255.255.255:60000"
	if cfg.Broadcast != "" {
		bc = cfg.Broadcast
	}
	var dev *DevCfg
	for i := range cfg.Devices {
		if cfg.Devices[i].ID == serial {
			dev = &cfg.Devices[i] // later entries with the same id replace earlier ones
		}
	}
	if dev == nil || dev.Addr == "" {
		return "BroadcastTo", bc
	}
	ap := netip.MustParseAddrPort(dev.Addr)
	if ap.Port() == 0 || ap.Addr() == netip.IPv4Unspecified() {
		return "BroadcastTo", bc
	}
	proto := dev.Proto
	if dev.NewDevice && proto != "tcp" {
		proto = "udp"
	}
	if proto == "tcp" {
		return "SendTCP", dev.Addr
	}
	return "SendUDP", dev.Addr
}

func c17(c *Ctx) {
	if c.Mode == "loopback" {
		c17Loopback(c)
		return
	}
	c.Res.Rule = "random histories of {construct a client from caller-owned data, mutate the caller's device list / door-name slices / the map returned by DeviceList, call operations, overwrite every buffer the transport delivered, compare}: the recorded (transport method, address) of every call must equal the route of the ORIGINAL configuration, argument snapshots (cards, profiles, tasks, maps, IPs, passcode lists) must be unchanged by a call, result snapshots must survive buffer reuse, clones must be equal and disjoint; distinct = distinct (step kind, operation, mutation kind) keys x configurations"
	r := c.Rng("main")
	var caseNo int64
	N := c.N(6000, 200000)

	for i := 0; i < N; i++ {
		caseNo++
		// ---- construct
		nd := r.Pick(6) // 0: a client built without any controller
		cfg := ClientCfg{Bind: "0.0.0.0:0", Listen: "0.0.0.0:60001"}
		if r.Chance(0.6) {
			cfg.Broadcast = fmt.Sprintf("192.168.%d.255:%d", r.Pick(256), 60000+r.Pick(3))
		}
		for k := 0; k < nd; k++ {
			dc := DevCfg{ID: r.Serial(), Name: fmt.Sprintf("ctrl-%d", k), Proto: []string{"udp", "tcp", "", "any", "TCP"}[r.Pick(5)], NewDevice: r.Chance(0.5), Doors: [][]string{{"front", "back", "side", "garage"}, {"front", "", "side", ""}, {"", "", "", "d"}}[r.Pick(3)][:1+r.Pick(4)]}
			switch r.Pick(6) {
			case 0:
				dc.Addr = ""
			case 1:
				dc.Addr = fmt.Sprintf("0.0.0.0:%d", r.Port())
			case 2:
				dc.Addr = fmt.Sprintf("10.0.%d.%d:0", r.Pick(256), 1+r.Pick(254))
			default:
				dc.Addr = fmt.Sprintf("10.%d.%d.%d:%d", r.Pick(256), r.Pick(256), 1+r.Pick(254), r.Port())
			}
			cfg.Devices = append(cfg.Devices, dc)
		}
		devices := mkDevices(cfg) // caller owned
		u := uhppote.NewUHPPOTE(types.BindAddr{AddrPort: addrPort(cfg.Bind)}, types.BroadcastAddr{AddrPort: addrPort(cfg.Broadcast)}, types.ListenAddr{AddrPort: addrPort(cfg.Listen)}, time.Second, devices, false)
		d := &adapter.MemDriver{Scribble: true}
		adapter.Install(u, d)
		origDoors := map[uint32][]string{}
		for _, dc := range cfg.Devices {
			origDoors[dc.ID] = append([]string{}, dc.Doors...)
		}

		// ---- mutate caller-side data
		mut := r.Pick(8)
		mutName := []string{"none", "addresses", "protocols", "door-names", "reorder+ids", "append/truncate", "DeviceList-map", "everything"}[mut]
		if mut == 1 || mut == 7 {
			for k := range devices {
				devices[k].Address = types.ControllerAddr{AddrPort: netip.MustParseAddrPort(fmt.Sprintf("172.16.%d.%d:%d", r.Pick(256), 1+r.Pick(254), 1+r.Pick(65535)))}
			}
		}
		if mut == 2 || mut == 7 {
			for k := range devices {
				if devices[k].Protocol == "tcp" {
					devices[k].Protocol = "udp"
				} else {
					devices[k].Protocol = "tcp"
				}
			}
		}
		if mut == 3 || mut == 7 {
			for k := range devices {
				for j := range devices[k].Doors {
					devices[k].Doors[j] = "CHANGED"
				}
			}
			for k := range cfg.Devices { // the slices the devices were built from
				for j := range cfg.Devices[k].Doors {
					cfg.Devices[k].Doors[j] = "CHANGED-SOURCE"
				}
			}
		}
		if mut == 4 || mut == 7 {
			for k := range devices {
				devices[k].DeviceID ^= 0x5a5a5a5a
				devices[k].Name = "renamed"
			}
		}
		if mut == 5 || mut == 7 {
			devices = append(devices[:0], uhppote.Device{DeviceID: 1, Address: types.ControllerAddr{AddrPort: netip.MustParseAddrPort("1.1.1.1:1")}})
		}
		if mut == 6 || mut == 7 {
			list := u.DeviceList()
			for id, dev := range list {
				dev.Address = types.ControllerAddr{AddrPort: netip.MustParseAddrPort("9.9.9.9:9")}
				dev.Protocol = "tcp"
				list[id] = dev
			}
			list[424242] = uhppote.Device{DeviceID: 424242, Address: types.ControllerAddr{AddrPort: netip.MustParseAddrPort("8.8.8.8:8")}}
			// ... nor for any other client: one built without controllers afterwards still broadcasts for that serial number
			{
				u2 := uhppote.NewUHPPOTE(types.BindAddr{AddrPort: addrPort(cfg.Bind)}, types.BroadcastAddr{AddrPort: addrPort(cfg.Broadcast)}, types.ListenAddr{AddrPort: addrPort(cfg.Listen)}, time.Second, nil, false)
				d2 := &adapter.MemDriver{Scribble: true}
				adapter.Install(u2, d2)
				gt := rm.FindOp("GetTime")
				reply2 := validReply(r, gt, 424242, rm.Vals{})
				d2.Script = func(adapter.Invocation) ([][]byte, error) { return [][]byte{reply2}, nil }
				adapter.SafeCall(u2, "GetTime", 424242, rm.Vals{}, adapter.Aux{})
				c.Res.Eval(1)
				if inv := d2.Invocations(); len(inv) != 1 || inv[0].Method != "BroadcastTo" {
					m, a := "", ""
					if len(inv) > 0 {
						m, a = inv[0].Method, inv[0].Addr
					}
					c.Res.Violate("C17:route:DeviceList-map", fmt.Sprintf("an entry written into the map returned by one client's DeviceList() changed where ANOTHER client (built without controllers) sends: %s %s instead of a broadcast", m, a), map[string]any{"config": fmt.Sprintf("%+v", cfg), "mutation": mutName}, caseNo)
				}
			}
			for id := range list {
				if r.Chance(0.3) {
					delete(list, id)
				}
			}
		}
		// restore the expectations' view of door names (cfg.Devices[].Doors was scribbled on purpose)
		c.Res.DistinctKey("config", mutName, nd, cfg.Broadcast != "")
		c.Res.Count("mutation:"+mutName, 1)

		// door names held by the client are those it was built with
		if mut == 3 || mut == 7 {
			for id, dev := range u.DeviceList() {
				if want, ok := origDoors[id]; ok {
					c.Res.Eval(1)
					if !reflect.DeepEqual(append([]string{}, dev.Doors...), want) && len(want)+len(dev.Doors) > 0 {
						c.Res.Violate("C17:config:door-names", fmt.Sprintf("the client's door names for controller %d changed from %v to %v after the caller changed its own slices", id, want, dev.Doors),
							map[string]any{"config": fmt.Sprintf("%+v", cfg), "mutation": mutName}, caseNo)
					}
				}
			}
		}

		// ---- two calls in a row for one controller, each with a map of its own: the map given to the first call is still what it
		// was after the second (the application goes on using it - for the next controller, say)
		if i%3 == 0 {
			ak := rm.FindOp("ActivateKeypads")
			s := r.Serial()
			if len(cfg.Devices) > 0 && r.Chance(0.7) {
				s = cfg.Devices[r.Pick(len(cfg.Devices))].ID
			}
			d.Reset()
			d.Script = func(adapter.Invocation) ([][]byte, error) {
				rep := okReply(ak, s)
				rep[8] = 1
				return [][]byte{rep}, nil
			}
			m1 := map[uint8]bool{1: true, 2: false, 3: true, 4: false}
			t1 := fmt.Sprintf("%#v", m1)
			u.ActivateKeypads(s, m1)
			m2 := map[uint8]bool{1: false, 2: true, 3: false, 4: true, 5: true}
			t2 := fmt.Sprintf("%#v", m2)
			u.ActivateKeypads(s, m2)
			u.ActivateKeypads(s, map[uint8]bool{2: true})
			c.Res.Eval(1)
			if now := fmt.Sprintf("%#v", m1); now != t1 || fmt.Sprintf("%#v", m2) != t2 {
				c.Res.Violate("C17:argument-modified:ActivateKeypads:by-a-later-call", fmt.Sprintf("the maps passed to earlier ActivateKeypads calls for controller %d were %s and %s; after later calls for the same controller they are %s and %#v", s, t1, t2, now, m2), nil, caseNo)
			}
			d.Reset()
		}

		// ---- calls: where do they go?
		ops := reqOps()
		for k := 0; k < 4; k++ {
			op := ops[r.Pick(len(ops))]
			serial := r.Serial()
			if r.Chance(0.85) && len(cfg.Devices) > 0 {
				serial = cfg.Devices[r.Pick(len(cfg.Devices))].ID
			}
			if mut == 6 && r.Chance(0.2) {
				serial = 424242 // an entry added to the returned map must not exist for the client
			}
			a, p := r.Args(op)
			aux := toAux(p)
			fixArgs(op, a, aux)
			reply := validReply(r, op, serial, a)
			d.Reset()
			d.Script = func(adapter.Invocation) ([][]byte, error) { return [][]byte{reply}, nil }

			// argument snapshots
			var before, after string
			var argObj any
			switch op.Name {
			case "PutCard":
				card := adapter.BuildCard(a, aux)
				argObj = &card
			case "SetTimeProfile":
				prof := adapter.BuildProfile(a, aux)
				argObj = &prof
			case "AddTask":
				if f0 := a["From"]; r.Chance(0.4) && !f0.Zero && f0.Y >= 1 && f0.Y < 9999 {
					// a task that lasts only a day or a few days (weekdays that cannot occur in it are enabled all the same)
					f := a["From"]
					t0 := time.Date(f.Y, time.Month(f.Mo), f.D, 12, 0, 0, 0, time.UTC).AddDate(0, 0, r.Pick(5))
					if t0.Year() <= 9999 {
						a["To"] = rm.DateVal(t0.Year(), int(t0.Month()), t0.Day())
					}
				}
				task := adapter.BuildTask(a, aux)
				argObj = &task
			}
			c.Res.Eval(1)
			var out rm.Outcome
			switch v := argObj.(type) {
			case *types.Card:
				before = fmt.Sprintf("%#v|%v", v.Doors, *v)
				_, err := u.PutCard(serial, *v)
				after = fmt.Sprintf("%#v|%v", v.Doors, *v)
				if err != nil {
					out.Err = err.Error()
				}
			case *types.TimeProfile:
				before = fmt.Sprintf("%#v|%#v|%v", v.Weekdays, v.Segments, *v)
				_, err := u.SetTimeProfile(serial, *v)
				after = fmt.Sprintf("%#v|%#v|%v", v.Weekdays, v.Segments, *v)
				if err != nil {
					out.Err = err.Error()
				}
			case *types.Task:
				before = fmt.Sprintf("%#v|%v", v.Weekdays, *v)
				_, err := u.AddTask(serial, *v)
				after = fmt.Sprintf("%#v|%v", v.Weekdays, *v)
				if err != nil {
					out.Err = err.Error()
				}
			default:
				switch op.Name {
				case "ActivateKeypads":
					var readers map[uint8]bool
					if !aux.NilMap {
						readers = map[uint8]bool{}
						for q, nme := range []string{"Reader1", "Reader2", "Reader3", "Reader4"} {
							if aux.AbsentRdrs&(1<<q) == 0 {
								readers[uint8(q+1)] = a[nme].U != 0
							}
						}
					}
					before = fmt.Sprintf("%#v", readers)
					u.ActivateKeypads(serial, readers)
					after = fmt.Sprintf("%#v", readers)

				case "SetDoorPasscodes":
					codes := append([]uint32{}, aux.Passcodes...)
					before = fmt.Sprintf("%#v", codes)
					u.SetDoorPasscodes(serial, uint8(a["Door"].U), codes...)
					after = fmt.Sprintf("%#v", codes)
				case "SetAddress":
					ips := []net.IP{net.IPv4(a["Address"].B[0], a["Address"].B[1], a["Address"].B[2], a["Address"].B[3]), net.IP(append([]byte{}, a["Mask"].B...)), net.IP(append([]byte{}, a["Gateway"].B...))}
					before = fmt.Sprintf("%#v", ips)
					u.SetAddress(serial, ips[0], ips[1], ips[2])
					after = fmt.Sprintf("%#v", ips)
				default:
					out, _ = adapter.SafeCall(u, op.Name, serial, a, aux)
				}
			}
			rm0, _ := refRoute(cfg, serial)
			c.Res.DistinctKey("call", op.Name, mutName, rm0, nd)
			if before != after {
				c.Res.Violate("C17:argument-modified:"+op.Name, fmt.Sprintf("%s modified its argument: before %s, after %s", op.Name, before, after), map[string]any{"op": op.Name, "before": before, "after": after}, caseNo)
			}
			inv := d.Invocations()
			if len(inv) != 1 {
				continue // rejected / failed calls are C07's and C01's subject
			}
			wantM, wantA := refRoute(cfgWithDoors(cfg), serial)
			if inv[0].Method != wantM || inv[0].Addr != wantA {
				c.Res.Violate("C17:config:route", fmt.Sprintf("after the caller mutated its data (%s) a call for controller %d went to %s %s; the configuration the client was built with says %s %s", mutName, serial, inv[0].Method, inv[0].Addr, wantM, wantA),
					map[string]any{"config": fmt.Sprintf("%+v", cfg), "mutation": mutName, "op": op.Name, "serial": serial}, caseNo)
			}

			// ---- results vs. reuse of the network buffers
			if out.Fields != nil && !op.NoReply {
				snap := out.Fields.String()
				// take the live result again after scribbling: re-run with a retained pointer is not possible through
				// the neutral adapter, so results are kept by a dedicated typed path below for the pointer-bearing ones
				_ = snap
			}
		}

		// typed results that hold references (IP, MAC, maps): keep the value, scribble, re-read
		{
			serial := r.Serial()
			if len(cfg.Devices) > 0 {
				serial = cfg.Devices[0].ID
			}
			op := rm.FindOp("GetDevice")
			reply := validReply(r, op, serial, rm.Vals{})
			d.Reset()
			d.Script = func(adapter.Invocation) ([][]byte, error) { return [][]byte{reply}, nil }
			dev, err := u.GetDevice(serial)
			c.Res.Eval(1)
			if err == nil && dev != nil {
				before := adapter.PDevice(dev).String() + dev.Address.String()
				d.ScribbleHanded()
				after := adapter.PDevice(dev).String() + dev.Address.String()
				if before != after {
					c.Res.Violate("C17:result-aliases-buffer:GetDevice", fmt.Sprintf("GetDevice result changed when the transport buffer was overwritten: %s -> %s", before, after), nil, caseNo)
				}
			}
			op = rm.FindOp("GetStatus")
			reply = validReply(r, op, serial, rm.Vals{})
			d.Reset()
			d.Script = func(adapter.Invocation) ([][]byte, error) { return [][]byte{reply}, nil }
			st, err := u.GetStatus(serial)
			c.Res.Eval(1)
			if err == nil && st != nil {
				before := adapter.PStatus(st).String()
				d.ScribbleHanded()
				if after := adapter.PStatus(st).String(); before != after {
					c.Res.Violate("C17:result-aliases-buffer:GetStatus", fmt.Sprintf("GetStatus result changed when the transport buffer was overwritten: %s -> %s", before, after), nil, caseNo)
				}
			}
			for _, name := range []string{"GetCardByIndex", "GetTimeProfile", "GetListener", "GetEvent", "GetTime"} {
				op := rm.FindOp(name)
				a, p := r.Args(op)
				reply := validReply(r, op, serial, a)
				d.Reset()
				d.Script = func(adapter.Invocation) ([][]byte, error) { return [][]byte{reply}, nil }
				c.Res.Eval(1)
				switch name {
				case "GetCardByIndex":
					if v, err := u.GetCardByIndex(serial, uint32(a["Index"].U)); err == nil && v != nil {
						before := adapter.PCard(v).String()
						d.ScribbleHanded()
						if after := adapter.PCard(v).String(); before != after {
							c.Res.Violate("C17:result-aliases-buffer:"+name, fmt.Sprintf("%s result changed when the transport buffer was overwritten: %s -> %s", name, before, after), nil, caseNo)
						}
					}
				case "GetTimeProfile":
					if v, err := u.GetTimeProfile(serial, uint8(a["ProfileID"].U)); err == nil && v != nil {
						before := adapter.PProfile(v).String()
						d.ScribbleHanded()
						if after := adapter.PProfile(v).String(); before != after {
							c.Res.Violate("C17:result-aliases-buffer:"+name, fmt.Sprintf("%s result changed when the transport buffer was overwritten: %s -> %s", name, before, after), nil, caseNo)
						}
					}
					// round 11: a profile without segments (all three 00:00-00:00) is returned, the application fills in the map it was
					// given, then reads another such profile: that one is the decoding of its own reply (seeded C17-X: every
					// profile without segments shares one package-level map)
					{
						empty := append([]byte{}, reply...)
						for off := 24; off < 36; off++ {
							empty[off] = 0
						}
						d.Reset()
						d.Script = func(adapter.Invocation) ([][]byte, error) { return [][]byte{append([]byte{}, empty...)}, nil }
						id := uint8(a["ProfileID"].U)
						c.Res.Eval(1)
						if v1, err := u.GetTimeProfile(serial, id); err == nil && v1 != nil && v1.Segments != nil {
							for k := uint8(1); k <= 3; k++ {
								v1.Segments[k] = types.Segment{Start: types.NewHHmm(8, 30), End: types.NewHHmm(17, 45)}
							}
							v1.Segments[7] = types.Segment{Start: types.NewHHmm(1, 2), End: types.NewHHmm(3, 4)}
							c.Res.Count("returned-profile-without-segments-edited", 1)
							if v2, err := u.GetTimeProfile(serial, id); err == nil && v2 != nil {
								for k, seg := range v2.Segments {
									if k < 1 || k > 3 || seg.Start.String() != "00:00" || seg.End.String() != "00:00" {
										c.Res.Violate("C17:result-shares-storage:GetTimeProfile", fmt.Sprintf("GetTimeProfile: a profile whose reply carries no segments came back with segment %d = %v-%v after the application had edited the segments of an earlier result", k, seg.Start, seg.End), nil, caseNo)
										break
									}
								}
							}
						}
					}
				case "GetListener":
					if ap, iv, err := u.GetListener(serial); err == nil {
						before := fmt.Sprint(ap, iv)
						d.ScribbleHanded()
						if after := fmt.Sprint(ap, iv); before != after {
							c.Res.Violate("C17:result-aliases-buffer:"+name, "GetListener result changed", nil, caseNo)
						}
					}
				case "GetEvent":
					if v, err := u.GetEvent(serial, uint32(a["Index"].U)); err == nil && v != nil {
						before := adapter.PEvent(v).String()
						d.ScribbleHanded()
						if after := adapter.PEvent(v).String(); before != after {
							c.Res.Violate("C17:result-aliases-buffer:"+name, fmt.Sprintf("%s result changed when the transport buffer was overwritten: %s -> %s", name, before, after), nil, caseNo)
						}
					}
				case "GetTime":
					if v, err := u.GetTime(serial); err == nil && v != nil {
						before := adapter.PDateTime(v.DateTime).String()
						d.ScribbleHanded()
						if after := adapter.PDateTime(v.DateTime).String(); before != after {
							c.Res.Violate("C17:result-aliases-buffer:"+name, "GetTime result changed", nil, caseNo)
						}
					}
				}
				_ = p
			}
			// discovery: the reply list handed back by the driver is overwritten afterwards
			op = rm.FindOp("GetDevices")
			replies := [][]byte{}
			for k := 0; k < 1+r.Pick(4); k++ {
				replies = append(replies, r.Reply(op, 0x17, r.Serial(), rm.Vals{}, true))
			}
			d.Reset()
			d.Script = func(adapter.Invocation) ([][]byte, error) { return replies, nil }
			list, err := u.GetDevices()
			c.Res.Eval(1)
			if err == nil {
				before := ""
				for k := range list {
					before += adapter.PDevice(&list[k]).String() + list[k].Address.String() + ";"
				}
				d.ScribbleHanded()
				after := ""
				for k := range list {
					after += adapter.PDevice(&list[k]).String() + list[k].Address.String() + ";"
				}
				if before != after {
					c.Res.Violate("C17:result-aliases-buffer:GetDevices", fmt.Sprintf("GetDevices result changed when the transport buffers were overwritten: %s -> %s", before, after), nil, caseNo)
				}
			}
		}

		// ---- clones
		{
			a, p := r.Args(rm.FindOp("PutCard"))
			card := adapter.BuildCard(a, toAux(p))
			switch r.Pick(6) { // cards read from a blank record have no dates
			case 0:
				card.From = types.Date{}
			case 1:
				card.To = types.Date{}
			case 2:
				card.From, card.To = types.Date{}, types.Date{}
			}
			if r.Pick(5) == 0 {
				card.Doors = map[uint8]uint8{} // a blank template: an empty map, not a nil one
			}
			cl := card.Clone()
			c.Res.Eval(1)
			encOf := func(d types.Date) string {
				b, _ := d.MarshalUT0311L0x()
				return fmt.Sprintf("%x/%v/%s", b, d.IsZero(), d.String())
			}
			if adapter.PCard(&card).String() != adapter.PCard(&cl).String() || encOf(card.From) != encOf(cl.From) || encOf(card.To) != encOf(cl.To) {
				c.Res.Violate("C17:clone:card-unequal", fmt.Sprintf("Card.Clone differs: %v (from %s, to %s) vs %v (from %s, to %s) (TZ=%s)", cl, encOf(cl.From), encOf(cl.To), card, encOf(card.From), encOf(card.To), time.Local), nil, caseNo)
			}
			before := adapter.PCard(&card).String()
			if cl.Doors == nil {
				cl.Doors = map[uint8]uint8{} // (a clone of a card without a door map may have none either)
			}
			nBefore, had0 := len(card.Doors), false
			if card.Doors != nil {
				_, had0 = card.Doors[0]
			}
			for k := uint8(0); k < 6; k++ {
				cl.Doors[k] = 200 + k
			}
			if _, has0 := card.Doors[0]; len(card.Doors) != nBefore || (has0 && !had0) {
				c.Res.Violate("C17:clone:card-shares-storage", fmt.Sprintf("writing into a Card clone's door map wrote into the original's (%d entries now)", len(card.Doors)), nil, caseNo)
			}
			if after := adapter.PCard(&card).String(); before != after {
				c.Res.Violate("C17:clone:card-shares-storage", "mutating a Card clone's door map changed the original", nil, caseNo)
			}
			cbefore := adapter.PCard(&cl).String()
			if card.Doors != nil {
				for k := uint8(1); k <= 4; k++ {
					card.Doors[k] = 100 + k
				}
				if adapter.PCard(&cl).String() != cbefore {
					c.Res.Violate("C17:clone:card-shares-storage", "mutating the original Card's door map changed the clone", nil, caseNo)
				}
			}

			dev := uhppote.Device{Name: "x", DeviceID: r.Serial(), Address: types.ControllerAddr{AddrPort: netip.MustParseAddrPort([]string{"10.1.2.3:60000", "[::ffff:192.168.1.100]:60000", "0.0.0.0:0", "[::1]:60000", "10.1.2.3:1"}[r.Pick(5)])}, Doors: []string{"a", "b", "c"}[:r.Pick(4)],
				TimeZone: []*time.Location{time.UTC, nil, time.Local, time.FixedZone("Q", 3600)}[r.Pick(4)], Protocol: []string{"tcp", "udp", "any", "", "TCP", "xyz"}[r.Pick(6)]}
			dcl := dev.Clone()
			c.Res.Eval(1)
			if dcl.Name != dev.Name || dcl.DeviceID != dev.DeviceID || dcl.Address != dev.Address || dcl.Protocol != dev.Protocol || dcl.TimeZone != dev.TimeZone || fmt.Sprint(dcl.Doors) != fmt.Sprint(dev.Doors) {
				c.Res.Violate("C17:clone:device-unequal", fmt.Sprintf("Device.Clone differs: %+v vs %+v", dcl, dev), nil, caseNo)
			}
			for k := range dcl.Doors {
				dcl.Doors[k] = "Z"
			}
			if fmt.Sprint(dev.Doors) != fmt.Sprint([]string{"a", "b", "c"}[:len(dev.Doors)]) {
				c.Res.Violate("C17:clone:device-shares-storage", "mutating a Device clone's door names changed the original", nil, caseNo)
			}
			// ... nor do the two lists grow into each other (a list that is empty but has room is a list too)
			if n := len(dev.Doors); n == len(dcl.Doors) {
				grownClone := append(dcl.Doors, "added-to-the-clone")
				grownOrig := append(dev.Doors, "added-to-the-original")
				if grownClone[n] != "added-to-the-clone" || grownOrig[n] != "added-to-the-original" {
					c.Res.Violate("C17:clone:device-shares-storage", fmt.Sprintf("a door name appended to a Device clone (%d names, capacity %d) and one appended to the original ended up in the same place: %q / %q", n, cap(dev.Doors), grownClone[n], grownOrig[n]), nil, caseNo)
				}
			}
		}

		// ---- messages obtained from the public dispatchers are values of their own too: one is held while the next datagram of the
		// same type is dispatched (and the buffers are overwritten)
		if i%8 == 4 {
			gd := rm.FindOp("GetDevice")
			b1, b2 := validReply(r, gd, r.Serial(), rm.Vals{}), validReply(r, gd, r.Serial(), rm.Vals{})
			if v1, err := messages.UnmarshalResponse(b1); err == nil && v1 != nil {
				t1 := fmt.Sprintf("%+v", reflect.ValueOf(v1).Elem().Interface())
				v2, _ := messages.UnmarshalResponse(b2)
				for k := range b1 {
					b1[k], b2[k] = 0xee, 0xdd
				}
				c.Res.Eval(1)
				if now := fmt.Sprintf("%+v", reflect.ValueOf(v1).Elem().Interface()); now != t1 {
					c.Res.Violate("C17:result-aliases-buffer:dispatcher", fmt.Sprintf("a message returned by messages.UnmarshalResponse changed after the next datagram of its type was dispatched and the buffers were reused: %s -> %s", truncateStr(t1, 300), truncateStr(now, 300)), nil, caseNo)
				}
				_ = v2
			}
		}

		// ---- listener: the delivered status must not change when the receive buffer is reused
		if i%8 == 0 {
			evc := make(chan *types.Status, 4)
			lst := &c13Listener{on: func(s *types.Status) {
				select {
				case evc <- s:
				default:
				}
			}}
			q := make(chan os.Signal, 1)
			done := make(chan error, 1)
			go func() { done <- u.Listen(lst, q) }()
			buf := make([]byte, 2048)
			ok := false
			for k := 0; k < 2000; k++ {
				if d.Push(nil) {
					ok = true
					break
				}
				time.Sleep(100 * time.Microsecond)
			}
			if ok {
				ev := r.Reply(rm.FindOp("GetStatus"), 0x17, r.Serial(), rm.Vals{}, true)
				copy(buf, ev)
				d.Push(buf[:64])
				select {
				case st := <-evc:
					before := adapter.PStatus(st).String()
					for k := range buf {
						buf[k] = 0xa5
					}
					c.Res.Eval(1)
					if after := adapter.PStatus(st).String(); before != after {
						c.Res.Violate("C17:result-aliases-buffer:Listen", fmt.Sprintf("a delivered event changed when the receive buffer was reused: %s -> %s", before, after), nil, caseNo)
					}
				case <-liveAfter(2 * time.Second):
					c.Res.Inconcl("listener did not deliver the pushed event")
				}
			}
			q <- os.Interrupt
			select {
			case <-done:
			case <-liveAfter(3 * time.Second):
				c.Res.Inconcl("listener did not stop")
			}
		}
		if i%1999 == 0 {
			c.Res.Sample(map[string]any{"config": fmt.Sprintf("%+v", cfg), "mutation": mutName})
		}
	}
	_ = wk.Hex
	_ = gen.Locations
}

// cfgWithDoors returns cfg unchanged: routes do not depend on door names (kept as a hook for clarity).
func cfgWithDoors(cfg ClientCfg) ClientCfg { return cfg }
