package main

import (
	"encoding/json"
	"fmt"
	"runtime"
	"sync"
	"sync/atomic"
	"time"

	"github.com/uhppoted/uhppote-core/types"

	"verif/harness/adapter"
	"verif/harness/gen"
	rm "verif/harness/refmodel"
)

func init() { registry["C16"] = c16 }

func cmpInts(a, b []int) int {
	for i := range a {
		if a[i] < b[i] {
			return -1
		}
		if a[i] > b[i] {
			return 1
		}
	}
	return 0
}

func c16(c *Ctx) {
	c.Res.Rule = "all 1441^2 HH:mm pairs; adjacent-day pairs, month/year boundaries and random pairs/triples of dates 0001..9999; date-times vs instants straddling second boundaries (>= 1970); SetTimeProfile segment acceptance over HH:mm pairs through the in-memory driver; oracle = lexicographic comparison of civil tuples; checks trichotomy, mirror image, transitivity; distinct = distinct pairs/triples"
	r := c.Rng("main")
	var caseNo int64
	defer c16Concurrent(c)
	c16ForeignDates(c)
	if c.Mode == "tz" {
		c16Zone(c)
		return
	}

	// ---- HH:mm: all pairs (partitioned by first value)
	hh := []types.HHmm{}
	hv := [][]int{}
	for h := 0; h <= 24; h++ {
		for m := 0; m < 60; m++ {
			if h == 24 && m > 0 {
				break
			}
			// the values are built in every way the package offers (a field that only some constructors fill in must not matter)
			v := types.NewHHmm(h, m)
			switch k := len(hh) % 4; {
			case k == 1 && h < 24:
				v = types.HHmmFromTime(time.Date(2024, 5, 17, h, m, 42, 999, time.FixedZone("X", 5*3600)))
			case k == 2:
				if p, err := types.HHmmFromString(fmt.Sprintf("%02d:%02d", h, m)); err == nil && p != nil {
					v = *p
					*p = types.NewHHmm((h+5)%24, (m+31)%60) // the parsed value is the application's to change: later parses of the same text are not affected
					if q, err := types.HHmmFromString(fmt.Sprintf("%02d:%02d", h, m)); err == nil && q != nil {
						v = *q
					}
				}
			case k == 3:
				var j types.HHmm
				if json.Unmarshal([]byte(fmt.Sprintf(`"%02d:%02d"`, h, m)), &j) == nil {
					v = j
				}
			}
			hh = append(hh, v)
			hv = append(hv, []int{h, m})
		}
	}
	judge := func(kind string, want int, before, after, equal bool, a, b string) {
		caseNo++
		c.Res.Eval(1)
		n := 0
		for _, x := range []bool{before, after, equal} {
			if x {
				n++
			}
		}
		w := map[string]any{"a": a, "b": b, "before": before, "after": after, "equal": equal, "expected": want}
		if n != 1 {
			c.Res.Violate("C16:"+kind+":trichotomy", fmt.Sprintf("%s %s vs %s: before=%v equal=%v after=%v (exactly one must hold)", kind, a, b, before, equal, after), w, caseNo)
			return
		}
		if (want < 0) != before || (want > 0) != after || (want == 0) != equal {
			c.Res.Violate("C16:"+kind+":calendar-order", fmt.Sprintf("%s %s vs %s: before=%v equal=%v after=%v disagrees with the calendar order (%d)", kind, a, b, before, equal, after, want), w, caseNo)
		}
	}
	for i := c.Batch; i < len(hh); i += c.NBatch {
		for j := range hh {
			a, b := hh[i], hh[j]
			judge("hhmm", cmpInts(hv[i], hv[j]), a.Before(b), a.After(b), a.Equals(b), a.String(), b.String())
			// mirror
			if a.Before(b) != b.After(a) {
				c.Res.Violate("C16:hhmm:mirror", fmt.Sprintf("HH:mm %v.Before(%v) != %v.After(%v)", a, b, b, a), nil, caseNo)
			}
		}
	}
	c.Res.Count("hhmm-pairs(all 1441^2, partitioned)", int64(len(hh))*int64((len(hh)+c.NBatch-1-c.Batch)/c.NBatch))
	c.Res.DistinctKey("hhmm-all-pairs", c.Batch)
	// transitivity on random triples
	T := c.N(100000, 1000000)
	for i := 0; i < T; i++ {
		x, y, z := r.Pick(len(hh)), r.Pick(len(hh)), r.Pick(len(hh))
		c.Res.Eval(1)
		c.Res.DistinctKey("ht", x, y, z)
		if hh[x].Before(hh[y]) && hh[y].Before(hh[z]) && !hh[x].Before(hh[z]) {
			c.Res.Violate("C16:hhmm:transitivity", fmt.Sprintf("HH:mm %v < %v < %v but not %v < %v", hh[x], hh[y], hh[z], hh[x], hh[z]), nil, int64(i))
		}
	}

	// ---- dates
	mk := func(v rm.Val, ctor int) types.Date {
		switch ctor % 6 {
		case 1:
			return types.Date(time.Date(v.Y, time.Month(v.Mo), v.D, 23, 59, 59, 999, time.FixedZone("A", 14*3600)))
		case 2:
			return types.Date(time.Date(v.Y, time.Month(v.Mo), v.D, 0, 0, 0, 0, time.FixedZone("B", -12*3600)))
		case 3: // late in the day far west, early in the day far east: the instants are in the opposite order to the calendar days
			return types.Date(time.Date(v.Y, time.Month(v.Mo), v.D, 23, 59, 59, 0, time.FixedZone("B", -12*3600)))
		case 4:
			return types.Date(time.Date(v.Y, time.Month(v.Mo), v.D, 0, 0, 1, 0, time.FixedZone("A", 14*3600)))
		case 5:
			return types.Date(time.Date(v.Y, time.Month(v.Mo), v.D, 12, 0, 0, 0, time.UTC))
		}
		return types.ToDate(v.Y, time.Month(v.Mo), v.D)
	}
	cmpDate := func(a, b rm.Val) int { return cmpInts([]int{a.Y, a.Mo, a.D}, []int{b.Y, b.Mo, b.D}) }
	datePair := func(a, b rm.Val, tag string) {
		da, db := mk(a, r.Pick(6)), mk(b, r.Pick(6))
		c.Res.DistinctKey("d", a.String(), b.String())
		judge("date", cmpDate(a, b), da.Before(db), da.After(db), da.Equals(db), a.String(), b.String())
		if da.Before(db) != db.After(da) {
			c.Res.Violate("C16:date:mirror", fmt.Sprintf("date %v.Before(%v) != %v.After(%v)", a, b, b, a), nil, caseNo)
		}
	}
	next := func(v rm.Val) rm.Val {
		d, m, y := v.D+1, v.Mo, v.Y
		if d > rm.DaysIn(y, m) {
			d, m = 1, m+1
			if m > 12 {
				m, y = 1, y+1
			}
		}
		return rm.DateVal(y, m, d)
	}
	// adjacent days: thorough = all of 0001-01-02..9999-12-30 partitioned by year; quick = whole years sample
	years := []int{}
	if c.Thorough() {
		for y := 1 + c.Batch; y <= 9999; y += c.NBatch {
			years = append(years, y)
		}
	} else {
		for i := 0; i < 60; i++ {
			years = append(years, 1+r.Pick(9999))
		}
		years = append(years, 1, 2, 1899, 1900, 1999, 2000, 2023, 2024, 9998, 9999)
	}
	for _, y := range years {
		d := rm.DateVal(y, 1, 1)
		if y == 1 {
			d = rm.DateVal(1, 1, 2)
		}
		for d.Y == y {
			n := next(d)
			if n.Y > 9999 {
				break
			}
			datePair(d, n, "adjacent")
			datePair(n, d, "adjacent-rev")
			datePair(d, d, "same")
			d = n
		}
	}
	c.Res.Count("adjacent-day-years", int64(len(years)))
	P := c.N(150000, 1000000)
	for i := 0; i < P; i++ {
		a, b := r.Date(), r.Date()
		switch r.Pick(6) {
		case 0: // same year, same month
			b.Y, b.Mo = a.Y, a.Mo
			if b.D > rm.DaysIn(b.Y, b.Mo) {
				b.D = rm.DaysIn(b.Y, b.Mo)
			}
		case 1: // same year
			b.Y = a.Y
			if b.D > rm.DaysIn(b.Y, b.Mo) {
				b.D = rm.DaysIn(b.Y, b.Mo)
			}
		case 2: // later year, earlier month/day
			if a.Y < 9999 {
				b = rm.DateVal(a.Y+1, 1, 1)
			}
		}
		if b.Y == 1 && b.Mo == 1 && b.D == 1 {
			continue
		}
		datePair(a, b, "random")
		if i%3 == 0 {
			z := r.Date()
			da, db, dz := mk(a, 0), mk(b, 1), mk(z, 2)
			c.Res.Eval(1)
			if da.Before(db) && db.Before(dz) && !da.Before(dz) {
				c.Res.Violate("C16:date:transitivity", fmt.Sprintf("date %v < %v < %v but not %v < %v", a, b, z, a, z), nil, caseNo)
			}
		}
	}

	// ---- DateTime.Before(instant): true exactly when its whole-second timestamp is smaller
	Q := c.N(100000, 1000000)
	for i := 0; i < Q; i++ {
		caseNo++
		sec := int64(r.Pick(4_000_000_000)) // 1970 .. ~2096
		if r.Chance(0.1) {
			sec = int64(r.Uint64() % 250_000_000_000) // up to year ~9892
		}
		ns := []int64{0, 1, 999, 1000, 999_999, 1_000_000, 499_999_999, 500_000_000, 999_000_000, 999_999_000, 999_999_999}[r.Pick(11)]
		if r.Chance(0.3) {
			ns = int64(r.Pick(1_000_000_000))
		}
		dsec := sec + int64([]int{-2, -1, 0, 0, 0, 1, 2, r.Pick(100) - 50}[r.Pick(8)])
		if dsec < 0 {
			dsec = 0
		}
		dns := int64(0)
		if r.Chance(0.3) {
			dns = []int64{1, 999_999, 1_000_000, 500_000_000, 999_999_999}[r.Pick(5)]
		}
		loc := time.UTC
		if r.Chance(0.3) {
			loc = time.FixedZone("Z", (r.Pick(27)-12)*3600)
		}
		dt := types.DateTime(time.Unix(dsec, dns).In(loc))
		t := time.Unix(sec, ns)
		want := dsec < sec
		got := dt.Before(t)
		c.Res.Eval(1)
		c.Res.DistinctKey("dt", dsec, dns, sec, ns)
		if got != want {
			c.Res.Violate("C16:datetime:before", fmt.Sprintf("DateTime(unix %d.%09d).Before(unix %d.%09d) = %v, expected %v (whole-second comparison)", dsec, dns, sec, ns, got, want),
				map[string]any{"datetime_unix": dsec, "datetime_ns": dns, "instant_unix": sec, "instant_ns": ns}, caseNo)
		}
	}

	// ... date-times before 1970 that carry no fraction of a second (the zero 'no value' date-time among them: what the library
	// returns for an unset controller clock) against instants on either side of them
	{
		olds := []time.Time{{}, time.Date(1, 1, 1, 0, 0, 1, 0, time.UTC), time.Date(1582, 10, 15, 12, 0, 0, 0, time.UTC), time.Date(1900, 1, 1, 0, 0, 0, 0, time.UTC), time.Date(1969, 12, 31, 23, 59, 59, 0, time.UTC), time.Date(1969, 7, 20, 20, 17, 40, 0, time.FixedZone("X", -4*3600))}
		for k := 0; k < 200; k++ {
			olds = append(olds, time.Unix(-int64(r.Uint64()%62135596800), 0).UTC())
		}
		for _, o := range olds {
			for _, t := range append([]time.Time{time.Unix(0, 0), time.Unix(0, 1), time.Unix(1700000000, 999_999_999), time.Date(9999, 12, 31, 23, 59, 59, 0, time.UTC)}, olds[r.Pick(len(olds))], olds[r.Pick(len(olds))]) {
				caseNo++
				c.Res.Eval(1)
				want := o.Unix() < t.Unix()
				if t.Unix() < 0 && t.Nanosecond() != 0 {
					continue
				}
				if got := types.DateTime(o).Before(t); got != want {
					c.Res.Violate("C16:datetime:before", fmt.Sprintf("DateTime(%s).Before(%s) = %v, expected %v (whole-second comparison)", o.Format(time.RFC3339), t.Format(time.RFC3339Nano), got, want), map[string]any{"datetime_unix": o.Unix(), "instant_unix": t.Unix()}, caseNo)
				}
			}
		}
	}

	// ---- SetTimeProfile accepts a segment exactly when its end is not before its start
	u, d := mkMemClient(ClientCfg{})
	op := rm.FindOp("SetTimeProfile")
	tryProfile := func(seg int, s, e []int, tag string) {
		caseNo++
		a, p := r.Args(op)
		p.ExtraKeys = caseNo%2 == 0 // (entries of the map that are no segments of a profile - keys 0, 4, 200 - are nobody's business, whatever they hold)
		name := fmt.Sprintf("Segment%d", seg)
		a[name+"Start"], a[name+"End"] = rm.HHmmVal(s[0], s[1]), rm.HHmmVal(e[0], e[1])
		serial := r.Serial()
		d.Reset()
		reply := okReply(op, serial)
		reply[8] = 1
		d.Script = func(adapter.Invocation) ([][]byte, error) { return [][]byte{reply}, nil }
		out, _ := adapter.SafeCall(u, "SetTimeProfile", serial, a, toAux(p))
		sent := len(d.Invocations())
		c.Res.Eval(1)
		c.Res.DistinctKey("stp", seg, s[0], s[1], e[0], e[1])
		shouldAccept := cmpInts(e, s) >= 0
		accepted := out.Err == "" && sent == 1
		if shouldAccept != accepted {
			c.Res.Violate("C16:set-time-profile:segment-order", fmt.Sprintf("SetTimeProfile segment %d %02d:%02d-%02d:%02d: accepted=%v (requests sent %d, err %q), expected accepted=%v", seg, s[0], s[1], e[0], e[1], accepted, sent, out.Err, shouldAccept),
				map[string]any{"segment": seg, "start": s, "end": e, "args": a.String()}, caseNo)
		}
	}
	if c.Thorough() {
		// all 1441^2 pairs in segment 1 (partitioned); boundary + random in the other positions
		for i := c.Batch; i < len(hv); i += c.NBatch {
			for j := range hv {
				tryProfile(1, hv[i], hv[j], "all-pairs")
			}
		}
		c.Res.Count("set-time-profile:segment1-all-1441^2-pairs(partitioned)", 1)
	}
	S := c.N(25000, 200000)
	for i := 0; i < S; i++ {
		x, y := r.Pick(len(hv)), r.Pick(len(hv))
		switch r.Pick(4) {
		case 0:
			y = x
		case 1:
			if x+1 < len(hv) {
				y = x + 1
			}
		case 2:
			if x > 0 {
				y = x - 1
			}
		}
		tryProfile(1+r.Pick(3), hv[x], hv[y], "random")
	}
	c.Res.Sample(map[string]any{"hhmm": "08:30 vs 08:31", "expected": "before"})
	c.Res.Sample(map[string]any{"date": "2024-02-29 vs 2024-03-01", "expected": "before"})
	_ = gen.Locations
}

// c16Zone: the date order in a process time zone with daylight saving: every pair of adjacent days (and of days a week and a
// year apart) of the years 1990..2040 and of sampled years, in both directions, plus the days around every transition of the
// zone - a 23 or 25 hour day, or a day without midnight, must not change the verdict. Days with no instant in the zone are skipped.
func c16Zone(c *Ctx) {
	zone := time.Local.String()
	c.Res.Note("zone", zone)
	r := c.Rng("tz/" + zone)
	z := newZoneOracle(time.Local)
	var caseNo int64
	type ymd struct{ y, m, d int }
	cmp := func(a, b ymd) int { return cmpInts([]int{a.y, a.m, a.d}, []int{b.y, b.m, b.d}) }
	pair := func(a, b ymd) {
		if a.y < 1 || b.y < 1 || a.y > 9999 || b.y > 9999 || (a.y == 1 && a.m == 1 && a.d == 1) || (b.y == 1 && b.m == 1 && b.d == 1) {
			return
		}
		if !z.dayHasInstant(a.y, a.m, a.d) || !z.dayHasInstant(b.y, b.m, b.d) {
			c.Res.Count("exempt:day-without-instant", 1)
			return
		}
		caseNo++
		c.Res.Eval(1)
		da, db := types.ToDate(a.y, time.Month(a.m), a.d), types.ToDate(b.y, time.Month(b.m), b.d)
		if caseNo%2 == 0 {
			pa, e1 := types.ParseDate(fmt.Sprintf("%04d-%02d-%02d", a.y, a.m, a.d))
			pb, e2 := types.ParseDate(fmt.Sprintf("%04d-%02d-%02d", b.y, b.m, b.d))
			if e1 == nil && e2 == nil {
				da, db = pa, pb
			}
		}
		before, after, equal := da.Before(db), da.After(db), da.Equals(db)
		want := cmp(a, b)
		c.Res.DistinctKey("zd", zone, a.y, a.m, a.d, b.y, b.m, b.d)
		n := 0
		for _, x := range []bool{before, after, equal} {
			if x {
				n++
			}
		}
		as, bs := fmt.Sprintf("%04d-%02d-%02d", a.y, a.m, a.d), fmt.Sprintf("%04d-%02d-%02d", b.y, b.m, b.d)
		w := map[string]any{"a": as, "b": bs, "before": before, "after": after, "equal": equal, "expected": want, "zone": zone}
		if n != 1 {
			c.Res.Violate("C16:date:trichotomy", fmt.Sprintf("date %s vs %s: before=%v equal=%v after=%v (exactly one must hold) (TZ=%s)", as, bs, before, equal, after, zone), w, caseNo)
		} else if (want < 0) != before || (want > 0) != after || (want == 0) != equal {
			c.Res.Violate("C16:date:calendar-order", fmt.Sprintf("date %s vs %s: before=%v equal=%v after=%v disagrees with the calendar order (%d) (TZ=%s)", as, bs, before, equal, after, want, zone), w, caseNo)
		}
		if da.Before(db) != db.After(da) {
			c.Res.Violate("C16:date:mirror", fmt.Sprintf("date %s.Before(%s) != %s.After(%s) (TZ=%s)", as, bs, bs, as, zone), w, caseNo)
		}
	}
	day := func(u int64) ymd { cv := civilOf(u, time.UTC); return ymd{cv.y, cv.m, cv.d} }
	sweep := func(y int) {
		for u := civilUnix(y, 1, 1, 12, 0, 0); day(u).y == y; u += 86400 {
			a := day(u)
			for _, k := range []int64{1, 2, 7, 365, 366} {
				b := day(u + k*86400)
				pair(a, b)
				pair(b, a)
			}
			pair(a, a)
		}
	}
	years := []int{}
	for y := 1990; y <= 2040; y++ {
		years = append(years, y)
	}
	for k := 0; k < c.N(6, 60); k++ {
		years = append(years, 2+r.Pick(9996))
	}
	for _, y := range years {
		sweep(y)
	}
	// around every transition of the zone
	nTrans := 0
	for i := 1; i < len(z.periods); i++ {
		T := z.periods[i].start
		if T == farPast || (!c.Thorough() && i%3 != int(c.Seed%3) && (T < civilUnix(1990, 1, 1, 0, 0, 0) || T > civilUnix(2040, 1, 1, 0, 0, 0))) {
			continue
		}
		nTrans++
		cv := civilOf(T, time.Local)
		u := civilUnix(cv.y, cv.m, cv.d, 12, 0, 0)
		for da := int64(-2); da <= 2; da++ {
			for db := int64(-2); db <= 2; db++ {
				pair(day(u+da*86400), day(u+db*86400))
			}
		}
	}
	c.Res.Count("zone-transitions-examined", int64(nTrans))
	c.Res.Count("zone-years-swept", int64(len(years)))

	// date-times of this zone around its transitions from 1970 on - both passes of a repeated hour, both sides of a skipped one -
	// against instants less than two hours away: before exactly when the whole-second timestamp is the smaller
	nFold := 0
	for i := 1; i < len(z.periods); i++ {
		T := z.periods[i].start
		if T < 0 || T > civilUnix(2100, 1, 1, 0, 0, 0) || (!c.Thorough() && nFold > 60 && i%4 != int(c.Seed%4)) {
			continue
		}
		if z.periods[i].off < z.periods[i-1].off {
			nFold++
		}
		for _, du := range []int64{-7200, -3601, -3600, -3000, -1800, -600, -1, 0, 1, 600, 1800, 3000, 3599, 3600, 3601, 7200, int64(r.Pick(7200)) - 3600} {
			dsec := T + du
			dt := types.DateTime(time.Unix(dsec, 0).In(time.Local))
			for _, dv := range []int64{-3600, -2400, -1, 0, 1, 1200, 2400, 3600, int64(r.Pick(7200)) - 3600} {
				tsec := dsec + dv
				if tsec < 0 {
					continue
				}
				t := time.Unix(tsec, int64(r.Pick(2))*999_999_999)
				if r.Chance(0.5) {
					t = t.UTC()
				}
				caseNo++
				c.Res.Eval(1)
				want := dsec < tsec
				if got := dt.Before(t); got != want {
					c.Res.Violate("C16:datetime:before", fmt.Sprintf("DateTime(%s, unix %d).Before(%s, unix %d) = %v, expected %v (whole-second comparison; zone transition at unix %d) (TZ=%s)", time.Time(dt).Format(time.RFC3339), dsec, t.Format(time.RFC3339Nano), tsec, got, want, T, zone),
						map[string]any{"datetime_unix": dsec, "instant_unix": tsec, "zone": zone}, caseNo)
				}
			}
		}
	}
	c.Res.Count("zone-transitions-with-a-repeated-hour-examined(date-times)", int64(nFold))
}

// c16ForeignDates: a Date is a calendar date whatever location its underlying time value carries - an application that converts
// its own timestamps (types.Date(t), t in UTC or in the controller's zone) gets dates that compare by their own year, month and
// day like any other. Pairs include the same instant seen from two zones on different calendar days.
func c16ForeignDates(c *Ctx) {
	r := c.Rng("foreign-dates")
	locs := []*time.Location{time.UTC, time.Local, time.FixedZone("E", 14*3600), time.FixedZone("W", -11*3600), time.FixedZone("H", 5*3600+45*60)}
	for _, name := range []string{"Pacific/Auckland", "America/Los_Angeles", "Asia/Tokyo"} {
		if l, err := time.LoadLocation(name); err == nil {
			locs = append(locs, l)
		}
	}
	ymd := func(d types.Date) []int { y, m, dd := time.Time(d).Date(); return []int{y, int(m), dd} }
	bad := 0
	for i := 0; i < c.N(20000, 200000) && bad < 4; i++ {
		u := int64(r.Pick(4102444800))
		v := u
		switch r.Pick(4) {
		case 0: // the same instant
		case 1:
			v = u + int64(r.Pick(2*86400)) - 86400
		default:
			v = int64(r.Pick(4102444800))
		}
		la, lb := locs[r.Pick(len(locs))], locs[r.Pick(len(locs))]
		a, b := types.Date(time.Unix(u, 0).In(la)), types.Date(time.Unix(v, 0).In(lb))
		want := cmpInts(ymd(a), ymd(b))
		before, after, equal := a.Before(b), a.After(b), a.Equals(b)
		c.Res.Eval(1)
		c.Res.DistinctKey("foreign", u, v, la.String(), lb.String())
		if before != (want < 0) || after != (want > 0) || equal != (want == 0) || b.After(a) != before || b.Before(a) != after {
			bad++
			c.Res.Violate("C16:date:calendar-order:other-locations", fmt.Sprintf("date %v (location %v) vs %v (location %v): before=%v equal=%v after=%v, their own year-month-day say %d", a, la, b, lb, before, equal, after, want),
				map[string]any{"a_unix": u, "a_location": la.String(), "b_unix": v, "b_location": lb.String()}, int64(i))
		}
	}
	c.Res.Count("date-pairs-in-other-locations", 1)
}

// c16Concurrent: the verdicts do not depend on what other goroutines are comparing at the time. Every goroutine builds the same
// day twice (with any two of the constructors) and a second day, while the others do the same with other days: the two values of
// one day are equal, neither before nor after each other, and both stand in the calendar relation to the second day.
func c16Concurrent(c *Ctx) {
	G := 8
	per := c.N(20000, 200000)
	if old := runtime.GOMAXPROCS(0); old < 8 {
		runtime.GOMAXPROCS(8)
		defer runtime.GOMAXPROCS(old)
	}
	zone := time.Local.String()
	z := newZoneOracle(time.Local)
	var wg sync.WaitGroup
	var nbad atomic.Int64
	mk := func(k int, y, m, d int) (types.Date, bool) {
		switch k % 4 {
		case 0:
			return types.ToDate(y, time.Month(m), d), true
		case 1:
			v, err := types.ParseDate(fmt.Sprintf("%04d-%02d-%02d", y, m, d))
			return v, err == nil
		case 2:
			var v types.Date
			err := json.Unmarshal([]byte(fmt.Sprintf(`"%04d-%02d-%02d"`, y, m, d)), &v)
			return v, err == nil
		default:
			var v types.Date
			x, err := v.UnmarshalUT0311L0x(bcdDate(y, m, d))
			if p, ok := x.(*types.Date); ok && p != nil && err == nil {
				return *p, true
			}
			return v, false
		}
	}
	for g := 0; g < G; g++ {
		wg.Add(1)
		go func(g int) {
			defer wg.Done()
			rr := gen.New(c.Seed, fmt.Sprintf("C16/concurrent/%s/%d", zone, g), c.Batch)
			for k := 0; k < per && nbad.Load() < 4; k++ {
				a, b := rr.Date(), rr.Date()
				if rr.Chance(0.3) {
					b = a
					b.D = 1 + rr.Pick(28)
				}
				skip := false
				for _, x := range []rm.Val{a, b} {
					if x.Y < 1 || x.Y > 9999 || (x.Y == 1 && x.Mo == 1 && x.D == 1) || !z.dayHasInstant(x.Y, x.Mo, x.D) {
						skip = true
					}
				}
				if skip {
					continue
				}
				k1, k2, k3 := rr.Pick(4), rr.Pick(4), rr.Pick(4)
				a1, ok1 := mk(k1, a.Y, a.Mo, a.D)
				a2, ok2 := mk(k2, a.Y, a.Mo, a.D)
				b1, ok3 := mk(k3, b.Y, b.Mo, b.D)
				c.Res.Eval(1)
				if !ok1 || !ok2 || !ok3 {
					continue // what the constructors accept is another property's business
				}
				want := cmpInts([]int{a.Y, a.Mo, a.D}, []int{b.Y, b.Mo, b.D})
				msg := ""
				switch {
				case !a1.Equals(a2) || a1.Before(a2) || a1.After(a2) || a2.Before(a1) || a2.After(a1):
					msg = fmt.Sprintf("two values of the day %04d-%02d-%02d (constructors %d and %d: %v and %v) are not equal-and-neither-before-nor-after", a.Y, a.Mo, a.D, k1, k2, a1, a2)
				case a1.Before(b1) != (want < 0) || a1.After(b1) != (want > 0) || a1.Equals(b1) != (want == 0):
					msg = fmt.Sprintf("%04d-%02d-%02d vs %04d-%02d-%02d: before=%v equals=%v after=%v, the calendar says %d", a.Y, a.Mo, a.D, b.Y, b.Mo, b.D, a1.Before(b1), a1.Equals(b1), a1.After(b1), want)
				case a2.Before(b1) != (want < 0) || a2.After(b1) != (want > 0) || b1.Before(a2) != (want > 0) || b1.After(a2) != (want < 0):
					msg = fmt.Sprintf("%04d-%02d-%02d vs %04d-%02d-%02d (second value of the first day): the verdicts disagree with the calendar (%d)", a.Y, a.Mo, a.D, b.Y, b.Mo, b.D, want)
				}
				if msg != "" {
					nbad.Add(1)
					c.Res.Violate("C16:date:concurrent", fmt.Sprintf("%s while %d goroutines build and compare dates concurrently (TZ=%s)", msg, G, zone), map[string]any{"zone": zone}, -5)
				}
			}
		}(g)
	}
	wg.Wait()
	c.Res.Count("concurrent-date-comparisons", int64(G*per))
}
