package main

import (
	"fmt"
	"net"
	"reflect"

	codec "github.com/uhppoted/uhppote-core/encoding/UTO311-L0x"
	"github.com/uhppoted/uhppote-core/types"
)

// Named struct types that share one package-qualified name ("main.request", "main.reply" - function-local types in
// different functions) but declare different layouts: a layout is a property of the type, not of its name.
type c18Named struct {
	name   string
	value  any
	fresh  func() any
	want   map[int]byte // every other byte zero
	wrong  int          // offset of a byte that decode must reject when changed (function code), -1: none
	fields func(any) string
}

func c18NamedA() c18Named {
	type request struct {
		MsgType      types.MsgType `uhppote:"value:0x94"`
		SerialNumber uint32        `uhppote:"offset:4"`
		Door         uint8         `uhppote:"offset:8"`
	}
	return c18Named{"A request{0x94 u32@4 u8@8}", request{SerialNumber: 0x01020304, Door: 3}, func() any { return &request{} },
		map[int]byte{0: 0x17, 1: 0x94, 4: 4, 5: 3, 6: 2, 7: 1, 8: 3}, 1,
		func(v any) string { r := v.(*request); return fmt.Sprintf("%d %d", r.SerialNumber, r.Door) }}
}

func c18NamedB() c18Named {
	type request struct {
		MsgType types.MsgType `uhppote:"value:0x20"`
		Door    uint8         `uhppote:"offset:9"`
		Delay   uint16        `uhppote:"offset:12"`
		On      bool          `uhppote:"offset:63"`
	}
	return c18Named{"B request{0x20 u8@9 u16@12 bool@63}", request{Door: 7, Delay: 0x1234, On: true}, func() any { return &request{} },
		map[int]byte{0: 0x17, 1: 0x20, 9: 7, 12: 0x34, 13: 0x12, 63: 1}, 1,
		func(v any) string { r := v.(*request); return fmt.Sprintf("%d %d %v", r.Door, r.Delay, r.On) }}
}

func c18NamedC() c18Named {
	type request struct {
		MsgType types.MsgType `uhppote:"value:0x5a"`
		Card    uint32        `uhppote:"offset:8"`
		PIN     types.PIN     `uhppote:"offset:61"`
		Address net.IP        `uhppote:"offset:20"`
	}
	return c18Named{"C request{0x5a u32@8 pin@61 ipv4@20}", request{Card: 0x0a0b0c0d, PIN: 0x030201, Address: net.IPv4(10, 1, 2, 3).To4()}, func() any { return &request{} },
		map[int]byte{0: 0x17, 1: 0x5a, 8: 0x0d, 9: 0x0c, 10: 0x0b, 11: 0x0a, 61: 1, 62: 2, 63: 3, 20: 10, 21: 1, 22: 2, 23: 3}, 1,
		func(v any) string { r := v.(*request); return fmt.Sprintf("%d %d %v", r.Card, r.PIN, r.Address) }}
}

func c18NamedD() c18Named {
	type request struct {
		Flag  bool   `uhppote:"offset:40"`
		Count uint16 `uhppote:"offset:62"`
	}
	return c18Named{"D request{bool@40 u16@62}", request{Flag: true, Count: 0xbeef}, func() any { return &request{} },
		map[int]byte{0: 0x17, 40: 1, 62: 0xef, 63: 0xbe}, -1,
		func(v any) string { r := v.(*request); return fmt.Sprintf("%v %d", r.Flag, r.Count) }}
}

// Embedded structs whose field names collide - with each other (E) or with a field of the enclosing struct (F). Legal Go (a
// selector would be ambiguous, nobody writes one) and a legal layout: every field has its own tag and its own offset.
func c18NamedE() c18Named {
	type Doors struct {
		Door1 uint8 `uhppote:"offset:28"`
		Door2 uint8 `uhppote:"offset:29"`
		Door3 uint8 `uhppote:"offset:30"`
		Door4 uint8 `uhppote:"offset:31"`
	}
	type Buttons struct {
		Door1 bool  `uhppote:"offset:32"`
		Door2 bool  `uhppote:"offset:33"`
		Door3 uint8 `uhppote:"offset:34"`
		Door4 uint8 `uhppote:"offset:35"`
	}
	type request struct {
		MsgType      types.MsgType `uhppote:"value:0x20"`
		SerialNumber uint32        `uhppote:"offset:4"`
		Doors
		Buttons
	}
	return c18Named{"E request{0x20 u32@4 Doors{Door1..4 u8@28..31} Buttons{Door1..2 bool@32..33 Door3..4 u8@34..35}}",
		request{SerialNumber: 0x01020304, Doors: Doors{11, 12, 13, 14}, Buttons: Buttons{true, true, 23, 24}}, func() any { return &request{} },
		map[int]byte{0: 0x17, 1: 0x20, 4: 4, 5: 3, 6: 2, 7: 1, 28: 11, 29: 12, 30: 13, 31: 14, 32: 1, 33: 1, 34: 23, 35: 24}, 1,
		func(v any) string {
			r := v.(*request)
			return fmt.Sprintf("%d %v %v", r.SerialNumber, r.Doors, r.Buttons)
		}}
}

func c18NamedF() c18Named {
	type Header struct {
		Index uint32 `uhppote:"offset:8"`
		Door  uint8  `uhppote:"offset:12"`
	}
	type request struct {
		MsgType types.MsgType `uhppote:"value:0x5c"`
		Header
		Index uint32 `uhppote:"offset:20"`
	}
	return c18Named{"F request{0x5c Header{Index u32@8 Door u8@12} Index u32@20}", request{Header: Header{Index: 0x0a0b0c0d, Door: 2}, Index: 0x01020304}, func() any { return &request{} },
		map[int]byte{0: 0x17, 1: 0x5c, 8: 0x0d, 9: 0x0c, 10: 0x0b, 11: 0x0a, 12: 2, 20: 4, 21: 3, 22: 2, 23: 1}, 1,
		func(v any) string { r := v.(*request); return fmt.Sprintf("%v %d", r.Header, r.Index) }}
}

func c18NamedTypes(c *Ctx) {
	cases := []c18Named{c18NamedA(), c18NamedB(), c18NamedC(), c18NamedD(), c18NamedE(), c18NamedF()}
	// the order of first use differs from batch to batch (whatever is remembered per type is remembered per process)
	for k := 0; k < c.Batch%len(cases); k++ {
		cases = append(cases[1:], cases[0])
	}
	for round := 0; round < 3; round++ {
		for i, nc := range cases {
			c.Res.Eval(1)
			c.Res.DistinctKey("named", nc.name, round, i)
			c.Res.Count("same-name-layouts", 1)
			w := map[string]any{"layout": nc.name, "type": reflect.TypeOf(nc.value).String(), "position_in_sequence": round*len(cases) + i}
			var enc []byte
			var err error
			func() {
				defer func() {
					if p := recover(); p != nil {
						err = fmt.Errorf("panic: %v", p)
					}
				}()
				enc, err = codec.Marshal(nc.value)
			}()
			if err != nil {
				c.Res.Violate("C18:named:encode", fmt.Sprintf("Marshal of layout %s (used after other struct types of the same name) failed: %v", nc.name, err), w, int64(i))
				continue
			}
			want := make([]byte, 64)
			for off, b := range nc.want {
				want[off] = b
			}
			if string(enc) != string(want) {
				w["got"], w["want"] = fmt.Sprintf("%x", enc), fmt.Sprintf("%x", want)
				c.Res.Violate("C18:named:encoding", fmt.Sprintf("layout %s (used after other struct types of the same name) encodes with bytes at the wrong places: offsets %v differ", nc.name, diffOffsets(want, enc)), w, int64(i))
				continue
			}
			fresh := nc.fresh()
			if err := safeUnmarshal(enc, fresh); err != nil {
				c.Res.Violate("C18:named:decode", fmt.Sprintf("layout %s: decoding its own encoding failed: %v", nc.name, err), w, int64(i))
				continue
			}
			orig := reflect.New(reflect.TypeOf(nc.value))
			orig.Elem().Set(reflect.ValueOf(nc.value))
			if a, b := nc.fields(fresh), nc.fields(orig.Interface()); a != b {
				c.Res.Violate("C18:named:roundtrip", fmt.Sprintf("layout %s decodes to {%s}, encoded {%s}", nc.name, a, b), w, int64(i))
			}
			if nc.wrong >= 0 {
				bad := append([]byte{}, enc...)
				bad[nc.wrong] ^= 0x41
				if err := safeUnmarshal(bad, nc.fresh()); err == nil {
					c.Res.Violate("C18:named:function-code-not-enforced", fmt.Sprintf("layout %s: a message with another function code was accepted", nc.name), w, int64(i))
				}
			}
		}
	}
}
