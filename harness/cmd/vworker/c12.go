package main

import (
	"fmt"
	"runtime"
	"sync"
	"sync/atomic"
	"verif/harness/gen"

	"github.com/uhppoted/uhppote-core/encoding/bcd"

	"verif/harness/wk"
)

func init() { registry["C12"] = c12 }

// reference BCD (independent of the library)
func refBCDEncode(s string) ([]byte, bool) {
	for i := 0; i < len(s); i++ { // bytes, not runes: any non-ASCII-digit byte is invalid
		if s[i] < '0' || s[i] > '9' {
			return nil, false
		}
	}
	if len(s)%2 == 1 {
		s = "0" + s
	}
	out := make([]byte, len(s)/2)
	for i := range out {
		out[i] = (s[2*i]-'0')<<4 | (s[2*i+1] - '0')
	}
	return out, true
}

func refBCDDecode(b []byte) (string, bool) {
	out := make([]byte, 0, 2*len(b))
	for _, x := range b {
		if x>>4 > 9 || x&0x0f > 9 {
			return "", false
		}
		out = append(out, '0'+x>>4, '0'+x&0x0f)
	}
	return string(out), true
}

func c12(c *Ctx) {
	c.Res.Rule = "exhaustive: all strings up to length L over a 12-symbol alphabet (digits 0 1 5 9, 'a', '/', ':', space, 'é', Arabic-Indic digit three, NUL, byte 0xff) and all byte slices up to length B; random: digit strings of length 0..64, one bad character / one bad nibble at every position; each case checks exact bytes, error <=> bad symbol, and both round trips; distinct = distinct inputs"
	r := c.Rng("main")
	// first use of the package by 16 goroutines at once (a fresh process per batch)
	firstUse(c, "C12:first-use", "the BCD coder", 12, func(g int) {
		for k := 0; k < 50; k++ {
			b := []byte{byte(0x10*((g+k)%10) + (k % 10)), 0x20, 0x24, byte(0x10*(k%10) + g%10)}
			want, _ := refBCDDecode(b)
			c.Res.Eval(1)
			if got, err := bcd.Decode(b); err != nil || got != want {
				c.Res.Violate("C12:first-use:decode", fmt.Sprintf("bcd.Decode(%x) = %q, %v (expected %q) when 16 goroutines used the package for the first time at the same moment", b, got, err, want), map[string]any{"input": wk.Hex(b)}, -10)
				return
			}
			s := want[k%3:]
			wantB, _ := refBCDEncode(s)
			if got, err := bcd.Encode(s); err != nil || got == nil || string(*got) != string(wantB) {
				c.Res.Violate("C12:first-use:encode", fmt.Sprintf("bcd.Encode(%q) = %x, %v (expected %x) when 16 goroutines used the package for the first time at the same moment", s, deref(got), err, wantB), map[string]any{"input": s}, -10)
				return
			}
		}
	})
	if c.Mode == "firstuse" {
		return
	}
	alphabet := []string{"0", "1", "5", "9", "a", "/", ":", " ", "é", "٣", "\x00", "\xff"}
	var caseNo int64

	checkEncode := func(s string, tag string) {
		caseNo++
		c.Res.Eval(1)
		c.Res.DistinctKey("e", s)
		want, ok := refBCDEncode(s)
		var got *[]byte
		var err error
		func() {
			defer func() {
				if p := recover(); p != nil {
					err = fmt.Errorf("panic: %v", p)
					c.Res.Violate("C12:encode:panic", fmt.Sprintf("bcd.Encode(%q) panicked: %v", s, p), map[string]any{"input": s}, caseNo)
				}
			}()
			got, err = bcd.Encode(s)
		}()
		if err != nil && len(err.Error()) > 6 && err.Error()[:6] == "panic:" {
			return
		}
		switch {
		case ok && (err != nil || got == nil):
			c.Res.Violate("C12:encode:rejects-digits", fmt.Sprintf("bcd.Encode(%q) failed on a digit string: %v", s, err), map[string]any{"input": s, "mode": tag}, caseNo)
		case ok && string(*got) != string(want):
			c.Res.Violate("C12:encode:wrong-bytes", fmt.Sprintf("bcd.Encode(%q) = %x, expected %x", s, *got, want), map[string]any{"input": s, "mode": tag}, caseNo)
		case !ok && err == nil:
			c.Res.Violate("C12:encode:accepts-non-digit", fmt.Sprintf("bcd.Encode(%q) accepted a non-digit character (result %x)", s, deref(got)), map[string]any{"input": fmt.Sprintf("%q", s), "mode": tag}, caseNo)
		}
		if ok && err == nil && got != nil {
			// Decode(Encode(s)) = pad(s)
			back, derr := bcd.Decode(*got)
			padded := s
			if len(s)%2 == 1 {
				padded = "0" + s
			}
			if derr != nil || back != padded {
				c.Res.Violate("C12:roundtrip:decode-encode", fmt.Sprintf("bcd.Decode(bcd.Encode(%q)) = %q, %v; expected %q", s, back, derr, padded), map[string]any{"input": s}, caseNo)
			}
			// the result belongs to the caller: whatever the caller does to it, encoding the same string again yields the same bytes
			for i := range *got {
				(*got)[i] = 0xff
			}
			if again, aerr := bcd.Encode(s); aerr != nil || again == nil || string(*again) != string(want) {
				c.Res.Violate("C12:encode:depends-on-earlier-result", fmt.Sprintf("bcd.Encode(%q) = %x after the caller overwrote the slice an earlier Encode of the same string returned; expected %x", s, deref(again), want), map[string]any{"input": s, "mode": tag}, caseNo)
			}
			// ... nor does growing it: append to a result, then encode other strings (an odd one first: its pad nibble must be zero)
			if caseNo%7 == 0 || s == "" {
				if first, ferr := bcd.Encode(s); ferr == nil && first != nil {
					kept := append([]byte{}, *first...)
					*first = append(*first, 0x99, 0x88, 0x77, 0x66, 0x55, 0x44, 0x33, 0x22) // the caller's pointer, the caller's slice
					defer func() { *first = kept }()
					for _, t := range []string{"789", "20241231", s} {
						wt, _ := refBCDEncode(t)
						if gt, terr := bcd.Encode(t); terr != nil || gt == nil || string(*gt) != string(wt) {
							c.Res.Violate("C12:encode:depends-on-earlier-result", fmt.Sprintf("bcd.Encode(%q) = %x after the caller appended to the slice an earlier Encode(%q) returned; expected %x", t, deref(gt), s, wt), map[string]any{"input": t, "earlier": s, "mode": tag}, caseNo)
							break
						}
					}
					if len(*first) < len(want) || string((*first)[:len(want)]) != string(want) {
						c.Res.Violate("C12:encode:depends-on-earlier-result", fmt.Sprintf("the result of bcd.Encode(%q) changed to %x when later strings were encoded", s, *first), map[string]any{"input": s, "mode": tag}, caseNo)
					}
				}
			}
			c.Res.Count("encode-ok", 1)
		} else {
			c.Res.Count("encode-rejected", 1)
		}
	}

	checkDecode := func(b []byte, tag string) {
		caseNo++
		c.Res.Eval(1)
		c.Res.DistinctKey("d", b)
		want, ok := refBCDDecode(b)
		orig := string(b)
		defer func() {
			if string(b) != orig {
				c.Res.Violate("C12:decode:modifies-input", fmt.Sprintf("bcd.Decode(%x) modified its input", []byte(orig)), map[string]any{"input": wk.Hex([]byte(orig))}, caseNo)
			}
		}()
		var got string
		var err error
		paniced := false
		func() {
			defer func() {
				if p := recover(); p != nil {
					paniced = true
					c.Res.Violate("C12:decode:panic", fmt.Sprintf("bcd.Decode(%x) panicked: %v", b, p), map[string]any{"input": wk.Hex(b)}, caseNo)
				}
			}()
			got, err = bcd.Decode(b)
		}()
		if paniced {
			return
		}
		switch {
		case ok && err != nil:
			c.Res.Violate("C12:decode:rejects-bcd", fmt.Sprintf("bcd.Decode(%x) failed on valid BCD: %v", b, err), map[string]any{"input": wk.Hex(b), "mode": tag}, caseNo)
		case ok && got != want:
			c.Res.Violate("C12:decode:wrong-digits", fmt.Sprintf("bcd.Decode(%x) = %q, expected %q", b, got, want), map[string]any{"input": wk.Hex(b), "mode": tag}, caseNo)
		case !ok && err == nil:
			c.Res.Violate("C12:decode:accepts-nibble>9", fmt.Sprintf("bcd.Decode(%x) = %q but a nibble exceeds 9", b, got), map[string]any{"input": wk.Hex(b), "mode": tag}, caseNo)
		}
		if ok && err == nil {
			back, eerr := bcd.Encode(got)
			if eerr != nil || back == nil || string(*back) != string(b) {
				c.Res.Violate("C12:roundtrip:encode-decode", fmt.Sprintf("bcd.Encode(bcd.Decode(%x)) = %x, %v", b, deref(back), eerr), map[string]any{"input": wk.Hex(b)}, caseNo)
			}
			c.Res.Count("decode-ok", 1)
		} else {
			c.Res.Count("decode-rejected", 1)
		}
	}

	checkEncode("", "empty")
	checkEncode("", "empty")
	// ---- several goroutines decode and encode at the same time, each coming back to its own few values (a date field is decoded over
	// and over while another goroutine decodes another one)
	{
		if old := runtime.GOMAXPROCS(0); old < 8 {
			runtime.GOMAXPROCS(8)
			defer runtime.GOMAXPROCS(old)
		}
		var wg sync.WaitGroup
		var nbad atomic.Int64
		per := c.N(30000, 300000)
		for g := 0; g < 8; g++ {
			wg.Add(1)
			go func(g int) {
				defer wg.Done()
				rr := gen.New(c.Seed, fmt.Sprintf("C12/concurrent/%d", g), c.Batch)
				mine := [][]byte{}
				for k := 0; k < 3; k++ {
					b := make([]byte, 1+rr.Pick(7))
					for i := range b {
						b[i] = byte(0x10*rr.Pick(10) + rr.Pick(10))
					}
					mine = append(mine, b)
				}
				for k := 0; k < per && nbad.Load() < 3; k++ {
					b := mine[rr.Pick(len(mine))]
					want, _ := refBCDDecode(b)
					got, err := bcd.Decode(b)
					if err != nil || got != want {
						nbad.Add(1)
						c.Res.Violate("C12:decode:concurrent", fmt.Sprintf("bcd.Decode(%x) = %q, %v (expected %q) while 8 goroutines decode their own values at the same time", b, got, err, want), map[string]any{"input": wk.Hex(b)}, -5)
						continue
					}
					if enc, eerr := bcd.Encode(want); eerr != nil || enc == nil || string(*enc) != string(b) {
						nbad.Add(1)
						c.Res.Violate("C12:encode:concurrent", fmt.Sprintf("bcd.Encode(%q) = %x, %v (expected %x) while 8 goroutines encode their own values at the same time", want, deref(enc), eerr, b), map[string]any{"input": want}, -5)
					}
				}
			}(g)
		}
		wg.Wait()
		c.Res.Eval(int64(8 * per))
		c.Res.Count("concurrent-decodes", int64(8*per))
	}
	// ---- exhaustive strings (the enumeration is split over batches by first symbol)
	L := c.N(5, 6)
	var rec func(prefix string, depth int)
	rec = func(prefix string, depth int) {
		checkEncode(prefix, "exhaustive")
		if depth == L {
			return
		}
		for _, a := range alphabet {
			rec(prefix+a, depth+1)
		}
	}
	if c.Batch == 0 {
		checkEncode("", "exhaustive")
	}
	for i, a := range alphabet {
		if i%c.NBatch == c.Batch {
			rec(a, 1)
		}
	}
	c.Res.Note("exhaustive-strings", fmt.Sprintf("all strings of length <= %d over the 12-symbol alphabet (partitioned over batches by first symbol)", L))

	// ---- exhaustive byte slices
	B := c.N(3, 3)
	if c.Batch == 0 {
		checkDecode([]byte{}, "exhaustive")
	}
	for first := c.Batch; first < 256; first += c.NBatch {
		checkDecode([]byte{byte(first)}, "exhaustive")
		for second := 0; second < 256; second++ {
			checkDecode([]byte{byte(first), byte(second)}, "exhaustive")
			if B >= 3 {
				for third := 0; third < 256; third++ {
					checkDecode([]byte{byte(first), byte(second), byte(third)}, "exhaustive")
				}
			}
		}
	}
	c.Res.Note("exhaustive-bytes", fmt.Sprintf("all byte slices of length <= %d (partitioned over batches by first byte)", B))
	c.Res.Exhaustive = true

	// ---- random: long digit strings, one bad character at every position
	N := c.N(20000, 300000)
	bad := []string{"a", "A", "f", "/", ":", " ", "-", "+", ".", "é", "٣", "\x00", "\xff", "\x80", "１", "x", "\n"}
	for i := 0; i < N; i++ {
		n := r.Pick(65)
		d := make([]byte, n)
		for k := range d {
			d[k] = byte('0' + r.Pick(10))
		}
		checkEncode(string(d), "random-digits")
		if n > 0 {
			pos := r.Pick(n)
			s := string(d[:pos]) + bad[r.Pick(len(bad))] + string(d[pos+1:])
			checkEncode(s, "one-bad-char")
			s2 := string(d[:pos]) + bad[r.Pick(len(bad))] + string(d[pos:])
			checkEncode(s2, "one-bad-char-inserted")
		}
		m := r.Pick(65)
		bb := make([]byte, m)
		for k := range bb {
			bb[k] = byte(r.Pick(10))<<4 | byte(r.Pick(10))
		}
		checkDecode(bb, "random-bcd")
		if m > 0 {
			pos := r.Pick(m)
			x := append([]byte{}, bb...)
			if r.Chance(0.5) {
				x[pos] = x[pos]&0x0f | byte(10+r.Pick(6))<<4
			} else {
				x[pos] = x[pos]&0xf0 | byte(10+r.Pick(6))
			}
			checkDecode(x, "one-bad-nibble")
		}
		// the caller's buffer is reused: the next record is read into the same memory (other digits, or a nibble above 9) and decoded
		// again - what comes out is what is in the buffer now
		if m > 0 && i%3 == 0 {
			buf := make([]byte, m)
			for k := range buf {
				buf[k] = byte(r.Pick(10))<<4 | byte(r.Pick(10))
			}
			checkDecode(buf, "reused-buffer:first")
			for k := range buf {
				buf[k] = byte(r.Pick(10))<<4 | byte(r.Pick(10))
			}
			if r.Chance(0.4) {
				buf[r.Pick(m)] |= 0xa0
			}
			checkDecode(buf, "reused-buffer:overwritten")
		}
	}
	// fields that are all zero, of every length (an empty record)
	for n := 0; n <= 64; n++ {
		checkDecode(make([]byte, n), "all-zero")
	}
	// results the caller has kept (the slice, not the pointer it came in) survive garbage collections and later encodes of the same length
	{
		type kept struct {
			b    []byte
			want string
		}
		ks := []kept{}
		for i := 0; i < 600; i++ {
			n := 1 + r.Pick(16)
			d := make([]byte, n)
			for k := range d {
				d[k] = byte('0' + r.Pick(10))
			}
			if p, err := bcd.Encode(string(d)); err == nil && p != nil {
				ks = append(ks, kept{*p, string(*p)})
			}
			if i%100 == 99 {
				runtime.GC()
				runtime.GC()
			}
		}
		c.Res.Eval(1)
		for _, k := range ks {
			if string(k.b) != k.want {
				c.Res.Violate("C12:encode:result-changes-later", fmt.Sprintf("a result of bcd.Encode that the caller kept (%x) reads %x after garbage collections and later encodes", []byte(k.want), k.b), nil, caseNo)
				break
			}
		}
		c.Res.Count("encode-results-kept-across-garbage-collections", int64(len(ks)))
	}
	// zero bytes decode to zero digits - whether the empty slice is nil or not
	checkDecode(nil, "nil")
	checkDecode([]byte(nil)[0:0], "nil")
	checkDecode(make([]byte, 0, 8), "empty")
	// every Unicode code point as a one character string and embedded between digits (all of the BMP; beyond it
	// every code point in thorough, every 7th in quick), partitioned over batches; plus invalid UTF-8 bytes
	step := 7
	if c.Thorough() {
		step = 1
	}
	for cp := c.Batch; cp <= 0x10ffff; cp += c.NBatch {
		if cp > 0xffff && (cp/c.NBatch)%step != 0 {
			continue
		}
		if cp >= 0xd800 && cp <= 0xdfff {
			continue
		}
		s := string(rune(cp))
		checkEncode(s, "every-code-point")
		checkEncode("12"+s, "every-code-point")
		checkEncode(s+"345", "every-code-point")
	}
	c.Res.Count("code-points-swept", 1)
	for i := 0; i < N/4; i++ {
		// random multi-byte runes (low byte of the code point in the digit range now and then) inside digit strings
		cp := rune(r.Pick(0x110000))
		if r.Chance(0.5) {
			cp = rune(r.Pick(0x1100)<<8 | 0x30 + r.Pick(10))
		}
		if cp >= 0xd800 && cp <= 0xdfff {
			continue
		}
		n := r.Pick(12)
		d := make([]byte, n)
		for k := range d {
			d[k] = byte('0' + r.Pick(10))
		}
		pos := 0
		if n > 0 {
			pos = r.Pick(n + 1)
		}
		checkEncode(string(d[:pos])+string(cp)+string(d[pos:]), "random-rune")
	}
	// every position of a 64-digit string / 64-byte slice, high and low nibble
	for pos := 0; pos < 64; pos++ {
		d := []byte("1234567890123456789012345678901234567890123456789012345678901234")
		d[pos] = 'a'
		checkEncode(string(d), "bad-char-at-every-position")
		for _, hi := range []bool{true, false} {
			bb := make([]byte, 64)
			for k := range bb {
				bb[k] = 0x42
			}
			if hi {
				bb[pos] = 0xa2
			} else {
				bb[pos] = 0x4a
			}
			checkDecode(bb, "bad-nibble-at-every-position")
		}
	}
	c.Res.Sample(map[string]any{"encode": "12345", "expected": "012345"})
	c.Res.Sample(map[string]any{"decode": "0a", "expected": "error"})
}

func deref(b *[]byte) []byte {
	if b == nil {
		return nil
	}
	return *b
}
