package main

import (
	"fmt"
	"net"
	"net/netip"
	"os"
	"strings"
	"sync"
	"sync/atomic"
	"time"

	"github.com/uhppoted/uhppote-core/types"
	"github.com/uhppoted/uhppote-core/uhppote"

	"verif/harness/adapter"
	"verif/harness/farm"
	"verif/harness/gen"
	rm "verif/harness/refmodel"
	"verif/harness/wk"
)

func init() { registry["C06"] = c06 }

// freePort asks the OS for a free UDP+TCP port on ip.
func freePort(ip string) int {
	for try := 0; try < 50; try++ {
		l, err := net.ListenTCP("tcp4", &net.TCPAddr{IP: net.ParseIP(ip)})
		if err != nil {
			continue
		}
		port := l.Addr().(*net.TCPAddr).Port
		u, err2 := net.ListenUDP("udp4", &net.UDPAddr{IP: net.ParseIP(ip), Port: port})
		l.Close()
		if err2 != nil {
			continue
		}
		u.Close()
		if port != 60000 {
			return port
		}
	}
	return 0
}

// unlistenedPort returns a port on ip at which nobody listens - and nobody will: it lies below the range the kernel assigns
// ports from (32768..60999), so that no farm endpoint or client socket of this or any other process can be given it later (a
// port that was merely free at the time it was chosen can become another process's farm endpoint a minute later, and the
// requests meant to be refused would arrive there).
func unlistenedPort(ip string) int {
	seed := uint32(os.Getpid())*2654435761 + uint32(time.Now().UnixNano())
	for try := 0; try < 200; try++ {
		seed = seed*1664525 + 1013904223
		port := 12000 + int(seed>>8)%18000
		l, err := net.ListenTCP("tcp4", &net.TCPAddr{IP: net.ParseIP(ip), Port: port})
		if err != nil {
			continue
		}
		u, err2 := net.ListenUDP("udp4", &net.UDPAddr{IP: net.ParseIP(ip), Port: port})
		l.Close()
		if err2 != nil {
			continue
		}
		u.Close()
		return port
	}
	return 0
}

type c06Farm struct {
	fm    *farm.Farm
	bcast *farm.Endpoint
	udp   []*farm.Endpoint
	tcp   []*farm.Endpoint
}

func newC06Farm(nctl int) (*c06Farm, error) {
	f := &c06Farm{fm: farm.New()}
	var err error
	if f.bcast, err = f.fm.AddUDP("127.0.0.1", 0); err != nil {
		return nil, err
	}
	for k := 0; k < nctl; k++ {
		// a UDP and a TCP controller on the same port number, so that a request sent over the wrong transport still arrives somewhere
		var u, t *farm.Endpoint
		for try := 0; try < 20 && t == nil; try++ {
			u, err = f.fm.AddUDP("127.0.0.1", 0)
			if err != nil {
				return nil, err
			}
			t, err = f.fm.AddTCP("127.0.0.1", u.Port)
			if err != nil {
				t = nil
			}
		}
		if t == nil {
			return nil, fmt.Errorf("cannot pair UDP and TCP endpoints: %v", err)
		}
		f.udp = append(f.udp, u)
		f.tcp = append(f.tcp, t)
	}
	return f, nil
}

func c06(c *Ctx) {
	c.Res.Rule = "client configurations are generated over {controller not configured, zero address, 0.0.0.0:p, a.b.c.d:0, valid} x protocol strings {udp,tcp,any,'',TCP,xyz} x {NewDevice, struct literal} x bind {127.0.0.1:0, 127.0.0.2:0, fixed port} x broadcast {set, unset}; every operation is called; loopback layer: a farm of paired UDP/TCP controller endpoints and one broadcast endpoint logs every arrival (endpoint, transport, source address, bytes) and the log is compared with the routing rule: exactly one arrival, at the right endpoint, over the right transport, from the bind address, with the reference bytes, nothing anywhere else; hooked layer: transport method and address seen at the driver hook (decides the unset 255.255.255.255:60000 default); distinct = distinct (layer, operation, controller state, protocol string, bind kind, broadcast set)"
	if c.Mode == "hook" {
		c06Hook(c)
		return
	}
	if c.Mode == "netns" {
		c06Netns(c)
		return
	}
	c06Loopback(c)
}

// c06History makes 0..3 earlier calls on the client that is about to make the judged call (SetAddress with another
// endpoint's IP address, ordinary operations, discovery): where a request goes is a function of the configuration
// the client was built with and of the current call only. prepare() is told which operation comes next so that
// the farm / the scripted driver can answer it.
func c06History(r gen.R, u uhppote.IUHPPOTE, cfg ClientCfg, serial uint32, otherIPs [][4]byte, allowDiscovery bool, prepare func(op *rm.Op, serial uint32, a rm.Vals)) []string {
	hist := []string{}
	n := 0
	if len(otherIPs) > 0 && r.Chance(0.45) {
		n = 1 + r.Pick(3)
	}
	if r.Chance(0.3) {
		// the application looks at the controller list and edits what it was given: the list is its own copy - where the client
		// sends the judged operation is decided by the configuration the client was built with
		func() {
			defer func() { recover() }()
			list := u.DeviceList()
			what := "DeviceList(): "
			for id, dev := range list {
				switch r.Pick(3) {
				case 0:
					delete(list, id)
					what += fmt.Sprintf("deleted %d; ", id)
				case 1:
					dev.Protocol = map[string]string{"tcp": "udp"}[dev.Protocol]
					if dev.Protocol == "" {
						dev.Protocol = "tcp"
					}
					if len(otherIPs) > 0 {
						ip := otherIPs[r.Pick(len(otherIPs))]
						dev.Address = types.ControllerAddr{AddrPort: netip.AddrPortFrom(netip.AddrFrom4(ip), 60000)}
					}
					list[id] = dev
					what += fmt.Sprintf("rerouted %d; ", id)
				}
			}
			if _, ok := list[serial]; !ok && len(otherIPs) > 0 {
				ip := otherIPs[r.Pick(len(otherIPs))]
				list[serial] = uhppote.Device{Name: "x", DeviceID: serial, Address: types.ControllerAddr{AddrPort: netip.AddrPortFrom(netip.AddrFrom4(ip), 60000)}, Protocol: "udp", TimeZone: time.UTC}
				what += fmt.Sprintf("added %d", serial)
			}
			hist = append(hist, what)
		}()
	}
	for h := 0; h < n; h++ {
		target := serial
		if len(cfg.Devices) > 0 && r.Chance(0.4) {
			target = cfg.Devices[r.Pick(len(cfg.Devices))].ID
		}
		switch x := r.Pick(10); {
		case x < 5:
			ip := otherIPs[r.Pick(len(otherIPs))]
			op := rm.FindOp("SetAddress")
			a := rm.Vals{"Address": rm.IPVal(ip[0], ip[1], ip[2], ip[3]), "Mask": rm.IPVal(255, 255, 255, 0), "Gateway": rm.IPVal(ip[0], ip[1], ip[2], 1)}
			prepare(op, target, a)
			adapter.SafeCall(u, "SetAddress", target, a, adapter.Aux{})
			hist = append(hist, fmt.Sprintf("SetAddress(%d, %d.%d.%d.%d)", target, ip[0], ip[1], ip[2], ip[3]))
		case x < 7 || !allowDiscovery:
			ops := replyOps()
			op := ops[r.Pick(len(ops))]
			a, p := r.Args(op)
			aux := toAux(p)
			fixArgs(op, a, aux)
			prepare(op, target, a)
			adapter.SafeCall(u, op.Name, target, a, aux)
			hist = append(hist, fmt.Sprintf("%s(%d)", op.Name, target))
		default:
			prepare(rm.FindOp("GetDevices"), 0, nil)
			u.GetDevices()
			hist = append(hist, "GetDevices()")
		}
	}
	return hist
}

// c06NetCalls: the entries of a history that put a request on the network (editing the controller list does not).
func c06NetCalls(hist []string) int {
	n := 0
	for _, h := range hist {
		if !strings.HasPrefix(h, "DeviceList()") {
			n++
		}
	}
	return n
}

// c06Noise: datagrams a correct client ignores (broadcast path) that the farm sends ahead of the valid reply -
// another controller answering the same broadcast, a runt. They must not make the client send anything again.
func c06Noise(r gen.R, reply []byte) [][]byte {
	out := [][]byte{}
	if reply == nil || !r.Chance(0.35) {
		return out
	}
	for k := 0; k < 1+r.Pick(2); k++ {
		b := append([]byte{}, reply...)
		if r.Chance(0.6) {
			b[5] ^= 0x55 // another controller's serial number
		} else {
			b = b[:1+r.Pick(63)]
		}
		out = append(out, b)
	}
	return out
}

type c06Dev struct {
	state string // none | zero | unspecified | port0 | valid
	proto string
	newd  bool
}

var c06States = []string{"none", "zero", "unspecified", "port0", "valid"}
var c06Protos = []string{"udp", "tcp", "any", "", "TCP", "xyz"}

func c06Hook(c *Ctx) {
	r := c.Rng("hook")
	ops := append([]*rm.Op{rm.FindOp("GetDevices")}, reqOps()...)
	N := c.N(40000, 600000)
	for i := 0; i < N; i++ {
		caseNo := int64(i)
		serial := r.Serial()
		dv := c06Dev{c06States[r.Pick(5)], c06Protos[r.Pick(6)], r.Chance(0.5)}
		cfg := ClientCfg{Bind: []string{"0.0.0.0:0", "127.0.0.1:0", "192.168.1.10:54321", ""}[r.Pick(4)]}
		bset := r.Chance(0.5)
		if bset {
			cfg.Broadcast = fmt.Sprintf("192.168.%d.255:%d", r.Pick(256), []int{60000, 60001, 59999, 1 + r.Pick(65535)}[r.Pick(4)])
		}
		// other controllers around it
		for k := 0; k < r.Pick(3); k++ {
			cfg.Devices = append(cfg.Devices, DevCfg{ID: r.Serial(), Addr: fmt.Sprintf("10.9.%d.%d:60000", r.Pick(256), 1+r.Pick(254)), Proto: c06Protos[r.Pick(6)], NewDevice: r.Chance(0.5)})
		}
		switch dv.state {
		case "zero":
			cfg.Devices = append(cfg.Devices, DevCfg{ID: serial, Addr: "", Proto: dv.proto, NewDevice: dv.newd})
		case "unspecified":
			cfg.Devices = append(cfg.Devices, DevCfg{ID: serial, Addr: fmt.Sprintf("0.0.0.0:%d", r.Port()), Proto: dv.proto, NewDevice: dv.newd})
		case "port0":
			cfg.Devices = append(cfg.Devices, DevCfg{ID: serial, Addr: fmt.Sprintf("10.1.%d.%d:0", r.Pick(256), 1+r.Pick(254)), Proto: dv.proto, NewDevice: dv.newd})
		case "valid":
			cfg.Devices = append(cfg.Devices, DevCfg{ID: serial, Addr: fmt.Sprintf("10.1.%d.%d:%d", r.Pick(256), 1+r.Pick(254), r.Port()), Proto: dv.proto, NewDevice: dv.newd})
		}
		u, d := mkMemClient(cfg)
		op := ops[r.Pick(len(ops))]
		a, p := r.Args(op)
		aux := toAux(p)
		fixArgs(op, a, aux)
		reply := validReply(r, op, serial, a)
		var scripted []byte
		d.Script = func(adapter.Invocation) ([][]byte, error) {
			if scripted == nil {
				return nil, nil
			}
			return [][]byte{scripted}, nil
		}
		hist := c06History(r, u, cfg, serial, [][4]byte{{10, 9, 8, 7}, {192, 168, 1, 1}, {127, 0, 0, 1}}, true, func(hop *rm.Op, hs uint32, ha rm.Vals) {
			scripted = nil
			if !hop.Discovery && !hop.NoReply {
				scripted = validReply(r, hop, hs, ha)
			}
			if hop.Discovery && r.Pick(3) > 0 {
				scripted = validReply(r, hop, serial, ha) // an earlier discovery finds the judged controller, which reports some address of its own
			}
		})
		before := len(d.Invocations())
		scripted = nil
		if !op.Discovery {
			scripted = reply
		}
		if op.Discovery {
			u.GetDevices()
		} else {
			adapter.SafeCall(u, op.Name, serial, a, aux)
		}
		inv := d.Invocations()[before:]
		if len(hist) > 0 {
			c.Res.Count("hook:cases-with-earlier-calls-on-the-client", 1)
		}
		c.Res.Eval(1)
		c.Res.DistinctKey("hook", op.Name, dv.state, dv.proto, dv.newd, bset)
		wantM, wantA := refRoute(cfg, serial)
		if op.Discovery {
			wantM = "Broadcast"
			wantA = "255.255.255.255:60000"
			if cfg.Broadcast != "" {
				wantA = cfg.Broadcast
			}
		}
		w := map[string]any{"layer": "hook", "op": op.Name, "config": fmt.Sprintf("%+v", cfg), "controller": dv.state, "protocol": dv.proto, "newdevice": dv.newd, "earlier_calls_on_this_client": hist}
		key := fmt.Sprintf("C06:hook:%s:%s", dv.state, wantM)
		if !bset && wantM != "SendUDP" && wantM != "SendTCP" {
			key = "C06:default-broadcast-address"
		}
		if len(inv) != 1 {
			c.Res.Violate(key+":count", fmt.Sprintf("%s: %d transport invocations for one call (controller %s, protocol %q)", op.Name, len(inv), dv.state, dv.proto), w, caseNo)
			continue
		}
		if inv[0].Method != wantM || inv[0].Addr != wantA {
			c.Res.Violate(key, fmt.Sprintf("%s for a controller that is %s (protocol %q, broadcast set=%v) went to %s %s, the routing rule says %s %s", op.Name, dv.state, dv.proto, bset, inv[0].Method, inv[0].Addr, wantM, wantA), w, caseNo)
		}
		if i%4999 == 0 {
			c.Res.Sample(map[string]any{"layer": "hook", "op": op.Name, "controller": dv.state, "protocol": dv.proto, "method": inv[0].Method, "addr": inv[0].Addr})
		}
	}
}

func c06Loopback(c *Ctx) {
	T := 100 * time.Millisecond
	workers := 8
	N := c.N(400, 6000) // cases per worker goroutine
	ops := append([]*rm.Op{rm.FindOp("GetDevices")}, reqOps()...)
	var wg sync.WaitGroup
	var hung atomic.Bool
	for w := 0; w < workers; w++ {
		wg.Add(1)
		go func(w int) {
			defer wg.Done()
			r := gen.New(c.Seed, fmt.Sprintf("C06/loopback/w%d", w), c.Batch)
			f, err := newC06Farm(3)
			if err != nil {
				c.Res.Inconcl("cannot build farm: " + err.Error())
				return
			}
			defer f.fm.Close()
			refusedPort := unlistenedPort("127.0.0.1")
			// the farm answers every well-formed request with a valid reply for its function code
			var cur struct {
				sync.Mutex
				op     *rm.Op
				serial uint32
				args   rm.Vals
				reply  []byte
				noise  [][]byte
				delay  time.Duration // < 0: no reply at all
			}
			f.fm.SetScript(func(ep *farm.Endpoint, src net.Addr, req []byte, seq uint64) []farm.Action {
				cur.Lock()
				defer cur.Unlock()
				if cur.op == nil || cur.op.NoReply || len(req) != 64 {
					return nil
				}
				if cur.delay < -1 && ep.Proto == "tcp" {
					// the controller drops the connection - closed or reset - without answering the request it has read
					return []farm.Action{{Close: cur.delay == -2, Reset: cur.delay == -3}}
				}
				if cur.delay < 0 {
					return nil
				}
				out := []farm.Action{{Delay: cur.delay}}
				if ep.Proto == "udp" {
					for _, b := range cur.noise {
						out = append(out, farm.Action{Data: b})
					}
				}
				return append(out, farm.Action{Data: cur.reply})
			})
			prevCase := ""
			// the farm's log is not ordered with the cases: a request of an earlier call (a TCP request is read by the farm when its
			// goroutine gets to it) can be logged after the next case has begun. Arrivals are therefore attributed by content: the
			// reference encodings of the last requests this worker made are remembered, and an arrival that is one of those is a late
			// log entry, not a request of the judged call.
			recent := map[string]int{}
			recentQ := []string{}
			remember := func(b []byte) {
				k := string(b)
				recent[k]++
				recentQ = append(recentQ, k)
				if len(recentQ) > 64 {
					old := recentQ[0]
					recentQ = recentQ[1:]
					if recent[old]--; recent[old] <= 0 {
						delete(recent, old)
					}
				}
			}
			for i := 0; i < N && !hung.Load(); i++ {
				caseNo := int64(w*N + i)
				serial := uint32(0x40000000) + uint32(c.Batch)<<24 + uint32(w)<<20 + uint32(i) + 1
				dv := c06Dev{c06States[r.Pick(5)], c06Protos[r.Pick(6)], r.Chance(0.5)}
				if i%3 == 0 {
					dv.state = "valid"
				}
				if r.Chance(0.25) {
					dv.proto = "tcp"
				}
				if i%11 == 5 {
					dv.state = "refusing" // configured with a usable address at which nobody listens: the request is refused - and goes nowhere else
				}
				effTCP := dv.proto == "tcp"
				k := r.Pick(3)
				bindKind := []string{"127.0.0.1:0", "127.0.0.2:0", "fixed"}[r.Pick(3)]
				cfg := ClientCfg{Broadcast: f.bcast.Addr, Timeout: T}
				fixedPort := 0
				switch bindKind {
				case "fixed":
					fixedPort = freePort("127.0.0.1")
					for try := 0; try < 20 && fixedPort == refusedPort; try++ {
						fixedPort = freePort("127.0.0.1") // (a TCP connect from a port to the same port on the same address connects to itself)
					}
					if fixedPort == 0 {
						c.Res.Inconcl("no free port for a fixed bind address")
						continue
					}
					cfg.Bind = fmt.Sprintf("127.0.0.1:%d", fixedPort)
				default:
					cfg.Bind = bindKind
				}
				if bindKind == "fixed" && i%4 == 1 && !effTCP {
					// round 9: the fixed bind port has the same number as the broadcast address's port (another local address, so both
					// can be bound): still "from the configured bind address" (seeded C06-V: the broadcast paths fall back to port 0)
					bindKind = "fixed-same-port-as-broadcast"
					fixedPort = f.bcast.Port
					cfg.Bind = fmt.Sprintf("127.0.0.2:%d", fixedPort)
					c.Res.Count("loopback:cases-with-bind-port-equal-to-broadcast-port", 1)
				}
				if bindKind == "fixed" && i%4 == 3 {
					// round 11: the listen address has the same port number as the fixed bind port (seeded C06-X: the constructor then
					// quietly binds requests to port 0 'to avoid a clash with the event listener')
					cfg.Listen = fmt.Sprintf("0.0.0.0:%d", fixedPort)
					c.Res.Count("loopback:cases-with-listen-port-equal-to-bind-port", 1)
				}
				// other configured controllers (must stay silent)
				for j := 0; j < 3; j++ {
					if j != k && r.Chance(0.7) {
						addr := f.udp[j].Addr
						cfg.Devices = append(cfg.Devices, DevCfg{ID: serial ^ uint32(0x01000000*(j+1)), Addr: addr, Proto: c06Protos[r.Pick(6)], NewDevice: r.Chance(0.5)})
					}
				}
				switch dv.state {
				case "zero":
					cfg.Devices = append(cfg.Devices, DevCfg{ID: serial, Addr: "", Proto: dv.proto, NewDevice: dv.newd})
				case "unspecified":
					cfg.Devices = append(cfg.Devices, DevCfg{ID: serial, Addr: fmt.Sprintf("0.0.0.0:%d", f.udp[k].Port), Proto: dv.proto, NewDevice: dv.newd})
				case "port0":
					cfg.Devices = append(cfg.Devices, DevCfg{ID: serial, Addr: "127.0.0.1:0", Proto: dv.proto, NewDevice: dv.newd})
				case "valid":
					cfg.Devices = append(cfg.Devices, DevCfg{ID: serial, Addr: f.udp[k].Addr, Proto: dv.proto, NewDevice: dv.newd}) // same port number for UDP and TCP
				case "refusing":
					cfg.Devices = append(cfg.Devices, DevCfg{ID: serial, Addr: fmt.Sprintf("127.0.0.1:%d", refusedPort), Proto: dv.proto, NewDevice: dv.newd})
				}
				cfg.Debug = i%13 == 4 // now and then a client that logs every message
				op := ops[r.Pick(len(ops))]
				a, p := r.Args(op)
				aux := toAux(p)
				fixArgs(op, a, aux)
				u := mkClient(cfg)
				total := func() int64 {
					var n int64
					for _, ep := range f.fm.Endpoints {
						n += ep.Recv.Load()
					}
					return n
				}
				histBefore := total()
				histCfg := cfg
				if dv.state == "refusing" {
					histCfg.Devices = nil // earlier calls go to the judged controller only... which refuses: none are made (their requests could not be counted)
				}
				histIPs := [][4]byte{{127, 0, 0, 2}, {127, 0, 0, 9}, {10, 9, 8, 7}}
				if dv.state == "refusing" || fixedPort != 0 {
					histIPs = nil // (two TCP calls in a row from one fixed port to one endpoint: the kernel refuses the second - TIME_WAIT)
				}
				hist := c06History(r, u, histCfg, serial, histIPs, i%8 == 7 && dv.state != "refusing", func(hop *rm.Op, hs uint32, ha rm.Vals) {
					remember(hop.Request(hs, ha))
					cur.Lock()
					cur.op, cur.serial, cur.args, cur.noise, cur.delay = hop, hs, ha, nil, 0
					cur.reply = validReply(r, hop, hs, ha)
					if hop.Discovery {
						// an earlier discovery is answered by the judged controller itself, reporting whatever address it has (2 of 3), or by another one
						cur.reply = validReply(r, hop, map[bool]uint32{true: serial, false: 77}[r.Pick(3) > 0], ha)
					}
					cur.Unlock()
				})
				if len(hist) > 0 {
					// let the farm see (and answer) everything the earlier calls sent before the judged call starts
					// every earlier call put exactly one request on the network: wait (bounded) until the farm has logged them all -
					// a TCP request of a call that does not wait for a reply can be read by the farm well after the call returned
					for q := 0; q < 500 && total() < histBefore+int64(c06NetCalls(hist)); q++ {
						time.Sleep(2 * time.Millisecond)
					}
					if total() < histBefore+int64(c06NetCalls(hist)) {
						c.Res.Count("loopback:diag:history-arrivals-missing-after-1s", 1)
						c.Res.Note("diag-hist", fmt.Sprintf("%v state=%s proto=%s cfg=%+v", hist, dv.state, dv.proto, cfg))
					}
					time.Sleep(3 * time.Millisecond)
					f.fm.WaitIdle(2 * time.Second)
					c.Res.Count("loopback:cases-with-earlier-calls-on-the-client", 1)
				}
				cur.Lock()
				cur.op, cur.serial, cur.args = op, serial, a
				if op.Discovery {
					cur.reply = validReply(r, op, r.Serial(), a)
				} else {
					cur.reply = validReply(r, op, serial, a)
				}
				cur.noise = c06Noise(r, cur.reply)
				// a reply that takes most of the timeout, or never comes: still exactly one request
				cur.delay = 0
				replyClass := "prompt"
				switch x := r.Pick(20); {
				case x < 1:
					cur.delay, replyClass = T*65/100, "after-0.65T"
				case x < 2:
					cur.delay, replyClass = -1, "never"
				case x < 3:
					cur.delay, replyClass = -2, "never(tcp: connection closed after the request was read)"
				case x < 4:
					cur.delay, replyClass = -3, "never(tcp: connection reset after the request was read)"
				}
				c.Res.Count("loopback:reply:"+replyClass, 1)
				nNoise := len(cur.noise)
				cur.Unlock()
				if nNoise > 0 {
					c.Res.Count("loopback:cases-with-stray-datagrams-before-the-reply", 1)
				}
				f.fm.ResetLog()
				udpDropsBefore := rcvbufErrors()
				recvBefore := total()
				twin := i%10 == 3 && !op.Discovery && dv.state != "refusing" && replyClass == "prompt" && fixedPort == 0 && op.Name != "SetTime"
				wantN := 1
				if twin {
					wantN = 2
					c.Res.Count("loopback:cases-with-the-identical-call-from-two-goroutines", 1)
				}
				var out rm.Outcome
				start := time.Now()
				callDone := make(chan struct{})
				go func() {
					select {
					case <-callDone:
					case <-time.After(T + 20*time.Second):
						// (a host that was frozen for 20 s makes this timer and the call's own deadline expire together: live time for the
						// call to come back before it is called a hang - see liveAfter)
						back := false
						for i := 0; i < 20 && !back; i++ {
							select {
							case <-callDone:
								back = true
							case <-time.After(100 * time.Millisecond):
							}
						}
						if back {
							c.Res.Count("loopback:watchdog-fired-but-the-call-came-back (host frozen)", 1)
							return
						}
						// a call that does not come back: nothing after it on this worker can be judged (and the batch would only meet its watchdog)
						c.Res.Eval(1)
						c.Res.Violate("C06:loopback:hang", fmt.Sprintf("%s (controller %s, protocol %q, bind %s) did not return within T+20s (T=%v)", op.Name, dv.state, dv.proto, cfg.Bind, T),
							map[string]any{"layer": "loopback", "op": op.Name, "config": fmt.Sprintf("%+v", cfg), "previous_case": prevCase}, caseNo)
						hung.Store(true)
					}
				}()
				if op.Discovery {
					if _, err := u.GetDevices(); err != nil {
						out.Err = err.Error()
					}
				} else {
					// every tenth case: the identical call from a second goroutine at the same time - two calls, two requests
					var twinDone chan struct{}
					if twin {
						twinDone = make(chan struct{})
						go func() {
							defer close(twinDone)
							adapter.SafeCall(u, op.Name, serial, a, aux)
						}()
					}
					out, _ = adapter.SafeCall(u, op.Name, serial, a, aux)
					if twin {
						<-twinDone
					}
				}
				elapsed := time.Since(start)
				close(callDone)
				// quiescence: wait (bounded) until the request has been logged, then a little longer for stray duplicates
				waitArrival := 500
				if dv.state == "refusing" && !op.Discovery {
					waitArrival = 10 // nothing is expected to arrive anywhere
				}
				for k := 0; k < waitArrival && total() < recvBefore+int64(wantN); k++ { // every call made has returned: its request is on its way to the farm's log
					time.Sleep(2 * time.Millisecond)
				}
				if total() < recvBefore+int64(wantN) && waitArrival > 10 {
					c.Res.Count("loopback:diag:arrival-missing-after-1s", 1)
				}
				time.Sleep(3 * time.Millisecond)
				f.fm.WaitIdle(2 * time.Second)
				events := f.fm.Events()

				// ---- expectation
				var wantEP *farm.Endpoint
				wantProto := "udp"
				switch {
				case op.Discovery:
					wantEP = f.bcast
				case dv.state == "valid" && effTCP:
					wantEP, wantProto = f.tcp[k], "tcp"
				case dv.state == "valid":
					wantEP = f.udp[k]
				default:
					wantEP = f.bcast
				}
				if dv.state == "refusing" && !op.Discovery {
					c.Res.Eval(1)
					c.Res.DistinctKey("loopback", op.Name, dv.state, dv.proto, dv.newd, bindKind)
					c.Res.Count("loopback:route:refusing-endpoint", 1)
					n := 0
					desc := []string{}
					for _, e := range events {
						if e.Kind == "recv" {
							if string(e.Data) != string(op.Request(serial, a)) && recent[string(e.Data)] > 0 {
								c.Res.Count("loopback:late-log-entries-of-earlier-calls(attributed by content)", 1)
								continue
							}
							n++
							desc = append(desc, fmt.Sprintf("%s endpoint %s from %s (%d bytes)", e.Proto, f.fm.Endpoints[e.Endpoint].Addr, e.Src, len(e.Data)))
						}
					}
					if n > 0 {
						c.Res.Violate("C06:loopback:refusing:"+map[bool]string{true: "tcp", false: "udp"}[effTCP]+":elsewhere", fmt.Sprintf("%s for a controller configured at 127.0.0.1:%d (nobody listens there: the request is refused) arrived somewhere else: %v", op.Name, refusedPort, desc),
							map[string]any{"layer": "loopback", "op": op.Name, "config": fmt.Sprintf("%+v", cfg), "arrivals": desc, "err": out.Err, "earlier_calls_on_this_client": hist}, caseNo)
					}
					continue
				}
				wantSerial := serial
				if op.Discovery {
					wantSerial = 0
				}
				wantReq := op.Request(wantSerial, a)
				c.Res.Eval(1)
				c.Res.DistinctKey("loopback", op.Name, dv.state, dv.proto, dv.newd, bindKind)
				c.Res.Count("loopback:route:"+wantProto+":"+map[bool]string{true: "broadcast-endpoint", false: "controller"}[wantEP == f.bcast], 1)

				remember(wantReq)
				collect := func(evs []farm.Event) []farm.Event {
					out := []farm.Event{}
					for _, e := range evs {
						if e.Kind == "recv" {
							if string(e.Data) != string(wantReq) && recent[string(e.Data)] > 0 {
								c.Res.Count("loopback:late-log-entries-of-earlier-calls(attributed by content)", 1)
								continue
							}
							out = append(out, e)
						}
					}
					return out
				}
				recvs := collect(events)
				desc := []string{}
				for _, e := range recvs {
					desc = append(desc, fmt.Sprintf("%s endpoint %s from %s (%d bytes)", e.Proto, f.fm.Endpoints[e.Endpoint].Addr, e.Src, len(e.Data)))
				}
				wv := map[string]any{"layer": "loopback", "op": op.Name, "config": fmt.Sprintf("%+v", cfg), "controller": dv.state, "protocol": dv.proto, "bind": cfg.Bind,
					"expected": fmt.Sprintf("%s %s", wantProto, wantEP.Addr), "arrivals": desc, "err": out.Err, "elapsed_ms": elapsed.Milliseconds(), "earlier_calls_on_this_client": hist, "stray_datagrams_before_reply": nNoise, "reply": replyClass, "twin": twin, "previous_case": prevCase}
				prevCase = fmt.Sprintf("%s state=%s proto=%s bind=%s reply=%s twin=%v hist=%v err=%q arrivals=%v", op.Name, dv.state, dv.proto, cfg.Bind, replyClass, twin, hist, out.Err, desc)
				key := fmt.Sprintf("C06:loopback:%s:%s", dv.state, wantProto)
				if len(recvs) == 0 && (strings.Contains(out.Err, "address already in use") || strings.Contains(out.Err, "cannot assign requested address")) {
					c.Res.Inconcl("bind collision on a 'fixed' port: " + out.Err)
					continue
				}
				if len(recvs) == 0 && wantProto == "tcp" && strings.Contains(out.Err, "i/o timeout") && strings.Contains(out.Err, "->"+wantEP.Addr) {
					// the connection to the right endpoint over the right transport was not established within the timeout (a stalled host):
					// nothing left, and nothing can be said about routing
					c.Res.Inconcl("TCP connection to the expected endpoint not established within the timeout (host stalled?): " + out.Err)
					continue
				}
				if twin && len(recvs) == 1 {
					time.Sleep(20 * time.Millisecond) // the second goroutine's request may be logged a little later
					recvs = collect(f.fm.Events())
				}
				if len(recvs) < wantN && wantProto == "udp" && out.Err != "" {
					// a datagram that was sent sits in the farm's socket buffer until the farm's goroutine reads it (a loaded host), or was
					// dropped by the kernel (its UDP receive-error counters move when other jobs flood this machine): neither says anything
					// about where the library sent it
					for q := 0; q < 500 && len(recvs) < wantN; q++ {
						time.Sleep(2 * time.Millisecond)
						recvs = collect(f.fm.Events())
					}
					if len(recvs) < wantN && udpDropsBefore >= 0 && rcvbufErrors() != udpDropsBefore {
						c.Res.Inconcl("a request is missing at the farm and the kernel's UDP receive-error counter moved during the case (datagrams were dropped on this host): not judged")
						continue
					}
				}
				if len(recvs) != wantN {
					c.Res.Violate(key+":count", fmt.Sprintf("%s (controller %s, protocol %q, bind %s): %d requests arrived at the farm, expected exactly %d (calls made: %d) at %s %s: %v", op.Name, dv.state, dv.proto, cfg.Bind, len(recvs), wantN, wantN, wantProto, wantEP.Addr, desc), wv, caseNo)
					continue
				}
				if twin && (recvs[1].Endpoint != wantEP.Index || recvs[1].Proto != wantProto || string(recvs[1].Data) != string(wantReq)) {
					c.Res.Violate(key+":endpoint", fmt.Sprintf("%s (two identical concurrent calls): the second request arrived at %s %s", op.Name, recvs[1].Proto, f.fm.Endpoints[recvs[1].Endpoint].Addr), wv, caseNo)
					continue
				}
				e := recvs[0]
				if e.Endpoint != wantEP.Index || e.Proto != wantProto {
					c.Res.Violate(key+":endpoint", fmt.Sprintf("%s (controller %s, protocol %q): the request arrived at %s %s, the routing rule says %s %s", op.Name, dv.state, dv.proto, e.Proto, f.fm.Endpoints[e.Endpoint].Addr, wantProto, wantEP.Addr), wv, caseNo)
					continue
				}
				// source address = bind address
				src, perr := netip.ParseAddrPort(e.Src)
				wantIP := strings.Split(cfg.Bind, ":")[0]
				if perr != nil || src.Addr().String() != wantIP || (fixedPort != 0 && int(src.Port()) != fixedPort) {
					c.Res.Violate("C06:loopback:source-address:"+wantProto, fmt.Sprintf("%s over %s: the request came from %s, the configured bind address is %s", op.Name, wantProto, e.Src, cfg.Bind), wv, caseNo)
					continue
				}
				if string(e.Data) != string(wantReq) {
					wv["got"], wv["want"] = wk.Hex(e.Data), wk.Hex(wantReq)
					c.Res.Violate("C06:loopback:request-bytes", fmt.Sprintf("%s: the bytes that arrived at the endpoint differ from the reference encoding", op.Name), wv, caseNo)
					continue
				}
				if i%499 == 0 {
					c.Res.Sample(map[string]any{"layer": "loopback", "op": op.Name, "controller": dv.state, "protocol": dv.proto, "bind": cfg.Bind, "arrived": desc})
				}
			}
		}(w)
	}
	allDone := make(chan struct{})
	go func() { wg.Wait(); close(allDone) }()
	for waiting := true; waiting; {
		select {
		case <-allDone:
			waiting = false
		case <-liveAfter(time.Second):
			if hung.Load() {
				time.Sleep(3 * time.Second) // the other workers finish their current case; the hung one never will
				waiting = false
			}
		}
	}
	_ = types.BindAddr{}
}
