package main

import (
	"bytes"
	"encoding/json"
	"fmt"
	"os"
	"os/exec"
	"path/filepath"
	"runtime"
	"strings"
	"sync"
	"sync/atomic"
	"time"

	"verif/harness/wk"
)

// firstUse runs the stages from G goroutines in lock step (a spin barrier before every stage), in a process that has
// not yet used the code under test: whatever a package builds lazily on first use (tables, compiled patterns, caches) is
// built under contention - every stage is the simultaneous first use of one entry point by all G goroutines. A panic in
// any goroutine is reported as a violation with key; the stages report wrong values themselves.
func firstUse(c *Ctx, key, what string, G int, stages ...func(g int)) {
	// the batch may have been given one or two processors: for this short phase the goroutines must really run side by side
	if old := runtime.GOMAXPROCS(0); old < 16 {
		runtime.GOMAXPROCS(16)
		defer runtime.GOMAXPROCS(old)
	}
	arrived := make([]atomic.Int32, len(stages))
	var wg sync.WaitGroup
	for g := 0; g < G; g++ {
		wg.Add(1)
		go func(g int) {
			defer wg.Done()
			stage := -1
			defer func() {
				if p := recover(); p != nil {
					buf := make([]byte, 4096)
					buf = buf[:runtime.Stack(buf, false)]
					c.Res.Violate(key+":panic", fmt.Sprintf("%s panicked when %d goroutines used it for the first time in the process at the same moment (stage %d): %v", what, G, stage, p), map[string]any{"panic": fmt.Sprint(p), "stack": string(buf)}, -10)
					// keep the others from waiting for this goroutine at the later barriers
					for s := stage + 1; s < len(stages); s++ {
						arrived[s].Add(1)
					}
				}
			}()
			for s, fn := range stages {
				stage = s
				arrived[s].Add(1)
				for spins := 0; int(arrived[s].Load()) < G; spins++ {
					if spins > 2000 {
						runtime.Gosched()
					}
				}
				fn(g)
			}
		}(g)
	}
	wg.Wait()
	c.Res.Count("concurrent-first-use:goroutines x stages", int64(G*len(stages)))
	if c.Mode != "firstuse" && c.Batch == 0 && os.Getenv("GORACE") == "" {
		firstUseChildren(c, c.N(40, 400))
	}
}

// firstUseChildren: a process has only one first use. The first batch of a mode re-executes the worker n times with
// -mode firstuse: each child runs nothing but the property's first-use phase and reports what it saw.
func firstUseChildren(c *Ctx, n int) {
	exe, err := os.Executable()
	if err != nil {
		return
	}
	dir, err := os.MkdirTemp("", "verif-firstuse-")
	if err != nil {
		return
	}
	defer os.RemoveAll(dir)
	sem := make(chan struct{}, 4)
	var wg sync.WaitGroup
	var mu sync.Mutex
	for i := 0; i < n; i++ {
		wg.Add(1)
		sem <- struct{}{}
		go func(i int) {
			defer wg.Done()
			defer func() { <-sem }()
			out := filepath.Join(dir, fmt.Sprintf("c%04d.json", i))
			cmd := exec.Command(exe, "-prop", c.Prop, "-tier", c.Tier, "-seed", fmt.Sprint(c.Seed), "-batch", fmt.Sprint(1000+i), "-nbatch", "1", "-mode", "firstuse", "-out", out)
			cmd.Env = os.Environ()
			var stderr bytes.Buffer
			cmd.Stderr = &stderr
			cmd.Stdout = &stderr
			done := make(chan error, 1)
			if cmd.Start() != nil {
				return
			}
			go func() { done <- cmd.Wait() }()
			select {
			case <-done:
			case <-time.After(60 * time.Second):
				cmd.Process.Kill()
				c.Res.Inconcl("a first-use child process did not finish within 60 s")
				return
			}
			b, rerr := os.ReadFile(out)
			mu.Lock()
			defer mu.Unlock()
			c.Res.Count("concurrent-first-use:fresh-processes", 1)
			if rerr != nil {
				// the child died: a Go panic / fatal error with a library frame is the violation, anything else is the harness
				txt := stderr.String()
				if strings.Contains(txt, "github.com/uhppoted/uhppote-core/") && (strings.Contains(txt, "panic:") || strings.Contains(txt, "fatal error:")) {
					if len(txt) > 4000 {
						txt = txt[:4000]
					}
					c.Res.Violate(c.Prop+":first-use:crash", "a fresh process died inside the library when several goroutines used it for the first time at the same moment: "+firstLineOf(txt), map[string]any{"trace": txt}, int64(-100-i))
				} else {
					c.Res.Inconcl("a first-use child process left no result: " + firstLineOf(txt))
				}
				return
			}
			var r wk.Result
			if json.Unmarshal(b, &r) != nil {
				return
			}
			c.Res.Eval(r.Evaluations)
			for _, v := range r.Violations {
				c.Res.Violate(v.Key, "(fresh process "+fmt.Sprint(i)+") "+v.What, v.Witness, v.Case)
			}
		}(i)
	}
	wg.Wait()
}

func firstLineOf(s string) string {
	for _, l := range strings.Split(s, "\n") {
		if strings.HasPrefix(l, "panic:") || strings.HasPrefix(l, "fatal error:") {
			return l
		}
	}
	if i := strings.IndexByte(s, '\n'); i >= 0 {
		return s[:i]
	}
	return s
}
