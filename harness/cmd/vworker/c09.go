package main

import (
	"bufio"
	"fmt"
	"net"
	"os"
	"runtime"
	"runtime/debug"
	"strings"
	"sync"
	"sync/atomic"
	"syscall"
	"time"

	"github.com/uhppoted/uhppote-core/types"
	"github.com/uhppoted/uhppote-core/uhppote"

	"verif/harness/adapter"
	"verif/harness/farm"
	"verif/harness/gen"
	rm "verif/harness/refmodel"
)

func init() { registry["C09"] = c09 }

// ---- resource observers

// librarySockets counts this process's sockets whose local address is one of ips (hex as in /proc/net, e.g. 0200007F).
func librarySockets(ips ...string) (int, []string) {
	inodes := map[string]bool{}
	ents, err := os.ReadDir("/proc/self/fd")
	if err != nil {
		return -1, nil
	}
	for _, e := range ents {
		if l, err := os.Readlink("/proc/self/fd/" + e.Name()); err == nil && strings.HasPrefix(l, "socket:[") {
			inodes[strings.TrimSuffix(strings.TrimPrefix(l, "socket:["), "]")] = true
		}
	}
	n := 0
	desc := []string{}
	for _, file := range []string{"/proc/self/net/udp", "/proc/self/net/tcp"} {
		f, err := os.Open(file)
		if err != nil {
			return -1, nil
		}
		sc := bufio.NewScanner(f)
		for sc.Scan() {
			fs := strings.Fields(sc.Text())
			if len(fs) < 10 || !inodes[fs[9]] {
				continue
			}
			for _, ip := range ips {
				if strings.HasPrefix(fs[1], ip+":") {
					n++
					desc = append(desc, file[len("/proc/self/net/"):]+" "+fs[1]+"->"+fs[2]+" st="+fs[3])
				}
			}
		}
		f.Close()
	}
	return n, desc
}

// libraryGoroutines counts goroutines with a frame inside the library.
func libraryGoroutines() (int, string) {
	buf := make([]byte, 1<<20)
	for {
		n := runtime.Stack(buf, true)
		if n < len(buf) {
			buf = buf[:n]
			break
		}
		buf = make([]byte, 2*len(buf))
	}
	count := 0
	first := ""
	for _, g := range strings.Split(string(buf), "\n\n") {
		if strings.Contains(g, "github.com/uhppoted/uhppote-core/") {
			count++
			if first == "" {
				first = g
			}
		}
	}
	return count, first
}

func settle(maxWait time.Duration, socks, gors int, ips ...string) (int, int, []string, string) {
	deadline := time.Now().Add(maxWait)
	for {
		s, sd := librarySockets(ips...)
		g, gd := libraryGoroutines()
		if (s <= socks && g <= gors) || time.Now().After(deadline) {
			return s, g, sd, gd
		}
		time.Sleep(5 * time.Millisecond)
	}
}

// ---- host-stall monitor: a goroutine that sleeps 2 ms in a loop and remembers when it overslept by more than 15 ms. The
// library's deadlines are Go runtime deadlines: on a host that stops the process for tens of milliseconds they fire late (or a
// goroutine is held between "deadline not yet expired" and the read), which says nothing about the library. Timing verdicts
// about a call during which the process was stalled are inconclusive.
type stallMonitor struct {
	mu     sync.Mutex
	stalls [][2]int64 // (end of the oversleep, duration) in monotonic ns
	stop   chan struct{}
}

var c09Stalls = &stallMonitor{}

func (m *stallMonitor) start() {
	m.stop = make(chan struct{})
	go func() {
		for {
			select {
			case <-m.stop:
				return
			default:
			}
			t0 := farm.Mono()
			time.Sleep(2 * time.Millisecond)
			if over := farm.Mono() - t0 - int64(2*time.Millisecond); over > int64(15*time.Millisecond) {
				m.mu.Lock()
				m.stalls = append(m.stalls, [2]int64{farm.Mono(), over})
				if len(m.stalls) > 4096 {
					m.stalls = m.stalls[1024:]
				}
				m.mu.Unlock()
			}
		}
	}()
}

// during: the longest stall that overlapped [t0, t1].
func (m *stallMonitor) during(t0, t1 int64) time.Duration {
	m.mu.Lock()
	defer m.mu.Unlock()
	var worst int64
	for _, s := range m.stalls {
		if s[0] >= t0 && s[0]-s[1] <= t1 && s[1] > worst {
			worst = s[1]
		}
	}
	return time.Duration(worst)
}

// total: the sum of the stalls that overlapped [t0, t1].
func (m *stallMonitor) total(t0, t1 int64) time.Duration {
	m.mu.Lock()
	defer m.mu.Unlock()
	var sum int64
	for _, s := range m.stalls {
		if s[0] >= t0 && s[0]-s[1] <= t1 {
			sum += s[1]
		}
	}
	return time.Duration(sum)
}

// ---- behaviours

type behaviour struct {
	name     string
	path     string  // udp | tcp | broadcast
	expect   string  // success | error
	minT     float64 // the call must not return before minT*T
	needWait bool    // the call must return no later than T + slack and (for error) nothing may end it earlier than minT
}

const bindIP = "127.0.0.2"
const bindHex = "0200007F"
const listenHex = "0300007F"

type c09Env struct {
	c              *Ctx
	T              time.Duration
	slack          time.Duration
	fm             *farm.Farm
	bcast          *farm.Endpoint
	udp            *farm.Endpoint
	tcp            *farm.Endpoint
	tcp2           *farm.Endpoint // a second TCP controller (two TCP calls in a row from one fixed bind port need two different peers)
	pairU          *farm.Endpoint // a UDP and a TCP endpoint on one port number: a controller configured with protocol "any" / "" / "xyz" is a UDP controller
	pairT          *farm.Endpoint
	closed         int      // a port nobody listens on
	plan           sync.Map // serial -> behaviour name
	floodS         time.Duration
	timing         sync.Map                                         // serial -> *c09Timing (measured by the farm)
	cfgHook        func(b behaviour, serial uint32, cfg *ClientCfg) // netns mode: network specific configuration
	discoveryFlood atomic.Bool                                      // discovery requests are answered with a flood that outlasts the timeout
}

type c09Timing struct {
	recv atomic.Int64 // first time the farm saw the request
	send atomic.Int64 // when the farm sent the (last) 64 byte datagram carrying this serial
}

// answeredInTime: did the farm measurably send the valid reply within frac*T of receiving the request?
func (e *c09Env) answeredInTime(serial uint32, frac float64) (bool, float64) {
	v, ok := e.timing.Load(serial)
	if !ok {
		return false, -1
	}
	t := v.(*c09Timing)
	r, s := t.recv.Load(), t.send.Load()
	if r == 0 || s == 0 {
		return false, -1
	}
	off := float64(s-r) / 1e6
	return time.Duration(s-r) <= time.Duration(float64(e.T)*frac), off
}

func c09TimingHook(e *c09Env) func(ev farm.Event) {
	return func(ev farm.Event) {
		if len(ev.Data) != 64 || (ev.Kind != "recv" && ev.Kind != "send") {
			return
		}
		serial := uint32(ev.Data[4]) | uint32(ev.Data[5])<<8 | uint32(ev.Data[6])<<16 | uint32(ev.Data[7])<<24
		v, _ := e.timing.LoadOrStore(serial, &c09Timing{})
		t := v.(*c09Timing)
		if ev.Kind == "recv" {
			t.recv.CompareAndSwap(0, ev.T)
		} else {
			t.send.Store(ev.T)
		}
	}
}

func newC09Env(c *Ctx, T time.Duration) *c09Env {
	e := &c09Env{c: c, T: T, slack: 1500 * time.Millisecond, fm: farm.New(), floodS: T + 2500*time.Millisecond}
	e.fm.KeepLog = false
	e.fm.Hook = c09TimingHook(e)
	var err error
	if e.bcast, err = e.fm.AddUDP("127.0.0.1", 0); err != nil {
		return nil
	}
	if e.udp, err = e.fm.AddUDP("127.0.0.1", 0); err != nil {
		return nil
	}
	if e.tcp, err = e.fm.AddTCP("127.0.0.1", 0); err != nil {
		return nil
	}
	if e.tcp2, err = e.fm.AddTCP("127.0.0.1", 0); err != nil {
		return nil
	}
	for try := 0; try < 20 && e.pairT == nil; try++ {
		if e.pairU, err = e.fm.AddUDP("127.0.0.1", 0); err != nil {
			return nil
		}
		if e.pairT, err = e.fm.AddTCP("127.0.0.1", e.pairU.Port); err != nil {
			e.pairT = nil
		}
	}
	e.closed = unlistenedPort("127.0.0.1")
	e.fm.SetScript(e.script)
	return e
}

func (e *c09Env) script(ep *farm.Endpoint, src net.Addr, req []byte, seq uint64) []farm.Action {
	if len(req) != 64 {
		return nil
	}
	serial := uint32(req[4]) | uint32(req[5])<<8 | uint32(req[6])<<16 | uint32(req[7])<<24
	if serial == 0 && req[1] == 0x94 && e.discoveryFlood.Load() {
		// discovery under a flood: replies and junk keep arriving until well after the timeout
		out := []farm.Action{}
		for i := 0; i < int(e.floodS/time.Millisecond); i++ {
			var data []byte
			if i%3 == 0 {
				data = []byte{0x17, 0x94, 1, 2, 3}
			} else {
				data = rm.Encode(rm.FindOp("GetDevice").ReplyLayout(), 0x17, rm.Vals{"SerialNumber": rm.Val{K: rm.Serial, U: uint64(8000 + i)},
					"IpAddress": rm.IPVal(10, 0, 0, 1), "SubnetMask": rm.IPVal(255, 255, 255, 0), "Gateway": rm.IPVal(10, 0, 0, 254), "MacAddress": rm.Val{K: rm.MAC, B: []byte{1, 2, 3, 4, 5, 6}}, "Version": rm.UVal(rm.Version, 0x0892), "Date": rm.DateVal(2020, 1, 1)})
			}
			out = append(out, farm.Action{Delay: time.Millisecond, Data: data})
		}
		return out
	}
	if serial == 0 && req[1] == 0x94 { // discovery: two prompt replies
		out := []farm.Action{}
		for i := 0; i < 2; i++ {
			out = append(out, farm.Action{Delay: e.T / 10, Data: rm.Encode(rm.FindOp("GetDevice").ReplyLayout(), 0x17, rm.Vals{"SerialNumber": rm.Val{K: rm.Serial, U: uint64(9000 + i)},
				"IpAddress": rm.IPVal(10, 0, 0, 1), "SubnetMask": rm.IPVal(255, 255, 255, 0), "Gateway": rm.IPVal(10, 0, 0, 254), "MacAddress": rm.Val{K: rm.MAC, B: []byte{1, 2, 3, 4, 5, 6}}, "Version": rm.UVal(rm.Version, 0x0892), "Date": rm.DateVal(2020, 1, 1)})})
		}
		return out
	}
	v, ok := e.plan.Load(serial)
	if !ok {
		return nil
	}
	reply := echoReply(req)
	if reply == nil {
		return nil // (a request that has no reply - SetAddress - is never answered, whatever is planned for its serial number)
	}
	stray := func(i int) []byte {
		b := append([]byte{}, reply...)
		if i%2 == 0 {
			b[4] ^= 0x40 // another controller's serial number
			return b
		}
		if i%5 == 4 {
			return append(b, make([]byte, 2000+i%900)...) // longer than the receive buffer: still just a datagram of the wrong length
		}
		return b[:20+i%30] // wrong length
	}
	switch v.(string) {
	case "silence":
		if ep.Proto == "tcp" {
			return []farm.Action{{Stall: true}} // (a TCP peer that accepts and never answers)
		}
		return nil
	case "prompt":
		return []farm.Action{{Data: reply}}
	case "reply-0.5T":
		return []farm.Action{{Delay: e.T / 2, Data: reply}}
	case "reply-0.7T":
		return []farm.Action{{Delay: e.T * 7 / 10, Data: reply}}
	case "reply-1.3T":
		return []farm.Action{{Delay: e.T * 13 / 10, Data: reply}}
	case "flood":
		out := []farm.Action{}
		for i := 0; i < int(e.floodS/time.Millisecond); i++ {
			out = append(out, farm.Action{Delay: time.Millisecond, Data: stray(i)})
		}
		return out
	case "flood-then-valid":
		out := []farm.Action{}
		n := int(e.T * 6 / 10 / time.Millisecond)
		for i := 0; i < n; i++ {
			out = append(out, farm.Action{Delay: time.Millisecond, Data: stray(i)})
		}
		return append(out, farm.Action{Data: reply})
	case "empty-datagram":
		return []farm.Action{{Data: []byte{}}} // a datagram of zero bytes: not a reply
	case "tcp-stall":
		return []farm.Action{{Stall: true}}
	case "tcp-reset":
		return []farm.Action{{Delay: e.T / 10, Reset: true}}
	case "tcp-close":
		return []farm.Action{{Delay: e.T / 10, Close: true}}
	}
	return nil
}

var c09Behaviours = []behaviour{
	{"silence", "udp", "error", 0.93, true}, {"silence", "broadcast", "error", 0.93, true},
	{"prompt", "udp", "success", 0, false}, {"prompt", "broadcast", "success", 0, false}, {"prompt", "tcp", "success", 0, false},
	{"reply-0.5T", "udp", "success", 0, false}, {"reply-0.5T", "broadcast", "success", 0, false}, {"reply-0.5T", "tcp", "success", 0, false},
	{"reply-0.7T", "udp", "success", 0, false}, {"reply-0.7T", "broadcast", "success", 0, false},
	{"reply-1.3T", "udp", "error", 0.93, true}, {"reply-1.3T", "broadcast", "error", 0.93, true}, {"reply-1.3T", "tcp", "error", 0.93, true},
	{"flood-then-valid", "broadcast", "success", 0, false},
	{"tcp-stall", "tcp", "error", 0.93, true}, {"tcp-reset", "tcp", "error", 0, true}, {"tcp-close", "tcp", "error", 0, true},
	{"tcp-refused", "tcp", "error", 0, true}, {"udp-closed-port", "udp", "error", 0, true}, {"unreachable", "udp", "error", 0, true}, {"unreachable", "broadcast", "error", 0, true},
	{"set-address", "udp", "success", 0, false}, {"set-address", "broadcast", "success", 0, false}, {"set-address", "tcp", "success", 0, false},
	{"discovery", "broadcast", "success", 0.93, true},
	{"set-address-closed-port", "udp", "success", 0, false},                                           // SetAddress is done once the request is out: nobody has to be listening
	{"empty-datagram", "udp", "error", 0, true}, {"empty-datagram", "broadcast", "error", 0.93, true}, // a zero-length datagram is no reply: an error, never a zero-valued result
}

var c09Flood = behaviour{"flood", "broadcast", "error", 0.93, true}

type c09Result struct {
	t0, t1  int64 // monotonic start / end of the call (for the host-stall monitor)
	serial  uint32
	b       behaviour
	elapsed time.Duration
	err     string
	hung    bool
	fixed   bool
	queuedK int
}

// run executes one call with behaviour b on a client with the given bind address.
func (e *c09Env) run(b behaviour, serial uint32, bind string) c09Result {
	cfg := ClientCfg{Bind: bind, Broadcast: e.bcast.Addr, Timeout: e.T}
	switch {
	case b.name == "tcp-refused":
		cfg.Devices = []DevCfg{{ID: serial, Addr: fmt.Sprintf("127.0.0.1:%d", e.closed), Proto: "tcp"}}
	case b.name == "udp-closed-port" || b.name == "set-address-closed-port":
		cfg.Devices = []DevCfg{{ID: serial, Addr: fmt.Sprintf("127.0.0.1:%d", e.closed), Proto: "udp"}}
	case b.name == "unreachable" && b.path == "udp":
		cfg.Devices = []DevCfg{{ID: serial, Addr: "203.0.113.7:60000", Proto: "udp"}}
	case b.name == "unreachable":
		cfg.Broadcast = "203.0.113.255:60000"
	case strings.HasSuffix(b.name, "-any") && e.pairU != nil:
		cfg.Devices = []DevCfg{{ID: serial, Addr: e.pairU.Addr, Proto: []string{"any", "", "xyz", "UDP"}[int(serial)%4], NewDevice: serial%2 == 0}}
	case b.path == "udp":
		cfg.Devices = []DevCfg{{ID: serial, Addr: e.udp.Addr, Proto: "udp"}}
	case b.name == "prompt-tcp2" && e.tcp2 != nil:
		cfg.Devices = []DevCfg{{ID: serial, Addr: e.tcp2.Addr, Proto: "tcp"}}
	case b.path == "tcp":
		cfg.Devices = []DevCfg{{ID: serial, Addr: e.tcp.Addr, Proto: "tcp"}}
	}
	if e.cfgHook != nil {
		e.cfgHook(b, serial, &cfg)
	}
	u := mkClient(cfg)
	name := b.name
	if name == "set-address" || name == "discovery" || name == "prompt-tcp2" {
		name = "prompt"
	}
	name = strings.TrimSuffix(name, "-any")
	e.plan.Store(serial, name)
	defer e.plan.Delete(serial)
	res := c09Result{b: b, serial: serial}
	e.timing.Delete(serial)
	done := make(chan struct{})
	start := time.Now()
	res.t0 = farm.Mono()
	go func() {
		defer close(done)
		var out rm.Outcome
		switch b.name {
		case "set-address", "set-address-closed-port":
			out, _ = adapter.SafeCall(u, "SetAddress", serial, rm.Vals{"Address": rm.IPVal(10, 0, 0, 9), "Mask": rm.IPVal(255, 255, 255, 0), "Gateway": rm.IPVal(10, 0, 0, 1)}, adapter.Aux{})
		case "discovery":
			if _, err := u.GetDevices(); err != nil {
				out.Err = err.Error()
			}
		default:
			out, _ = adapter.SafeCall(u, "GetEvent", serial, rm.Vals{"Index": rm.UVal(rm.U32, uint64(serial&0xffff)+1)}, adapter.Aux{})
			if out.Err == "" && out.Fields != nil {
				if want := echoVals(rm.FindOp("GetEvent"), serial, serial&0xffff+1); out.Fields["CardNumber"].U != want["CardNumber"].U {
					out.Err = fmt.Sprintf("WRONG-REPLY card %d != %d", out.Fields["CardNumber"].U, want["CardNumber"].U)
				}
			}
		}
		res.err = out.Err
		res.elapsed = time.Since(start)
	}()
	select {
	case <-done:
	case <-liveAfter(e.T + 10*time.Second):
		res.hung = true
		res.elapsed = time.Since(start)
	}
	res.t1 = farm.Mono()
	if b.name == "reply-1.3T" {
		// the farm still has a (late) datagram to send to this call's port: let it go before the port number can be reused
		if rest := e.T*13/10 + 10*time.Millisecond - time.Since(start); rest > 0 {
			time.Sleep(rest)
		}
	}
	return res
}

func (e *c09Env) judge(res c09Result, caseNo int64, phase string, queuePos int) {
	c := e.c
	b := res.b
	c.Res.Eval(1)
	c.Res.DistinctKey(phase, b.name, b.path, res.fixed, queuePos)
	c.Res.Count("behaviour:"+b.name+"/"+b.path, 1)
	w := map[string]any{"phase": phase, "behaviour": b.name, "path": b.path, "T_ms": e.T.Milliseconds(), "elapsed_ms": float64(res.elapsed.Microseconds()) / 1000, "err": res.err, "fixed_bind_port": res.fixed, "queue_position": queuePos}
	key := "C09:" + b.path + ":" + b.name
	if res.hung {
		c.Res.Violate(key+":hang", fmt.Sprintf("%s over %s: the call did not return within T+10s (T=%v)", b.name, b.path, e.T), w, caseNo)
		return
	}
	// queuePos: number of calls sharing the fixed port in this round minus one (any of them may be served last)
	bound := e.T*time.Duration(queuePos+1) + e.slack
	if res.elapsed > bound {
		// the slack is generous for a machine that runs this check; on one that is so oversubscribed that the process is held up for
		// long stretches (the 2 ms heartbeat oversleeping by a good part of the overrun) a late return says nothing about the library
		if st := c09Stalls.total(res.t0, res.t1); res.t0 != 0 && st > 200*time.Millisecond && st > (res.elapsed-bound) && res.elapsed < bound+2*time.Second {
			c.Res.Inconcl(fmt.Sprintf("%s over %s returned after %v (bound %v) while the host kept the process from running for %v in all (heartbeat oversleeps of 15 ms and more): not judged", b.name, b.path, res.elapsed, bound, st))
			return
		}
		c.Res.Violate(key+":late-return", fmt.Sprintf("%s over %s: the call returned after %v, the bound is %v (T=%v, position %d in the port queue, slack %v)", b.name, b.path, res.elapsed, bound, e.T, queuePos, e.slack), w, caseNo)
		return
	}
	ok := res.err == ""
	if st := c09Stalls.during(res.t0, res.t1+int64(20*time.Millisecond)); st > 25*time.Millisecond && res.t0 != 0 {
		// every verdict below compares times: not on a host that stalled the process while this call was running
		timing := (b.expect == "success" && !ok && b.name != "set-address") || (b.expect == "error" && ok) || (b.minT > 0 && res.elapsed < time.Duration(float64(e.T)*b.minT))
		if timing {
			c.Res.Inconcl(fmt.Sprintf("%s over %s: the host stalled the process for %v during the call: timing not judged", b.name, b.path, st))
			return
		}
	}
	if b.name == "set-address-closed-port" {
		if !ok {
			c.Res.Violate(key+":failed", fmt.Sprintf("SetAddress to a UDP address where nobody listens failed after %v: %s (the operation has no reply: it is done when the request is sent)", res.elapsed, res.err), w, caseNo)
		}
		return
	}
	if b.expect == "success" && !ok && b.name != "set-address" && b.name != "discovery" {
		// a call that gave up early returns before the farm's (delayed) reply has left: give the farm until T after it saw the
		// request before deciding whether the reply was on its way in time
		if v, seen := e.timing.Load(res.serial); seen {
			t := v.(*c09Timing)
			for t.recv.Load() != 0 && t.send.Load() == 0 && time.Duration(farm.Mono()-t.recv.Load()) < e.T {
				time.Sleep(2 * time.Millisecond)
			}
		}
		// a request that was sent sits in the farm's socket buffer until the farm's goroutine gets to it: on a loaded host that can be
		// after the call has given up - give the farm a second to log it before concluding that nothing was ever sent
		for k := 0; k < 500; k++ {
			if v, seen := e.timing.Load(res.serial); seen && v.(*c09Timing).recv.Load() != 0 {
				break
			}
			time.Sleep(2 * time.Millisecond)
		}
		// the obligation exists only if the farm measurably sent the reply early enough
		if in, off := e.answeredInTime(res.serial, 0.8); !in {
			asked := false
			if v, ok := e.timing.Load(res.serial); ok && v.(*c09Timing).recv.Load() != 0 {
				asked = true
			}
			if !asked && !strings.Contains(res.err, "address already in use") && !strings.Contains(res.err, "cannot assign requested address") {
				k := key + ":failed-without-asking"
				if res.fixed && queuePos > 0 {
					k = "C09:early-timeout-after-queueing"
				}
				c.Res.Violate(k, fmt.Sprintf("%s over %s (fixed port=%v): the call failed after %v without its controller ever being asked: %s", b.name, b.path, res.fixed, res.elapsed, res.err), w, caseNo)
				return
			}
			c.Res.Inconcl(fmt.Sprintf("%s over %s failed but the farm sent its reply %.1f ms after the request (late or never): not judged", b.name, b.path, off))
			return
		}
	}
	if b.expect == "success" && !ok && queuePos == 0 && res.t0 != 0 {
		// "on its way before the deadline" is measured on the library's clock too: the farm's clock starts when its goroutine reads the
		// request, which on a loaded host can be well after the call started. A reply that left the farm later than 0.9 T after the call
		// began creates no obligation (a call that is not queued starts its deadline within microseconds of starting).
		if v, seen := e.timing.Load(res.serial); seen {
			if s := v.(*c09Timing).send.Load(); s != 0 && time.Duration(s-res.t0) > e.T*9/10 {
				c.Res.Inconcl(fmt.Sprintf("%s over %s failed; the farm sent the reply %.0f ms after the call began (T=%v; the farm read the request late): not judged", b.name, b.path, float64(s-res.t0)/1e6, e.T))
				return
			}
		}
	}
	if b.expect == "success" && !ok {
		k := key + ":rejected-in-time-reply"
		if res.fixed && queuePos > 0 {
			k = "C09:early-timeout-after-queueing"
		}
		c.Res.Violate(k, fmt.Sprintf("%s over %s: an acceptable reply was on its way before the deadline but the call failed after %v: %s", b.name, b.path, res.elapsed, res.err), w, caseNo)
		return
	}
	if b.expect == "error" && ok {
		c.Res.Violate(key+":unexpected-success", fmt.Sprintf("%s over %s: no acceptable reply arrived before the deadline but the call succeeded", b.name, b.path), w, caseNo)
		return
	}
	if queuePos == 0 && b.minT > 0 && res.elapsed < time.Duration(float64(e.T)*b.minT) {
		c.Res.Violate(key+":early-timeout", fmt.Sprintf("%s over %s: the call gave up after %v, before its deadline (T=%v)", b.name, b.path, res.elapsed, e.T), w, caseNo)
	}
}

func c09(c *Ctx) {
	c.Res.Rule = "every delivery path x network behaviour {silence, prompt, reply at 0.5T/0.7T/1.3T, stray flood until past the deadline, flood then valid, TCP accept-and-stall / reset / close / refused, UDP closed port, unreachable network, SetAddress, discovery}: (1) one call at a time: return time against [minT, T*(queue position+1)+slack], success iff an acceptable reply was sent in time, and the process's library sockets (by /proc/self/fd + /proc/self/net, local address 127.0.0.2/3) must be zero the moment the call returns, library goroutines back to baseline promptly; (2) fixed bind port: queued calls served in turn; (3) leak batches: random parallel sequences of such calls and listener start/stop cycles, sockets and goroutines compared before/after with the GC disabled; distinct = distinct (phase, behaviour, path, port mode, queue position)"
	debug.SetGCPercent(-1) // a finalizer must not hide a missing Close
	c09Stalls.start()
	defer close(c09Stalls.stop)
	if c.Mode == "netns" {
		c09Netns(c)
		return
	}
	T := 230 * time.Millisecond // (not a round number: nothing may depend on the timeout being a multiple of anything)
	e := newC09Env(c, T)
	if e == nil {
		c.Res.Inconcl("cannot build farm")
		return
	}
	defer e.fm.Close()
	r := c.Rng("main")
	var caseNo int64
	serial := uint32(0x21000000) + uint32(c.Batch)<<20
	next := func() uint32 { serial++; return serial }

	censusIPs := []string{bindHex, listenHex}
	for w := 0; w < 16; w++ {
		censusIPs = append(censusIPs, ipHex(workerIP(c, w)))
	}
	baseS, _ := librarySockets(censusIPs...)
	baseG, _ := libraryGoroutines()
	if baseS != 0 || baseG != 0 {
		c.Res.Inconcl(fmt.Sprintf("baseline not clean: %d library sockets, %d library goroutines", baseS, baseG))
	}

	// ---- phase 1: one call at a time, exact per-call accounting
	only2 := c.Mode == "port-queue" // a short batch other checks borrow: only the calls queued on a fixed bind port
	onlyFlood := c.Mode == "flood"  // another one: only the floods that outlast the deadline
	rounds := c.N(2, 8)
	if only2 || onlyFlood {
		rounds = 0
	}
	for round := 0; round < rounds; round++ {
		order := append([]behaviour{}, c09Behaviours...)
		for i := len(order) - 1; i > 0; i-- {
			j := r.Pick(i + 1)
			order[i], order[j] = order[j], order[i]
		}
		for _, b := range order {
			caseNo++
			bind := bindIP + ":0"
			fixed := false
			if r.Chance(0.3) && b.path != "tcp" {
				if p := freePort(bindIP); p != 0 {
					bind, fixed = fmt.Sprintf("%s:%d", bindIP, p), true
				}
			}
			res := e.run(b, next(), bind)
			if b.expect == "success" && res.err != "" && !res.hung {
				// timing verdict: a must-succeed call that failed is confirmed by a second attempt (a loaded host can
				// delay the farm's or the client's goroutine past the margin); a deterministic defect fails again
				c.Res.Count("sequential:retried-after-failure", 1)
				res = e.run(b, next(), bind)
			}
			if b.expect == "error" && res.err == "" && !res.hung && b.minT > 0 {
				// the same for a call that succeeded on a reply sent after its deadline: the library's deadlines are runtime timers, and a
				// timer that fires late on a starved processor lets a late reply through - once; a defect does it again
				c.Res.Count("sequential:retried-after-unexpected-success", 1)
				res = e.run(b, next(), bind)
			}
			res.fixed = fixed
			// the socket the call opened must be closed when it returns
			s, sd := librarySockets(bindHex, listenHex)
			e.judge(res, caseNo, "sequential", 0)
			if res.hung {
				c.Res.Inconcl("a call hung: per-call resource accounting stops here")
				return
			}
			if s > 0 {
				c.Res.Violate("C09:socket-leak:"+b.path+":"+b.name, fmt.Sprintf("%s over %s: %d library socket(s) still open when the call returned: %v", b.name, b.path, s, sd),
					map[string]any{"behaviour": b.name, "path": b.path, "sockets": sd, "err": res.err}, caseNo)
				// let them go (or not) before the next case so that one leak is reported once
				settle(300*time.Millisecond, 0, 0, bindHex, listenHex)
			}
			_, g, _, gd := settle(time.Second, 1<<30, 0, bindHex, listenHex)
			if g > 0 {
				c.Res.Violate("C09:goroutine-leak:"+b.path+":"+b.name, fmt.Sprintf("%s over %s: %d library goroutine(s) still running 1 s after the call returned", b.name, b.path, g),
					map[string]any{"behaviour": b.name, "path": b.path, "goroutine": truncateStr(gd, 1500)}, caseNo)
			}
			c.Res.Count("per-call-resource-checks", 1)
		}
	}

	// ---- phase 1a: a controller configured with a protocol that is not "tcp" ("any", "", "xyz") is a UDP controller: one request, one
	// timeout - with T = 1 s, so that a second attempt over another transport cannot hide in the slack
	if !only2 && !onlyFlood {
		e2 := newC09Env(c, time.Second)
		if e2 != nil {
			e2.slack = 500 * time.Millisecond
			var wg sync.WaitGroup
			// serial%4 selects the protocol string ("any", "", "xyz", "UDP"), serial%2 the constructor (NewDevice / struct literal)
			kinds := []behaviour{{"silence-any", "udp", "error", 0.93, true}, {"silence-any", "udp", "error", 0.93, true}, {"silence-any", "udp", "error", 0.93, true}, {"silence-any", "udp", "error", 0.93, true},
				{"prompt-any", "udp", "success", 0, false}, {"prompt-any", "udp", "success", 0, false}}
			results := make([]c09Result, len(kinds))
			base4 := (next() &^ 7) + 8
			for i, b := range kinds {
				wg.Add(1)
				go func(i int, b behaviour, s uint32) {
					defer wg.Done()
					results[i] = e2.run(b, s, workerIP(c, i)+":0")
				}(i, b, base4+uint32(i))
			}
			wg.Wait()
			serial = base4 + 16
			for i := range results {
				caseNo++
				e2.judge(results[i], caseNo, "other-protocol-strings", 0)
			}
			e2.fm.Close()
		}
	}

	// ---- phase 1a": a client configured with a timeout of zero (or less) has no time to wait: against a silent network its calls
	// return at once with an error - they do not wait for ever
	if !only2 && !onlyFlood {
		for _, T0 := range []time.Duration{0, -time.Second} {
			e0 := newC09Env(c, T0)
			if e0 == nil {
				continue
			}
			e0.slack = 1500*time.Millisecond - T0
			for _, b := range []behaviour{{"silence", "udp", "error", 0, true}, {"silence", "broadcast", "error", 0, true}, {"tcp-stall", "tcp", "error", 0, true}, {"silence", "udp", "error", 0, true}} {
				caseNo++
				res := e0.run(b, next(), bindIP+":0")
				e0.judge(res, caseNo, fmt.Sprintf("timeout=%v", T0), 0)
				c.Res.Count("calls-with-a-timeout-of-zero-or-less", 1)
				if res.hung {
					break
				}
			}
			e0.fm.Close()
		}
	}

	// ---- phase 1a"": a fixed bind port that somebody else's socket holds for a while (T = 1 s): whatever the call does about it -
	// fail at once, or wait for the port - it is back within its timeout (+ slack 0.5 s); a discovery does not add its full collection
	// time on top of a wait
	if !only2 && !onlyFlood && c.Batch == 0 {
		e1 := newC09Env(c, time.Second)
		if e1 != nil {
			e1.slack = 500 * time.Millisecond
			for _, b := range []behaviour{{"discovery", "broadcast", "success", 0, true}, {"silence", "broadcast", "error", 0, true}} {
				port := freePort(bindIP)
				squat, err := net.ListenUDP("udp4", &net.UDPAddr{IP: net.ParseIP(bindIP), Port: port})
				if port == 0 || err != nil {
					continue
				}
				go func() { time.Sleep(700 * time.Millisecond); squat.Close() }()
				caseNo++
				res := e1.run(b, next(), fmt.Sprintf("%s:%d", bindIP, port))
				res.fixed = true
				c.Res.Eval(1)
				c.Res.DistinctKey("port-held-by-a-foreign-socket", b.name)
				c.Res.Count("calls-on-a-fixed-port-held-by-a-foreign-socket-for-0.7s", 1)
				w := map[string]any{"behaviour": b.name, "T_ms": 1000, "elapsed_ms": res.elapsed.Milliseconds(), "err": res.err}
				switch {
				case res.hung:
					c.Res.Violate("C09:port-held:hang", fmt.Sprintf("%s from a fixed bind port that a foreign socket held for 0.7 s: the call did not return", b.name), w, caseNo)
				case res.elapsed > time.Second+500*time.Millisecond && c09Stalls.total(res.t0, res.t1) < 200*time.Millisecond:
					c.Res.Violate("C09:port-held:late-return", fmt.Sprintf("%s from a fixed bind port that a foreign socket held for the first 0.7 s: the call returned after %v, the timeout is 1 s (+0.5 s slack)", b.name, res.elapsed.Round(time.Millisecond)), w, caseNo)
				}
				squat.Close()
				time.Sleep(50 * time.Millisecond)
			}
			// three calls on one fixed port, the third joining while the second has its turn and nobody else is waiting: it waits its turn
			// like the second did (all three controllers are silent: each call takes one timeout)
			{
				port := freePort(bindIP)
				bind := fmt.Sprintf("%s:%d", bindIP, port)
				results := make([]c09Result, 3)
				var wg sync.WaitGroup
				for i, at := range []time.Duration{0, 100 * time.Millisecond, 1300 * time.Millisecond} {
					wg.Add(1)
					go func(i int, at time.Duration, s uint32) {
						defer wg.Done()
						time.Sleep(at)
						results[i] = e1.run(behaviour{"silence", "broadcast", "error", 0, true}, s, bind)
					}(i, at, next())
				}
				wg.Wait()
				caseNo++
				c.Res.Eval(1)
				c.Res.DistinctKey("port-queue-late-joiner")
				c.Res.Count("port-queue:late-joiner-rounds", 1)
				for i, res := range results {
					if strings.Contains(res.err, "address already in use") && port != 0 {
						// (a foreign process cannot have taken the port: the first call held it the whole time)
						if i > 0 && !strings.Contains(results[0].err, "address already in use") {
							c.Res.Violate("C09:port-queue:not-served-in-turn:late-joiner", fmt.Sprintf("three calls on the fixed bind port %d (started at 0, 0.1 s and 1.3 s; T = 1 s): call %d failed with %q instead of waiting its turn", port, i+1, res.err), map[string]any{"errors": []string{results[0].err, results[1].err, results[2].err}}, caseNo)
						}
					}
				}
			}
			e1.fm.Close()
		}
	}

	// ---- phase 1a"': a TCP controller that is slow to take the connection (its first SYNs are lost) and then never answers: the
	// time the connection took is part of the call's one timeout
	if !only2 && !onlyFlood && c.Batch == 0 {
		caseNo++
		c09SlowConnect(c, caseNo, next())
	}

	// ---- phase 1a': a Listen that cannot bind its address fails - and leaves nothing behind
	if !only2 && !onlyFlood {
		for k := 0; k < c.N(3, 12); k++ {
			port := freePort("127.0.0.3")
			squat, serr := net.ListenUDP("udp4", &net.UDPAddr{IP: net.ParseIP("127.0.0.3"), Port: port})
			if port == 0 || serr != nil {
				continue
			}
			u := mkClient(ClientCfg{Bind: bindIP + ":0", Listen: fmt.Sprintf("127.0.0.3:%d", port), Timeout: time.Second})
			q := make(chan os.Signal, 1)
			done := make(chan error, 1)
			go func() { done <- u.Listen(&c08Listener{}, q) }()
			caseNo++
			c.Res.Eval(1)
			c.Res.Count("listen:address-in-use", 1)
			select {
			case err := <-done:
				if err == nil {
					c.Res.Violate("C09:listen:bind-failure:no-error", "Listen returned nil although its listen address was in use", nil, caseNo)
				}
			case <-liveAfter(3 * time.Second):
				c.Res.Violate("C09:listen:bind-failure:hang", "Listen did not return although its listen address was in use", nil, caseNo)
				q <- os.Interrupt
			}
			squat.Close()
			s, g, sd, gd := settle(time.Second, 0, 0, bindHex, listenHex)
			if s > 0 || g > 0 {
				c.Res.Violate("C09:listen:bind-failure:leak", fmt.Sprintf("after a Listen that failed to bind, %d library sockets and %d library goroutines remain", s, g), map[string]any{"sockets": sd, "goroutine": truncateStr(gd, 1500)}, caseNo)
				break
			}
		}
	}

	// ---- phase 1b: the stray flood that outlasts the deadline (absolute, not per-datagram, deadline)
	if !only2 {
		floods := c.N(2, 6)
		var wg sync.WaitGroup
		results := make([]c09Result, floods)
		for i := 0; i < floods; i++ {
			wg.Add(1)
			s := next()
			go func(i int, s uint32) {
				defer wg.Done()
				results[i] = e.run(c09Flood, s, bindIP+":0")
			}(i, s)
		}
		wg.Wait()
		for i := range results {
			caseNo++
			e.judge(results[i], caseNo, "flood", 0)
		}
		time.Sleep(e.floodS - T + 100*time.Millisecond) // let the farm finish its floods
	}

	// ---- phase 1c: discovery while replies keep arriving past the timeout: it returns at the timeout and leaves nothing behind
	if !only2 {
		e.discoveryFlood.Store(true)
		n := c.N(4, 12)
		var wg sync.WaitGroup
		results := make([]c09Result, n)
		for i := 0; i < n; i++ {
			wg.Add(1)
			go func(i int, s uint32) {
				defer wg.Done()
				results[i] = e.run(behaviour{"discovery", "broadcast", "success", 0.93, true}, s, bindIP+":0")
			}(i, next())
		}
		wg.Wait()
		e.discoveryFlood.Store(false)
		for i := range results {
			caseNo++
			results[i].b.name = "discovery-under-flood"
			e.judge(results[i], caseNo, "discovery-flood", 0)
		}
		s, g, sd, gd := settle(time.Second, 0, 0, bindHex, listenHex)
		if s > 0 {
			c.Res.Violate("C09:socket-leak:broadcast:discovery-under-flood", fmt.Sprintf("%d library socket(s) still open 1 s after %d discoveries under a reply flood returned: %v", s, n, sd), map[string]any{"sockets": sd}, caseNo)
		}
		if g > 0 {
			c.Res.Violate("C09:goroutine-leak:broadcast:discovery-under-flood", fmt.Sprintf("%d library goroutine(s) still running 1 s after %d discoveries under a reply flood returned", g, n), map[string]any{"goroutine": truncateStr(gd, 1500)}, caseNo)
		}
		c.Res.Count("discoveries-under-flood", int64(n))
		time.Sleep(e.floodS - T + 100*time.Millisecond)
	}

	// ---- phase 2: calls queued on one fixed bind port are served in turn
	if !onlyFlood {
		// a call that cannot even open its socket (somebody else holds the fixed port) fails - and leaves the port queue usable: the
		// calls after it, on this and on other clients with a fixed bind port, are served as usual
		for k := 0; k < c.N(3, 10); k++ {
			port := freePort(bindIP)
			if port == 0 {
				continue
			}
			squat, serr := net.ListenUDP("udp4", &net.UDPAddr{IP: net.ParseIP(bindIP), Port: port})
			if serr != nil {
				continue
			}
			blocked := []behaviour{{"silence", "broadcast", "error", 0, true}, {"discovery", "broadcast", "error", 0, true}, {"silence", "udp", "error", 0, true}}[k%3]
			first := e.run(blocked, next(), fmt.Sprintf("%s:%d", bindIP, port))
			squat.Close()
			caseNo++
			c.Res.Eval(1)
			c.Res.Count("port-queue:calls-that-could-not-bind", 1)
			if first.hung {
				c.Res.Violate("C09:port-queue:hang-on-bind-failure", fmt.Sprintf("%s over %s on a fixed bind port that somebody else holds did not return", blocked.name, blocked.path), map[string]any{"err": first.err}, caseNo)
				return
			}
			after := e.run(behaviour{"prompt", []string{"udp", "broadcast"}[k%2], "success", 0, false}, next(), fmt.Sprintf("%s:%d", bindIP, freePort(bindIP)))
			after.fixed = true
			caseNo++
			if after.hung {
				c.Res.Eval(1)
				c.Res.Violate("C09:port-queue:hang-after-bind-failure", fmt.Sprintf("after a %s call failed to open its socket on a fixed bind port (%q), the next call from a fixed bind port never returned: the port queue was left locked", blocked.path, first.err), map[string]any{"first_err": first.err}, caseNo)
				return
			}
			e.judge(after, caseNo, "after-bind-failure", 0)
		}
		rounds := c.N(3, 10)
		if only2 {
			rounds = c.N(5, 20)
		}
		for round := 0; round < rounds; round++ {
			port := freePort(bindIP)
			if port == 0 {
				continue
			}
			bind := fmt.Sprintf("%s:%d", bindIP, port)
			k := 3 + r.Pick(2)
			kinds := []behaviour{}
			for i := 0; i < k-1; i++ {
				kinds = append(kinds, []behaviour{{"silence", "udp", "error", 0.93, true}, {"silence", "broadcast", "error", 0.93, true}, {"reply-0.7T", "broadcast", "success", 0, false}, {"reply-0.5T", "udp", "success", 0, false},
					{"tcp-refused", "tcp", "error", 0, true}}[r.Pick(5)])
			}
			kinds = append(kinds, []behaviour{{"reply-0.7T", "udp", "success", 0, false}, {"reply-0.7T", "broadcast", "success", 0, false}, {"prompt", "udp", "success", 0, false}}[r.Pick(3)])
			if round%2 == 1 {
				kinds[1] = behaviour{"discovery", "broadcast", "success", 0, true} // a discovery waits its turn like any other call (through the wildcard address in these rounds)
			}
			if round%3 == 2 {
				// round 9: the last call goes over TCP and queues behind a call that uses up its whole timeout - its own timeout must
				// start when its turn comes, on this path too (seeded C09-V: SendTCP computes its deadline before waiting for the port)
				kinds[0] = behaviour{"silence", "udp", "error", 0.93, true}
				kinds[k-1] = behaviour{"prompt", "tcp", "success", 0, false}
				c.Res.Count("port-queue:rounds-with-a-queued-tcp-call", 1)
			}
			results := make([]c09Result, k)
			bindFailures := 0
			for attempt := 0; attempt < 2; attempt++ {
				if attempt == 1 {
					// second attempt on a fresh port: a port that some other process grabbed in the meantime does not repeat
					if p2 := freePort(bindIP); p2 != 0 {
						port = p2
						bind = fmt.Sprintf("%s:%d", bindIP, port)
					}
				}
				var wg sync.WaitGroup
				for i := 0; i < k; i++ {
					wg.Add(1)
					s := next()
					go func(i int, s uint32) {
						defer wg.Done()
						time.Sleep(time.Duration(i) * 8 * time.Millisecond)
						b := bind
						if round%2 == 1 && i%2 == 1 && kinds[i].path != "tcp" {
							// the same port through the wildcard address: still one port, still served in turn
							b = fmt.Sprintf("0.0.0.0:%d", port)
						}
						results[i] = e.run(kinds[i], s, b)
						results[i].fixed = true
					}(i, s)
				}
				wg.Wait()
				failed := false
				collided := false
				for i := range results {
					if kinds[i].expect == "success" && results[i].err != "" && !results[i].hung {
						failed = true
					}
					if strings.Contains(results[i].err, "address already in use") {
						failed, collided = true, true
					}
				}
				if collided {
					bindFailures++
				}
				if !failed {
					break
				}
				c.Res.Count("port-queue:round-repeated-after-failure", 1) // confirm a timing verdict by a second attempt
			}
			if bindFailures == 2 {
				// calls of this process that share a fixed bind port could not bind it, twice, on two different ports nobody else knows of:
				// they were not served in turn
				for i := range results {
					if strings.Contains(results[i].err, "address already in use") {
						caseNo++
						c.Res.Eval(1)
						c.Res.Violate("C09:port-queue:not-served-in-turn:"+kinds[i].name, fmt.Sprintf("%s over %s: a call sharing the fixed bind port %d with %d other calls of this process failed with %q instead of waiting its turn (seen on two rounds with different ports)", kinds[i].name, kinds[i].path, port, k-1, results[i].err),
							map[string]any{"behaviour": kinds[i].name, "path": kinds[i].path, "err": results[i].err, "calls_sharing_the_port": k}, caseNo)
						break
					}
				}
			}
			for i := range results {
				caseNo++
				pos := k - 1
				if i == 0 {
					pos = 0 // the first call started alone: nobody is ahead of it
				}
				e.judge(results[i], caseNo, "port-queue", pos)
			}
			c.Res.Count("port-queue-rounds", 1)
		}
		s, g, sd, gd := settle(2*time.Second, 0, 0, bindHex, listenHex)
		if s > 0 || g > 0 {
			c.Res.Violate("C09:leak:port-queue", fmt.Sprintf("after the fixed-port rounds %d library sockets and %d library goroutines remain", s, g), map[string]any{"sockets": sd, "goroutine": truncateStr(gd, 1500)}, caseNo)
		}
	}

	// ---- phase 2b: two TCP calls in a row from one fixed bind port (to two different controllers: the kernel refuses to reuse a
	// 4-tuple that is in TIME_WAIT, whatever the library does): the second must not be refused its own bind port
	if !onlyFlood {
		for round := 0; round < c.N(3, 12); round++ {
			port := freePort(bindIP)
			if port == 0 {
				continue
			}
			bind := fmt.Sprintf("%s:%d", bindIP, port)
			first := e.run(behaviour{"prompt", "tcp", "success", 0, false}, next(), bind)
			second := e.run(behaviour{"prompt-tcp2", "tcp", "success", 0, false}, next(), bind)
			if strings.Contains(first.err, "address already in use") {
				c.Res.Inconcl("bind collision on a fixed port: " + first.err)
				continue
			}
			first.fixed, second.fixed = true, true
			caseNo++
			e.judge(first, caseNo, "tcp-twice-on-a-fixed-port", 0)
			caseNo++
			c.Res.Count("tcp-twice-on-a-fixed-port", 1)
			if first.err == "" && strings.Contains(second.err, "address already in use") {
				c.Res.Eval(1)
				c.Res.Violate("C09:tcp:fixed-port:second-call-cannot-bind", fmt.Sprintf("a TCP call from the fixed bind port %d right after another TCP call from it (to a different controller) failed after %v without asking its controller: %s", port, second.elapsed, second.err),
					map[string]any{"bind": bind, "first_err": first.err, "second_err": second.err, "elapsed_ms": second.elapsed.Milliseconds()}, caseNo)
				continue
			}
			e.judge(second, caseNo, "tcp-twice-on-a-fixed-port", 0)
		}
	}

	// ---- phase 3: leak batches - parallel random sequences, listener cycles in between
	if !only2 && !onlyFlood {
		total := c.N(1200, 20000)
		workers := 16
		var done atomic.Int64
		var wg sync.WaitGroup
		pool := []behaviour{}
		for _, b := range c09Behaviours {
			w := 1
			if b.expect == "success" && b.name != "discovery" {
				w = 4 // mostly successful traffic with faults mixed in
			}
			for i := 0; i < w; i++ {
				pool = append(pool, b)
			}
		}
		var hung atomic.Bool
		for w := 0; w < workers; w++ {
			wg.Add(1)
			go func(w int) {
				defer wg.Done()
				rr := gen.New(c.Seed, fmt.Sprintf("C09/leak/w%d", w), c.Batch)
				for done.Add(1) <= int64(total) && !hung.Load() {
					b := pool[rr.Pick(len(pool))]
					s := uint32(0x22000000) + uint32(c.Batch)<<20 + uint32(w)<<14 + uint32(rr.Pick(1<<13)) // (the upper half of the worker's range is for second attempts)
					res := e.run(b, s, workerIP(c, w)+":0")
					if b.expect == "success" && res.err != "" && !res.hung {
						// under parallel load a late wake-up of the client can eat the margin: confirm on a second attempt
						c.Res.Count("leak-batch:retried-after-failure", 1)
						res = e.run(b, s+1<<13, workerIP(c, w)+":0")
					}
					if b.expect == "error" && res.err == "" && !res.hung && b.minT > 0 {
						c.Res.Count("leak-batch:retried-after-unexpected-success", 1)
						res = e.run(b, s+1<<13, workerIP(c, w)+":0")
					}
					e.judge(res, int64(1000000+w), "leak-batch", 0)
					if res.hung {
						hung.Store(true)
					}
				}
			}(w)
		}
		// listener start/stop cycles while calls are running
		cycles := c.N(6, 60)
		wg.Add(1)
		go func() {
			defer wg.Done()
			for i := 0; i < cycles && !hung.Load(); i++ {
				c09ListenCycle(c, i)
			}
		}()
		wg.Wait()
		s, g, sd, gd := settle(3*time.Second, baseS, baseG, censusIPs...)
		c.Res.Count("leak-batch:calls", int64(total))
		c.Res.Count("leak-batch:listener-cycles", int64(cycles))
		c.Res.Max("max:library-sockets-after-batch", int64(s))
		c.Res.Max("max:library-goroutines-after-batch", int64(g))
		if s > baseS {
			c.Res.Violate("C09:socket-leak:batch", fmt.Sprintf("after %d calls and %d listener cycles the process holds %d library sockets (before: %d): %v", total, cycles, s, baseS, sd), map[string]any{"sockets": sd}, caseNo)
		}
		if g > baseG {
			c.Res.Violate("C09:goroutine-leak:batch", fmt.Sprintf("after %d calls and %d listener cycles %d library goroutines remain (before: %d)", total, cycles, g, baseG), map[string]any{"goroutine": truncateStr(gd, 2000)}, caseNo)
		}
		c.Res.Sample(map[string]any{"phase": "leak-batch", "calls": total, "listener_cycles": cycles, "library_sockets_after": s, "library_goroutines_after": g})
	}
	_ = types.Date{}
	_ = uhppote.VERSION
}

// c09ListenCycle starts the real listener on 127.0.0.3, sends a few events, stops it and re-binds the address.
func c09ListenCycle(c *Ctx, i int) {
	port := freePort("127.0.0.3")
	if port == 0 {
		return
	}
	addr := fmt.Sprintf("127.0.0.3:%d", port)
	u := mkClient(ClientCfg{Bind: bindIP + ":0", Listen: addr, Timeout: time.Second})
	l := &c08Listener{}
	q := make(chan os.Signal, 1)
	done := make(chan error, 1)
	go func() { done <- u.Listen(l, q) }()
	for k := 0; k < 500 && l.connected.Load() == 0; k++ {
		time.Sleep(time.Millisecond)
	}
	if conn, err := net.Dial("udp4", addr); err == nil {
		ev := echoReply(append([]byte{0x17, 0x20, 0, 0, 1, 2, 3, 4}, make([]byte, 56)...))
		for k := 0; k < 5; k++ {
			conn.Write(ev)
		}
		conn.Write([]byte{1, 2, 3})
		conn.Close()
	}
	time.Sleep(2 * time.Millisecond)
	// every third cycle: datagrams keep arriving (one every millisecond, junk and events) while the listener is being stopped - and
	// go on arriving until it has returned
	stopFlood := make(chan struct{})
	var flood sync.WaitGroup
	if i%3 == 1 {
		c.Res.Count("listen-cycles-stopped-under-continuing-traffic", 1)
		flood.Add(1)
		go func() {
			defer flood.Done()
			conn, err := net.Dial("udp4", addr)
			if err != nil {
				return
			}
			defer conn.Close()
			ev := echoReply(append([]byte{0x17, 0x20, 0, 0, 9, 2, 3, 4}, make([]byte, 56)...))
			for k := 0; ; k++ {
				select {
				case <-stopFlood:
					return
				default:
				}
				if k%2 == 0 {
					conn.Write(ev)
				} else {
					conn.Write([]byte{1, 2, 3, byte(k)})
				}
				time.Sleep(time.Millisecond)
			}
		}()
		time.Sleep(20 * time.Millisecond)
	}
	q <- os.Interrupt
	c.Res.Eval(1)
	select {
	case err := <-done:
		close(stopFlood)
		flood.Wait()
		if err != nil {
			c.Res.Violate("C09:listen:stop-error", "Listen returned an error when stopped: "+err.Error(), nil, int64(i))
		}
	case <-liveAfter(5 * time.Second):
		close(stopFlood)
		flood.Wait()
		c.Res.Violate("C09:listen:hang", fmt.Sprintf("Listen did not return within 5 s of the stop signal (datagrams still arriving: %v)", i%3 == 1), nil, int64(i))
		return
	}
	// the socket must be gone: the address can be bound again at once
	if pc, err := net.ListenPacket("udp4", addr); err != nil {
		c.Res.Violate("C09:listen:socket-not-released", "the listen address cannot be bound right after Listen returned: "+err.Error(), nil, int64(i))
	} else {
		pc.Close()
	}
}

// c09SlowConnect: a listening socket with a backlog of zero whose one place in the accept queue is taken drops every further SYN.
// The call's first SYN and its retransmission after 1 s are dropped; the place is then freed, and the second retransmission (3 s
// into the call) connects - to a peer that never reads or answers. With T = 4 s the call must fail by T + slack: the deadline is
// counted from the start of the call, not from the moment the connection stood.
func c09SlowConnect(c *Ctx, caseNo int64, serial uint32) {
	const T = 4 * time.Second
	fd, err := syscall.Socket(syscall.AF_INET, syscall.SOCK_STREAM, 0)
	if err != nil {
		return
	}
	defer syscall.Close(fd)
	if err := syscall.Bind(fd, &syscall.SockaddrInet4{Addr: [4]byte{127, 0, 0, 1}}); err != nil {
		return
	}
	if err := syscall.Listen(fd, 0); err != nil {
		return
	}
	sa, err := syscall.Getsockname(fd)
	if err != nil {
		return
	}
	port := sa.(*syscall.SockaddrInet4).Port
	addr := fmt.Sprintf("127.0.0.1:%d", port)
	// take the one place in the accept queue
	filler, err := net.DialTimeout("tcp4", addr, time.Second)
	if err != nil {
		c.Res.Inconcl("slow-connect: cannot fill the accept queue: " + err.Error())
		return
	}
	defer filler.Close()
	// a probe: with the queue full a connect must not complete at once (otherwise this kernel does not drop the SYN and the scenario is void)
	if probe, err := net.DialTimeout("tcp4", addr, 300*time.Millisecond); err == nil {
		probe.Close()
		c.Res.Count("slow-connect:kernel-does-not-drop-syn(scenario void)", 1)
		return
	}
	u := mkClient(ClientCfg{Bind: bindIP + ":0", Broadcast: "127.0.0.1:1", Timeout: T, Devices: []DevCfg{{ID: serial, Addr: addr, Proto: "tcp"}}})
	finish := make(chan struct{})
	var acceptor sync.WaitGroup
	acceptor.Add(1)
	go func() {
		defer acceptor.Done()
		accepted := []int{}
		time.Sleep(1300 * time.Millisecond)                // after the retransmission at 1 s has been dropped too
		if nfd, _, err := syscall.Accept(fd); err == nil { // frees the place: the call's connection (SYN at 3 s) takes it, and is never read or answered
			accepted = append(accepted, nfd)
		}
		<-finish
		for _, nfd := range accepted {
			syscall.Close(nfd)
		}
	}()
	start := time.Now()
	t0mono := farm.Mono()
	done := make(chan rm.Outcome, 1)
	go func() {
		out, _ := adapter.SafeCall(u, "GetEvent", serial, rm.Vals{"Index": rm.UVal(rm.U32, 7)}, adapter.Aux{})
		done <- out
	}()
	c.Res.Eval(1)
	c.Res.DistinctKey("slow-connect", "tcp")
	c.Res.Count("behaviour:tcp-slow-connect-then-stall/tcp", 1)
	select {
	case out := <-done:
		elapsed := time.Since(start)
		w := map[string]any{"T_ms": T.Milliseconds(), "elapsed_ms": elapsed.Milliseconds(), "err": out.Err}
		c.Res.Note("slow-connect", fmt.Sprintf("T=%v: the call returned after %v with %q", T, elapsed.Round(time.Millisecond), out.Err))
		switch {
		case out.Err == "":
			c.Res.Violate("C09:tcp:tcp-slow-connect:unexpected-success", "a TCP peer that never answered: the call succeeded", w, caseNo)
		case elapsed > T+1500*time.Millisecond && elapsed < T+2500*time.Millisecond && c09Stalls.total(t0mono, farm.Mono()) > elapsed-T-time.Second:
			c.Res.Inconcl(fmt.Sprintf("slow TCP connect: the call returned after %v (T=%v) while the host kept the process from running for %v in all: not judged", elapsed.Round(time.Millisecond), T, c09Stalls.total(t0mono, farm.Mono())))
		case elapsed > T+1500*time.Millisecond:
			c.Res.Violate("C09:tcp:tcp-slow-connect:late-return", fmt.Sprintf("TCP connection established only on the second SYN retransmission (about 3 s), peer never answers: the call returned after %v, the bound is T + 1.5 s (T=%v) - the time spent connecting is part of the timeout", elapsed.Round(time.Millisecond), T), w, caseNo)
		}
	case <-liveAfter(T + 10*time.Second):
		c.Res.Violate("C09:tcp:tcp-slow-connect:hang", fmt.Sprintf("slow TCP connect then silence: the call did not return within T+10s (T=%v)", T), nil, caseNo)
	}
	close(finish)
	acceptor.Wait()
}
