package main

import (
	"fmt"
	"net"
	"strings"
	"sync"
	"time"

	"verif/harness/adapter"
	"verif/harness/farm"
	rm "verif/harness/refmodel"
)

// c08TCPInTurn (round 8): "even if the call first had to wait its turn for a shared fixed bind port" on the TCP path. Two calls
// of one client with a fixed bind port to the SAME TCP controller overlap: the second starts while the controller is still
// working on the first (reply after 0.4 T). Both sockets would have the same 4-tuple, so the second call can only be served
// after the first has released the port - it has to wait, not fail.
//
// The verdict does not depend on the kernel's TIME_WAIT handling (which decides whether the second connect succeeds once its
// turn has come - its failure then is counted, never judged): a call is in violation only if it FAILED ENTIRELY INSIDE the
// window in which the farm was measurably holding the other call's request (after the farm received it, before the farm began
// to send its reply). In that window the other call owns the bind port; a call that waits its turn cannot have returned.
// A second call that succeeds must carry its own id (crossed replies).
func c08TCPInTurn(c *Ctx, T time.Duration) {
	rounds := c.N(3, 12)
	for round := 0; round < rounds; round++ {
		f := c08BuildFarm(c, T)
		if f == nil {
			c.Res.Inconcl("cannot build farm")
			return
		}
		serial := uint32(0x61000000) + uint32(c.Batch)<<16 + uint32(round)<<8 + 0x81
		idA, idB := 77000+uint32(round)*2, 77001+uint32(round)*2
		f.delayOf = func(s, id uint32) time.Duration {
			if id == idA {
				return T * 4 / 10
			}
			return 0
		}
		f.fm.SetScript(func(ep *farm.Endpoint, src net.Addr, req []byte, seq uint64) []farm.Action {
			a := f.script(ep, src, req, seq)
			if len(a) > 0 {
				a[len(a)-1].Close = true // the controller closes first: no TIME_WAIT on the client's side of the 4-tuple
			}
			return a
		})
		port := unlistenedPort("127.0.0.1")
		if port == 0 {
			f.fm.Close()
			c.Res.Inconcl("tcp-in-turn: no port for the fixed bind address")
			continue
		}
		cfg := ClientCfg{Bind: fmt.Sprintf("127.0.0.1:%d", port), Broadcast: f.bcast.Addr, Timeout: T,
			Devices: []DevCfg{{ID: serial, Addr: f.tcp[round%2].Addr, Proto: "tcp"}}}
		u := mkClient(cfg)
		ids := [2]uint32{idA, idB}
		var results [2]rm.Outcome
		var starts, ends [2]int64
		var wg sync.WaitGroup
		for i := 0; i < 2; i++ {
			wg.Add(1)
			go func(i int) {
				defer wg.Done()
				time.Sleep(time.Duration(i) * T / 10)
				starts[i] = farm.Mono()
				results[i], _ = adapter.SafeCall(u, "GetEvent", serial, echoArgs(echoOps[0], ids[i]), adapter.Aux{})
				ends[i] = farm.Mono()
			}(i)
		}
		wg.Wait()
		c.Res.Eval(2)
		c.Res.Count("tcp-in-turn:rounds", 1)
		// the farm's view: when it received each request and when it began to send the reply
		var recvT, sendT [2]int64
		seqOf := map[uint64]int{}
		for _, e := range f.fm.Events() {
			if e.Proto != "tcp" || len(e.Data) != 64 {
				continue
			}
			if e.Kind == "recv" {
				id := uint32(e.Data[8]) | uint32(e.Data[9])<<8 | uint32(e.Data[10])<<16 | uint32(e.Data[11])<<24
				for i := range ids {
					if id == ids[i] && recvT[i] == 0 {
						recvT[i] = e.T
						seqOf[e.Seq] = i
					}
				}
			} else if e.Kind == "send" {
				if i, ok := seqOf[e.Seq]; ok && sendT[i] == 0 {
					sendT[i] = e.T
				}
			}
		}
		f.fm.Close()
		w := map[string]any{"T_ms": T.Milliseconds(), "bind": cfg.Bind, "controller": cfg.Devices[0].Addr,
			"first_err": results[0].Err, "second_err": results[1].Err, "first_result": results[0].Fields.String(), "second_result": results[1].Fields.String(),
			"first_call_ms": []float64{float64(starts[0]-starts[0]) / 1e6, float64(ends[0]-starts[0]) / 1e6}, "second_call_ms": []float64{float64(starts[1]-starts[0]) / 1e6, float64(ends[1]-starts[0]) / 1e6},
			"farm_recv_ms": []float64{float64(recvT[0]-starts[0]) / 1e6, float64(recvT[1]-starts[0]) / 1e6}, "farm_send_ms": []float64{float64(sendT[0]-starts[0]) / 1e6, float64(sendT[1]-starts[0]) / 1e6}}
		judged := false
		for y := 0; y < 2; y++ {
			x := 1 - y
			if results[y].Err == "" {
				// own reply?
				want := echoVals(rm.FindOp("GetEvent"), serial, ids[y])
				if got := results[y].Fields["Index"]; got.U != want["Index"].U {
					c.Res.Violate("C08:crossed-reply:tcp-in-turn", fmt.Sprintf("two overlapping calls to one TCP controller from a fixed bind port: the call that asked for event %d returned event %d", want["Index"].U, got.U), w, int64(round))
				}
				continue
			}
			if recvT[x] != 0 && sendT[x] != 0 && starts[y] > recvT[x] && ends[y] < sendT[x] {
				judged = true
				c.Res.Violate("C08:not-served-in-turn:tcp", fmt.Sprintf("a call to a TCP controller from a fixed bind port started %.0f ms after the controller had received another call's request from that port and failed %.0f ms before the controller began to answer it - it did not wait its turn for the port: %s",
					float64(starts[y]-recvT[x])/1e6, float64(sendT[x]-ends[y])/1e6, results[y].Err), w, int64(round))
				continue
			}
			// failed after its turn had come: the kernel's view of the 4-tuple (TIME_WAIT), a starved host ... - not judged here
			if strings.Contains(results[y].Err, "cannot assign requested address") || strings.Contains(results[y].Err, "address already in use") {
				c.Res.Count("tcp-in-turn:second-connect-refused-by-kernel-after-its-turn", 1)
			} else {
				c.Res.Count("tcp-in-turn:failed-after-its-turn", 1)
			}
		}
		if results[0].Err == "" && results[1].Err == "" {
			c.Res.Count("tcp-in-turn:both-served", 1)
			// overlap actually produced? (the second call began while the farm held the first request)
			if recvT[0] != 0 && sendT[0] != 0 && starts[1] > recvT[0] && starts[1] < sendT[0] {
				c.Res.Count("tcp-in-turn:overlap-observed", 1)
				if recvT[1] != 0 && recvT[1] < sendT[0] {
					// both requests were at the controller at the same time from one fixed port: two connections with one 4-tuple cannot
					// exist - whatever arrived, it did not come from the configured bind port; counted, the source check is C06's
					c.Res.Count("tcp-in-turn:second-request-arrived-during-first", 1)
				}
			}
		}
		c.Res.DistinctKey("tcp-in-turn", round%2, results[0].Err == "", results[1].Err == "", judged)
		if round == 0 {
			c.Res.Sample(w)
		}
	}
}
