package main

import (
	"fmt"
	"time"

	"verif/harness/adapter"
	"verif/harness/gen"
	rm "verif/harness/refmodel"
	"verif/harness/wk"
)

func init() { registry["C02"] = c02 }

// c02Key computes the finding key from the witness itself.
func c02Key(op *rm.Op, ce rm.CallExp, reply []byte, why string) string {
	l := op.ReplyLayout()
	for _, f := range l.Fields {
		if f.Kind == rm.HHmm {
			b := reply[f.Offset : f.Offset+2]
			if b[1] == 0x60 && b[0]>>4 <= 2 && b[0]&0x0f <= 9 {
				if e, ok := ce.Fields[f.Name]; ok && e.Mode == rm.ErrOrZero {
					return "C02:hhmm-minutes-60"
				}
			}
		}
	}
	return "C02:" + op.Name + ":" + why
}

func c02One(c *Ctx, mc memClient, op *rm.Op, serial uint32, a rm.Vals, p gen.Presentation, reply []byte, caseNo int64, tag string) {
	aux := toAux(p)
	fixArgs(op, a, aux)
	mc.d.Reset()
	handed := append([]byte{}, reply...)
	mc.d.Script = func(adapter.Invocation) ([][]byte, error) { return [][]byte{handed}, nil }
	out, panicked := adapter.SafeCall(mc.u, op.Name, serial, a, aux)
	c.Res.Eval(1)
	c.Res.Count("calls:"+op.Name, 1)
	ce := op.Expect(serial, a, reply)
	if c02Oracle != nil {
		// civil times / days that do not exist in the process zone are outside the statement
		for name, e := range ce.Fields {
			if e.Mode != rm.Must || e.V.Zero {
				continue
			}
			switch e.V.K {
			case rm.DateTime:
				if !c02Oracle.civilExists(e.V.Y, e.V.Mo, e.V.D, e.V.H, e.V.Mi, e.V.S) {
					e.Mode = rm.DontCare
					ce.Fields[name] = e
				}
			case rm.Date:
				if !c02Oracle.dayHasInstant(e.V.Y, e.V.Mo, e.V.D) {
					e.Mode = rm.DontCare
					ce.Fields[name] = e
				}
			}
		}
	}
	outcome := "value"
	if out.Err != "" {
		outcome = "error"
	} else if out.Nil {
		outcome = "nil"
	}
	c.Res.Count("outcome:"+outcome, 1)
	c.Res.DistinctKey(op.Name, ce.Classes, outcome, tag)
	if caseNo%4999 == 0 {
		c.Res.Sample(map[string]any{"op": op.Name, "reply": wk.Hex(reply), "outcome": outcome, "result": out.Fields.String(), "err": out.Err})
	}
	w := func() map[string]any {
		return map[string]any{"op": op.Name, "serial": serial, "args": a.String(), "reply": wk.Hex(reply), "got": out.Fields.String(), "err": out.Err, "nil": out.Nil, "mode": tag}
	}
	if panicked {
		c.Res.Violate("C02:"+op.Name+":panic", op.Name+": panic while decoding a reply: "+out.Err, w(), caseNo)
		return
	}
	if msg := ce.Judge(out); msg != "" {
		short := msg
		if len(short) > 40 {
			short = short[:40]
		}
		// key: field name when the disagreement is about one field
		why := "outcome"
		for name := range ce.Fields {
			if len(msg) > 6+len(name) && msg[:6+len(name)] == "field "+name {
				why = name
			}
		}
		c.Res.Violate(c02Key(op, ce, reply, why), op.Name+": "+msg, w(), caseNo)
	}
}

var c02Oracle *zoneOracle // set in zone mode

// c02Zone: replies whose date / date-time fields fall on the days the process zone changes its offset.
func c02Zone(c *Ctx) {
	zone := time.Local.String()
	c.Res.Rule = "zone mode: replies of the operations carrying dates and date-times, with those fields on and around the days the process time zone (TZ) changes its offset; the returned civil values are judged against the reference decoding; civil times / days that do not exist in the zone are don't-care; distinct = distinct (zone, operation, field values)"
	c.Res.Note("zone", zone)
	r := c.Rng("zone/" + zone)
	z := newZoneOracle(time.Local)
	c02Oracle = z
	known := []uint32{r.Serial()}
	clients := c01Clients(r, known)
	// instants around the zone's transitions (all years with two digit system dates, plus a sample of others)
	moments := []int64{}
	for i := 1; i < len(z.periods); i++ {
		s := z.periods[i].start
		if (s >= civilUnix(2000, 1, 2, 0, 0, 0) && s < civilUnix(2068, 12, 30, 0, 0, 0)) || i%17 == int(c.Seed%17) {
			moments = append(moments, s)
		}
	}
	if len(moments) == 0 {
		moments = append(moments, 1700000000)
	}
	ops := []*rm.Op{rm.FindOp("GetStatus"), rm.FindOp("GetTime"), rm.FindOp("SetTime"), rm.FindOp("GetEvent"), rm.FindOp("GetCardByIndex"), rm.FindOp("GetCardByID"), rm.FindOp("GetTimeProfile"), rm.FindOp("GetDevice")}
	N := c.N(6000, 60000)
	for i := 0; i < N; i++ {
		op := ops[r.Pick(len(ops))]
		serial := known[0]
		a, p := r.Args(op)
		reply := validReply(r, op, serial, a)
		l := op.ReplyLayout()
		for _, f := range l.Fields {
			T := moments[r.Pick(len(moments))] + int64(r.Pick(50*3600)) - 25*3600
			if r.Chance(0.3) {
				T = moments[r.Pick(len(moments))] + int64(r.Pick(7200)) - 3600
			}
			cv := civilOf(T, time.Local)
			if cv.y < 1 || cv.y > 9999 {
				continue
			}
			switch f.Kind {
			case rm.Date:
				if z.dayHasInstant(cv.y, cv.m, cv.d) && !(cv.y == 1 && cv.m == 1 && cv.d == 1) {
					rm.EncodeField(reply, f, rm.DateVal(cv.y, cv.m, cv.d))
				}
			case rm.DateTime:
				rm.EncodeField(reply, f, rm.DateTimeVal(cv.y, cv.m, cv.d, cv.h, cv.mi, cv.s))
			case rm.SysDate:
				if cv.y >= 2000 && cv.y <= 2068 {
					rm.EncodeField(reply, f, rm.Val{K: rm.SysDate, Y: cv.y, Mo: cv.m, D: cv.d})
					if tf := l.Field("SystemTime"); tf != nil {
						rm.EncodeField(reply, *tf, rm.Val{K: rm.SysTime, H: cv.h, Mi: cv.mi, S: cv.s})
					}
				}
			}
		}
		if op.Name == "GetStatus" {
			rm.EncodeField(reply, *l.Field("EventIndex"), rm.UVal(rm.U32, uint64(1+r.Pick(100000))))
		}
		c02One(c, clients[r.Pick(len(clients))], op, serial, a, p, reply, int64(i), "zone:"+zone)
	}
}

func c02(c *Ctx) {
	if c.Mode == "tz" {
		c02Zone(c)
		return
	}
	c.Res.Rule = "replies with a correct header and every payload field drawn from its full byte-pattern domain (valid, boundary, sentinel, every out-of-domain class; random bytes outside fields) are played to all 31 reply-bearing operations through the in-memory driver; the returned value is judged against the reference decoding (three-valued per field); distinct = distinct (operation, per-field class vector, outcome) keys"
	r := c.Rng("main")
	known := []uint32{r.Serial(), r.Serial(), r.Serial()}
	clients := c01Clients(r, known)
	ops := replyOps()
	N := c.N(60000, 1500000)
	for i := 0; i < N; i++ {
		op := ops[r.Pick(len(ops))]
		serial := r.Serial()
		if r.Chance(0.3) {
			serial = known[r.Pick(len(known))]
		}
		a, p := r.Args(op)
		som := byte(0x17)
		if op.Name == "GetStatus" && r.Chance(0.3) {
			som = 0x19
		}
		reply := r.Reply(op, som, serial, a, r.Chance(0.35))
		c02One(c, clients[r.Pick(len(clients))], op, serial, a, p, reply, int64(i), "random")
	}

	// ---- the application edits the statuses (and cards) it is given - its own values - and asks again: what comes back next is the
	// decoding of the next reply, whatever was done to the earlier results
	c02EditedResults(c, r)

	// ---- per-field sweeps
	caseNo := int64(100_000_000)
	slot := 0
	mine := func() bool { slot++; return slot%c.MNBatch == c.MBatch }
	mc := clients[0]
	sweepField := func(op *rm.Op, f rm.Field, patterns func(yield func([]byte)), tag string) {
		patterns(func(b []byte) {
			serial := r.Serial()
			a, p := r.Args(op)
			reply := r.Reply(op, 0x17, serial, a, true)
			copy(reply[f.Offset:], b)
			// keep echoed identifiers consistent so that the swept field is visible
			switch op.Name {
			case "GetCardByID":
				if f.Name != "CardNumber" {
					rm.EncodeField(reply, *op.ReplyLayout().Field("CardNumber"), rm.UVal(rm.U32, a["CardNumber"].U))
				}
			case "GetTimeProfile":
				if f.Name != "ProfileID" {
					rm.EncodeField(reply, *op.ReplyLayout().Field("ProfileID"), rm.UVal(rm.U8, a["ProfileID"].U))
				}
			}
			c02One(c, mc, op, serial, a, p, reply, caseNo, tag)
			caseNo++
		})
	}
	for _, op := range ops {
		for _, f := range op.ReplyLayout().Fields {
			f := f
			switch f.Kind {
			case rm.U8, rm.Bool:
				if mine() {
					sweepField(op, f, func(y func([]byte)) {
						for v := 0; v < 256; v++ {
							y([]byte{byte(v)})
						}
					}, "sweep/byte")
					c.Res.Count("sweep:single-byte-fields-all-256", 1)
				}
			case rm.HHmm:
				if mine() {
					sweepField(op, f, func(y func([]byte)) {
						for v := 0; v < 65536; v++ {
							y([]byte{byte(v >> 8), byte(v)})
						}
					}, "sweep/hhmm")
					c.Res.Count("sweep:hhmm-fields-all-65536", 1)
				}
			case rm.U32, rm.Serial:
				if f.Kind == rm.Serial {
					continue
				}
				if mine() {
					sweepField(op, f, func(y func([]byte)) {
						for b := 0; b < 32; b++ {
							v := uint32(1) << b
							y([]byte{byte(v), byte(v >> 8), byte(v >> 16), byte(v >> 24)})
							v = ^v
							y([]byte{byte(v), byte(v >> 8), byte(v >> 16), byte(v >> 24)})
						}
					}, "sweep/u32-bitwalk")
				}
			case rm.PIN:
				if mine() {
					sweepField(op, f, func(y func([]byte)) {
						step := 251
						if c.Thorough() {
							step = 7
						}
						for v := 0; v < 1<<24; v += step {
							y([]byte{byte(v), byte(v >> 8), byte(v >> 16)})
						}
					}, "sweep/pin")
				}
			case rm.SysDate, rm.SysTime:
				if mine() {
					sweepField(op, f, func(y func([]byte)) {
						// all 10^6 BCD patterns (thorough) / every 7th (quick), plus non-BCD nibbles in each position
						step := 7
						if c.Thorough() {
							step = 1
						}
						for v := 0; v < 1000000; v += step {
							y([]byte{bcdb(v / 10000), bcdb(v / 100 % 100), bcdb(v % 100)})
						}
						for pos := 0; pos < 6; pos++ {
							for nib := 10; nib < 16; nib++ {
								b := []byte{0x24, 0x06, 0x15}
								if f.Kind == rm.SysTime {
									b = []byte{0x12, 0x34, 0x56}
								}
								if pos%2 == 0 {
									b[pos/2] = b[pos/2]&0x0f | byte(nib)<<4
								} else {
									b[pos/2] = b[pos/2]&0xf0 | byte(nib)
								}
								y(b)
							}
						}
					}, "sweep/sys")
				}
			case rm.Date, rm.DateTime:
				// BCD date patterns: the full 10^8 space on GetCardByIndex.From in thorough (partitioned over all batches),
				// a 1/997 (quick) or 1/101 (thorough) stride on every other date field; plus all 16^4 year-byte pairs.
				full := c.Thorough() && op.Name == "GetCardByIndex" && f.Name == "From"
				if full {
					sweepField(op, f, func(y func([]byte)) {
						for v := c.MBatch; v < 100000000; v += c.MNBatch {
							y([]byte{bcdb(v / 1000000), bcdb(v / 10000 % 100), bcdb(v / 100 % 100), bcdb(v % 100)})
						}
					}, "sweep/date-all-1e8")
					c.Res.Count("sweep:date-all-1e8-patterns(partitioned)", 1)
					continue
				}
				if !mine() {
					continue
				}
				sweepField(op, f, func(y func([]byte)) {
					stride := 997
					if c.Thorough() {
						stride = 101
					}
					for v := int(r.Pick(stride)); v < 100000000; v += stride {
						y([]byte{bcdb(v / 1000000), bcdb(v / 10000 % 100), bcdb(v / 100 % 100), bcdb(v % 100)})
					}
					// every day of some years, exhaustively
					for _, yr := range []int{1, 1900, 2000, 2023, 2024, 2100, 9999, 1 + r.Pick(9999)} {
						for m := 0; m <= 13; m++ {
							for d := 0; d <= 32; d++ {
								y([]byte{bcdb(yr / 100), bcdb(yr % 100), bcdb(m), bcdb(d)})
							}
						}
					}
					// all 16^4 values of the two year bytes
					for v := 0; v < 65536; v += 1 {
						y([]byte{byte(v >> 8), byte(v), 0x06, 0x15})
					}
					// non-BCD nibble in month/day
					for pos := 4; pos < 8; pos++ {
						for nib := 10; nib < 16; nib++ {
							b := []byte{0x20, 0x24, 0x06, 0x15}
							if pos%2 == 0 {
								b[pos/2] = b[pos/2]&0x0f | byte(nib)<<4
							} else {
								b[pos/2] = b[pos/2]&0xf0 | byte(nib)
							}
							y(b)
						}
					}
				}, "sweep/date")
				if f.Kind == rm.DateTime {
					// time-of-day part: all 10^6 patterns of hhmmss (stride in quick)
					tf := f
					tf.Offset += 4
					tf.Kind = rm.SysTime
					sweepField(op, rm.Field{Offset: f.Offset + 4, Name: f.Name, Kind: rm.SysTime}, func(y func([]byte)) {
						step := 11
						if c.Thorough() {
							step = 1
						}
						for v := 0; v < 1000000; v += step {
							y([]byte{bcdb(v / 10000), bcdb(v / 100 % 100), bcdb(v % 100)})
						}
					}, "sweep/datetime-time")
				}
			}
		}
	}
	c.Res.Note("sweeps", fmt.Sprintf("single byte fields: all 256 values; HH:mm fields: all 65536 byte pairs; dates: BCD stride + whole years (months 0..13, days 0..32) + all 65536 year byte pairs; thorough adds all 10^8 BCD patterns of GetCardByIndex.From; tier=%s", c.Tier))
}

func bcdb(n int) byte { return byte((n/10%10)<<4 | n%10) }

// c02EditedResults: GetStatus / GetCardByIndex in a loop over the few door-flag patterns and door maps a site shows all day; after
// each result has been compared with its reply the application overwrites the maps in it (flips every flag, deletes an entry, adds one).
func c02EditedResults(c *Ctx, r gen.R) {
	u, d := mkMemClient(ClientCfg{Broadcast: "192.168.1.255:60000"})
	st := rm.FindOp("GetStatus")
	l := st.ReplyLayout()
	gc := rm.FindOp("GetCardByIndex")
	lc := gc.ReplyLayout()
	bad := 0
	for i := 0; i < c.N(4000, 40000) && bad < 4; i++ {
		serial := uint32(405419896 + i%3)
		flags := [8]bool{}
		pattern := []int{0, 0, 0x0f, 0xf0, 0xff, r.Pick(256)}[r.Pick(6)]
		msg := okReply(st, serial)
		for k := 0; k < 8; k++ {
			flags[k] = pattern&(1<<k) != 0
			name := fmt.Sprintf("Door%dState", k+1)
			if k >= 4 {
				name = fmt.Sprintf("Door%dButton", k-3)
			}
			v := uint64(0)
			if flags[k] {
				v = 1
			}
			rm.EncodeField(msg, *l.Field(name), rm.UVal(rm.Bool, v))
		}
		d.Reset()
		d.Script = func(adapter.Invocation) ([][]byte, error) { return [][]byte{append([]byte{}, msg...)}, nil }
		got, err := u.GetStatus(serial)
		c.Res.Eval(1)
		c.Res.DistinctKey("edited-results", "status", pattern)
		if err != nil || got == nil {
			continue // (what makes GetStatus fail is judged above)
		}
		for k := 0; k < 4; k++ {
			if got.DoorState[uint8(k+1)] != flags[k] || got.DoorButton[uint8(k+1)] != flags[k+4] || len(got.DoorState) != 4 || len(got.DoorButton) != 4 {
				bad++
				c.Res.Violate("C02:GetStatus:after-the-application-edited-an-earlier-result", fmt.Sprintf("GetStatus: the reply carries door flags %08b (doors 1-4, buttons 1-4 from the low bit), the status returned has DoorState %v DoorButton %v - after the application had edited the door maps of statuses returned earlier", pattern, got.DoorState, got.DoorButton), map[string]any{"reply": wk.Hex(msg)}, int64(i))
				break
			}
		}
		// the application's edits
		for k := range got.DoorState {
			got.DoorState[k] = !got.DoorState[k]
		}
		delete(got.DoorState, 4)
		got.DoorState[9] = true
		for k := range got.DoorButton {
			got.DoorButton[k] = !got.DoorButton[k]
		}
		delete(got.DoorButton, uint8(1+i%4))

		// the same with a card's door map
		doors := [4]uint8{uint8(i % 2), 1, uint8(r.Pick(3)), uint8([]int{0, 1, 29, 254}[r.Pick(4)])}
		cm := okReply(gc, serial)
		rm.EncodeField(cm, *lc.Field("CardNumber"), rm.UVal(rm.U32, 8000001))
		rm.EncodeField(cm, *lc.Field("From"), rm.DateVal(2024, 1, 1))
		rm.EncodeField(cm, *lc.Field("To"), rm.DateVal(2024, 12, 31))
		for k := 0; k < 4; k++ {
			rm.EncodeField(cm, *lc.Field(fmt.Sprintf("Door%d", k+1)), rm.UVal(rm.U8, uint64(doors[k])))
		}
		d.Reset()
		d.Script = func(adapter.Invocation) ([][]byte, error) { return [][]byte{append([]byte{}, cm...)}, nil }
		card, cerr := u.GetCardByIndex(serial, 1+uint32(i%50))
		c.Res.Eval(1)
		if cerr != nil || card == nil {
			continue
		}
		for k := 0; k < 4; k++ {
			if card.Doors[uint8(k+1)] != doors[k] || len(card.Doors) != 4 {
				bad++
				c.Res.Violate("C02:GetCardByIndex:after-the-application-edited-an-earlier-result", fmt.Sprintf("GetCardByIndex: the reply carries door permissions %v, the card returned has %v - after the application had edited the door maps of cards returned earlier", doors, card.Doors), map[string]any{"reply": wk.Hex(cm)}, int64(i))
				break
			}
		}
		for k := range card.Doors {
			card.Doors[k] = 77
		}
		delete(card.Doors, 2)
	}
	c.Res.Count("results-edited-by-the-application-before-the-next-call", 1)
}
