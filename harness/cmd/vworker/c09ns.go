package main

import (
	"fmt"
	"sync"
	"time"

	"verif/harness/farm"
)

// c09Netns: deadlines and resource release against network behaviours that loopback cannot produce (netns.go):
// a host that swallows everything including TCP SYNs (connect never completes), a host for which ARP fails
// (EHOSTUNREACH after about 3 s), and real limited broadcast to the unset default 255.255.255.255:60000.
func c09Netns(c *Ctx) {
	if err := setupNetns(); err != nil {
		c.Res.Inconcl("cannot configure the network namespace: " + err.Error())
		return
	}
	c.Res.Rule = "private network segment in a fresh network namespace: TCP and UDP to a host that swallows every frame (SYN black hole), to a host for which ARP fails, real limited broadcast (unset broadcast address) with silence / prompt / late / in-time replies and a stray flood, calls queued on a fixed bind port behind a black-holed TCP connect; per call: return time within [0.93 T, T*(queue position+1)+slack], success iff an acceptable reply was measurably sent in time, library sockets (local address 10.77.0.1) zero at return, library goroutines gone within 1 s"
	clientHex := ipHex(nsClient)
	mk := func(T time.Duration) *c09Env {
		e := &c09Env{c: c, T: T, slack: 1500 * time.Millisecond, fm: farm.New(), floodS: T + 1500*time.Millisecond}
		e.fm.KeepLog = false
		e.fm.Hook = c09TimingHook(e)
		return e
	}
	T := 300 * time.Millisecond
	e := mk(T)
	defer e.fm.Close()
	opts := farm.UDPOpts{ReuseAddr: true}
	var err error
	if e.bcast, err = e.fm.AddUDPOpts("0.0.0.0", 60000, opts); err != nil {
		c.Res.Inconcl("farm: " + err.Error())
		return
	}
	if e.udp, err = e.fm.AddUDPOpts(nsCtl(0), 60000, opts); err != nil {
		c.Res.Inconcl("farm: " + err.Error())
		return
	}
	if e.tcp, err = e.fm.AddTCP(nsCtl(0), 60000); err != nil {
		c.Res.Inconcl("farm: " + err.Error())
		return
	}
	e.fm.SetScript(e.script)
	e.cfgHook = func(b behaviour, serial uint32, cfg *ClientCfg) {
		cfg.Broadcast = "" // unset: the library's default 255.255.255.255:60000
		switch b.name {
		case "tcp-blackhole":
			cfg.Devices = []DevCfg{{ID: serial, Addr: nsBlackhole + ":60000", Proto: "tcp"}}
		case "udp-blackhole":
			cfg.Devices = []DevCfg{{ID: serial, Addr: nsBlackhole + ":60000", Proto: "udp"}}
		case "tcp-no-arp":
			cfg.Devices = []DevCfg{{ID: serial, Addr: nsUnreach + ":60000", Proto: "tcp"}}
		case "udp-no-arp":
			cfg.Devices = []DevCfg{{ID: serial, Addr: nsUnreach + ":60000", Proto: "udp"}}
		}
	}
	behaviours := []behaviour{
		{"tcp-blackhole", "tcp", "error", 0.93, true}, {"udp-blackhole", "udp", "error", 0.93, true},
		// ARP takes about 3 s to fail, with T = 0.3 s the deadline usually comes first - but while the kernel still remembers an earlier
		// failure for the address a connect is refused at once ("no route to host"): an early error is legitimate here
		{"tcp-no-arp", "tcp", "error", 0, true}, {"udp-no-arp", "udp", "error", 0, true},
		{"silence", "broadcast", "error", 0.93, true}, {"prompt", "broadcast", "success", 0, false}, {"reply-0.5T", "broadcast", "success", 0, false},
		{"reply-0.7T", "broadcast", "success", 0, false}, {"reply-1.3T", "broadcast", "error", 0.93, true}, {"flood-then-valid", "broadcast", "success", 0, false},
		{"prompt", "udp", "success", 0, false}, {"prompt", "tcp", "success", 0, false}, {"reply-0.7T", "udp", "success", 0, false}, {"tcp-stall", "tcp", "error", 0.93, true},
		{"set-address", "broadcast", "success", 0, false}, {"discovery", "broadcast", "success", 0.93, true},
	}
	r := c.Rng("netns")
	var caseNo int64
	serial := uint32(0x23000000) + uint32(c.Batch)<<20
	next := func() uint32 { serial++; return serial }
	if s, _ := librarySockets(clientHex); s != 0 {
		c.Res.Inconcl("baseline not clean")
	}

	perCall := func(e *c09Env, b behaviour, bind string, fixed bool, phase string) bool {
		caseNo++
		res := e.run(b, next(), bind)
		if b.expect == "success" && res.err != "" && !res.hung {
			c.Res.Count("netns:retried-after-failure", 1)
			res = e.run(b, next(), bind)
		}
		res.fixed = fixed
		s, sd := librarySockets(clientHex)
		e.judge(res, caseNo, phase, 0)
		if res.hung {
			c.Res.Inconcl("a call hung: per-call resource accounting stops here")
			return false
		}
		if s > 0 {
			c.Res.Violate("C09:socket-leak:"+b.path+":"+b.name, fmt.Sprintf("%s over %s: %d library socket(s) still open when the call returned: %v", b.name, b.path, s, sd),
				map[string]any{"behaviour": b.name, "path": b.path, "sockets": sd, "err": res.err}, caseNo)
			settle(300*time.Millisecond, 0, 0, clientHex)
		}
		_, g, _, gd := settle(time.Second, 1<<30, 0, clientHex)
		if g > 0 {
			c.Res.Violate("C09:goroutine-leak:"+b.path+":"+b.name, fmt.Sprintf("%s over %s: %d library goroutine(s) still running 1 s after the call returned", b.name, b.path, g),
				map[string]any{"behaviour": b.name, "path": b.path, "goroutine": truncateStr(gd, 1500)}, caseNo)
		}
		c.Res.Count("per-call-resource-checks", 1)
		return true
	}

	// ---- phase 1: one call at a time
	for round := 0; round < c.N(2, 8); round++ {
		order := append([]behaviour{}, behaviours...)
		for i := len(order) - 1; i > 0; i-- {
			j := r.Pick(i + 1)
			order[i], order[j] = order[j], order[i]
		}
		for _, b := range order {
			bind, fixed := []string{nsClient + ":0", "0.0.0.0:0"}[r.Pick(2)], false
			if b.path == "broadcast" && b.expect == "success" {
				bind = nsClient + ":0"
			}
			if r.Chance(0.3) && (b.path != "tcp" || b.name == "tcp-blackhole" || b.name == "tcp-no-arp") {
				if p := freePort(nsClient); p != 0 {
					bind, fixed = fmt.Sprintf("%s:%d", nsClient, p), true
				}
			}
			if !perCall(e, b, bind, fixed, "netns-sequential") {
				return
			}
		}
	}

	// ---- phase 2: a longer timeout than ARP resolution: the TCP connect fails with EHOSTUNREACH after about 3 s, before the
	// deadline - the call must fail then or at the deadline, and release its socket either way
	{
		e2 := mk(4 * time.Second)
		e2.bcast, e2.udp, e2.tcp, e2.cfgHook = e.bcast, e.udp, e.tcp, e.cfgHook
		var wg sync.WaitGroup
		kinds := []behaviour{{"tcp-no-arp", "tcp", "error", 0, true}, {"udp-no-arp", "udp", "error", 0, true}, {"tcp-blackhole", "tcp", "error", 0.93, true}}
		results := make([]c09Result, len(kinds))
		for i, b := range kinds {
			wg.Add(1)
			go func(i int, b behaviour, s uint32) {
				defer wg.Done()
				results[i] = e2.run(b, s, nsClient+":0")
			}(i, b, next())
		}
		wg.Wait()
		for i := range results {
			caseNo++
			e2.judge(results[i], caseNo, "netns-long-timeout", 0)
		}
		s, g, sd, gd := settle(time.Second, 0, 0, clientHex)
		if s > 0 || g > 0 {
			c.Res.Violate("C09:leak:netns-long-timeout", fmt.Sprintf("after the long-timeout calls %d library sockets and %d library goroutines remain", s, g), map[string]any{"sockets": sd, "goroutine": truncateStr(gd, 1500)}, caseNo)
		}
	}

	// ---- phase 3: calls queued on one fixed bind port behind black-holed ones are served in turn
	for round := 0; round < c.N(3, 12); round++ {
		port := freePort(nsClient)
		if port == 0 {
			continue
		}
		bind := fmt.Sprintf("%s:%d", nsClient, port)
		k := 3 + r.Pick(2)
		kinds := []behaviour{}
		for i := 0; i < k-1; i++ {
			kinds = append(kinds, []behaviour{{"tcp-blackhole", "tcp", "error", 0.93, true}, {"udp-blackhole", "udp", "error", 0.93, true}, {"silence", "broadcast", "error", 0.93, true}, {"reply-0.5T", "broadcast", "success", 0, false}, {"tcp-no-arp", "tcp", "error", 0, true}}[r.Pick(5)])
		}
		kinds = append(kinds, []behaviour{{"reply-0.7T", "udp", "success", 0, false}, {"reply-0.7T", "broadcast", "success", 0, false}, {"prompt", "broadcast", "success", 0, false}}[r.Pick(3)])
		results := make([]c09Result, k)
		for attempt := 0; attempt < 2; attempt++ {
			var wg sync.WaitGroup
			for i := 0; i < k; i++ {
				wg.Add(1)
				go func(i int, s uint32) {
					defer wg.Done()
					time.Sleep(time.Duration(i) * 8 * time.Millisecond)
					results[i] = e.run(kinds[i], s, bind)
					results[i].fixed = true
				}(i, next())
			}
			wg.Wait()
			failed := false
			for i := range results {
				if kinds[i].expect == "success" && results[i].err != "" && !results[i].hung {
					failed = true
				}
			}
			if !failed {
				break
			}
			c.Res.Count("port-queue:round-repeated-after-failure", 1)
		}
		for i := range results {
			caseNo++
			pos := k - 1
			if i == 0 {
				pos = 0
			}
			e.judge(results[i], caseNo, "netns-port-queue", pos)
		}
		c.Res.Count("port-queue-rounds", 1)
	}
	s, g, sd, gd := settle(2*time.Second, 0, 0, clientHex)
	if s > 0 || g > 0 {
		c.Res.Violate("C09:leak:netns", fmt.Sprintf("at the end of the batch %d library sockets and %d library goroutines remain", s, g), map[string]any{"sockets": sd, "goroutine": truncateStr(gd, 1500)}, caseNo)
	}
}
