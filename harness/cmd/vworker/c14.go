package main

import (
	"encoding/json"
	"fmt"
	"net/netip"
	"reflect"
	"regexp"
	"runtime"
	"strings"
	"sync"
	"sync/atomic"
	"time"

	"github.com/uhppoted/uhppote-core/types"

	"verif/harness/gen"
	rm "verif/harness/refmodel"
)

func init() { registry["C14"] = c14 }

var c14DateRe = regexp.MustCompile(`"\d{4}-\d{2}-\d{2}"`)
var c14TimeRe = regexp.MustCompile(`"\d{2}:\d{2}"`)
var c14TaskRe = regexp.MustCompile(`"task":"[^"]*"`)

// c14Poison makes one value inside a JSON text invalid (an impossible date, a time beyond 24:00, an unknown task name);
// nil if the text holds nothing of the kind.
func c14Poison(r gen.R, js []byte) []byte {
	type cand struct {
		loc  []int
		with string
	}
	cands := []cand{}
	for _, l := range c14DateRe.FindAllIndex(js, -1) {
		cands = append(cands, cand{l, `"2024-13-45"`})
	}
	for _, l := range c14TimeRe.FindAllIndex(js, -1) {
		cands = append(cands, cand{l, `"25:61"`})
	}
	for _, l := range c14TaskRe.FindAllIndex(js, -1) {
		cands = append(cands, cand{l, `"task":"no such task"`})
	}
	if len(cands) == 0 {
		return nil
	}
	k := cands[r.Pick(len(cands))]
	out := append([]byte{}, js[:k.loc[0]]...)
	out = append(out, k.with...)
	return append(out, js[k.loc[1]:]...)
}

func c14(c *Ctx) {
	zone := time.Local.String()
	c.Res.Rule = "for each public value type: in-domain values are generated, JSON encoded, decoded into a fresh zero-valued variable (nil maps) and compared semantically (maps by lookup over their key domain, dates by civil fields, date-times by instant when the civil time + abbreviation is unambiguous in the zone); plain-text forms are formatted and parsed back; the reject classes listed in the property must produce an error; the process zone is that of the batch (TZ); distinct = distinct (type, JSON text) pairs and reject inputs"
	c.Res.Note("zone", zone)
	r := c.Rng("main/" + zone)
	z := newZoneOracle(time.Local)
	tzOnly := c.Mode == "tz"
	N := c.N(3000, 40000)
	if tzOnly {
		N = c.N(1200, 8000)
	}
	var caseNo int64
	// first use of every decoder by 12 goroutines at once (and again in fresh child processes): whatever a type builds on first use
	// (lookup tables, compiled patterns) is built under contention
	if c.MBatch < 2 || c.Mode == "firstuse" {
		c14FirstUse(c, zone)
	}
	if c.Mode == "firstuse" {
		return
	}
	defer c14Concurrent(c, zone)

	viol := func(key, what string, w map[string]any) {
		if w == nil {
			w = map[string]any{}
		}
		w["zone"] = zone
		c.Res.Violate(key, what+" (TZ="+zone+")", w, caseNo)
	}
	lastJSON := map[string][]byte{}
	// roundtrip marshals v, unmarshals into fresh (a pointer to a zero value), and hands both to eq.
	roundtrip := func(typ string, v any, fresh any, eq func() string) {
		caseNo++
		c.Res.Eval(1)
		var js []byte
		var err error
		func() {
			defer func() {
				if p := recover(); p != nil {
					err = fmt.Errorf("panic: %v", p)
				}
			}()
			js, err = json.Marshal(v)
		}()
		if err != nil {
			viol("C14:"+typ+":marshal", fmt.Sprintf("json.Marshal(%s %v) failed: %v", typ, v, err), nil)
			return
		}
		c.Res.DistinctKey(typ, js)
		// state left behind by an earlier, failed decode: every other case first decodes the previous value's JSON with one
		// date / time / name made invalid (into a variable of its own) - the decode that follows must not inherit anything
		if prev, ok := lastJSON[typ]; ok && caseNo%2 == 0 {
			if bad := c14Poison(r, prev); bad != nil {
				func() {
					defer func() { recover() }()
					if json.Unmarshal(bad, reflect.New(reflect.TypeOf(fresh).Elem()).Interface()) != nil {
						c.Res.Count("failed-decodes-interleaved", 1)
					}
				}()
			}
		}
		lastJSON[typ] = js
		func() {
			defer func() {
				if p := recover(); p != nil {
					err = fmt.Errorf("panic: %v", p)
				}
			}()
			err = json.Unmarshal(js, fresh)
		}()
		if err != nil {
			key := "C14:" + typ + ":unmarshal"
			if strings.Contains(err.Error(), "nil map") {
				key = "C14:nil-map:" + typ
			}
			if typ == "DateTime" {
				// zone abbreviation that is a numeric offset?
				s := string(js)
				if i := strings.LastIndexByte(s, ' '); i > 0 && (s[i+1] == '+' || s[i+1] == '-') {
					key = "C14:datetime-json-numeric-zone"
				}
			}
			viol(key, fmt.Sprintf("decoding the JSON encoding %s of a %s into a fresh variable failed: %v", js, typ, err), map[string]any{"json": string(js)})
			return
		}
		if msg := eq(); msg != "" {
			viol("C14:"+typ+":roundtrip", fmt.Sprintf("%s: JSON %s decodes to a different value: %s", typ, js, msg), map[string]any{"json": string(js)})
			return
		}
		if caseNo%4001 == 0 {
			c.Res.Sample(map[string]any{"type": typ, "json": string(js), "zone": zone})
		}
	}
	mustReject := func(typ, input string, f func() error) {
		caseNo++
		c.Res.Eval(1)
		c.Res.DistinctKey("reject", typ, input)
		var err error
		func() {
			defer func() {
				if p := recover(); p != nil {
					err = nil
					viol("C14:"+typ+":panic", fmt.Sprintf("%s parser panicked on %q: %v", typ, input, p), nil)
					err = fmt.Errorf("panicked")
				}
			}()
			err = f()
		}()
		c.Res.Count("reject-cases", 1)
		if err == nil {
			key := "C14:" + typ + ":accepts-invalid"
			if strings.HasPrefix(typ, "HHmm") && strings.HasSuffix(strings.Trim(input, `"`), ":60") {
				key = "C14:hhmm-minutes-60"
			}
			viol(key, fmt.Sprintf("%s accepts the out-of-domain text %q", typ, input), map[string]any{"input": input})
		}
	}

	dateEq := func(a, b types.Date) bool {
		if a.IsZero() || b.IsZero() {
			return a.IsZero() == b.IsZero()
		}
		y1, m1, d1 := time.Time(a).Date()
		y2, m2, d2 := time.Time(b).Date()
		return y1 == y2 && m1 == m2 && d1 == d2
	}
	mkDateV := func() types.Date {
		d := r.Date()
		return types.ToDate(d.Y, time.Month(d.Mo), d.D)
	}
	weekdaysEq := func(a, b types.Weekdays) bool {
		for d := time.Sunday; d <= time.Saturday; d++ {
			if a[d] != b[d] {
				return false
			}
		}
		return true
	}
	mkWeekdays := func() types.Weekdays {
		switch r.Pick(6) {
		case 0:
			return nil
		case 1:
			return types.Weekdays{}
		}
		w := types.Weekdays{}
		for d := time.Sunday; d <= time.Saturday; d++ {
			if r.Chance(0.7) {
				w[d] = r.Chance(0.5)
			}
		}
		return w
	}
	mkHH := func() types.HHmm { h := r.HHmm(); return types.NewHHmm(h.H, h.Mi) }
	mkSegments := func(n int) types.Segments {
		s := types.Segments{}
		for i := 1; i <= n; i++ {
			s[uint8(i)] = types.Segment{Start: mkHH(), End: mkHH()}
		}
		return s
	}
	segEq := func(a, b types.Segments) bool {
		for i := uint8(1); i <= 3; i++ {
			if !a[i].Start.Equals(b[i].Start) || !a[i].End.Equals(b[i].End) {
				return false
			}
		}
		return true
	}

	for i := 0; i < N; i++ {
		// ---- Date
		{
			v := mkDateV()
			if i%17 == 0 {
				v = types.Date{}
			}
			var out types.Date
			roundtrip("Date", v, &out, func() string {
				if !dateEq(v, out) {
					return fmt.Sprintf("%v != %v", out, v)
				}
				return ""
			})
			// text form
			if !v.IsZero() {
				c.Res.Eval(1)
				if p, err := types.ParseDate(v.String()); err != nil || !dateEq(p, v) {
					viol("C14:Date:text", fmt.Sprintf("ParseDate(%q) = %v, %v", v.String(), p, err), nil)
				}
			}
		}
		// ---- DateTime (an existing civil time of the zone, with the abbreviation in force)
		{
			t := localDateTime(r)
			if i%3 == 0 { // near a transition of the zone (both sides of overlaps)
				if len(z.periods) > 1 {
					p := z.periods[1+r.Pick(len(z.periods)-1)]
					t = time.Unix(p.start+int64(r.Pick(4*3600))-2*3600, 0).In(time.Local)
				}
			}
			if y := t.Year(); y < 1 || y > 9999 || (y == 1 && t.YearDay() == 1) {
				t = time.Unix(1700000000, 0).In(time.Local)
			}
			v := types.DateTime(t)
			if i%19 == 0 {
				v = types.DateTime{}
			}
			var out types.DateTime
			roundtrip("DateTime", v, &out, func() string {
				if v.IsZero() || out.IsZero() {
					if v.IsZero() != out.IsZero() {
						return fmt.Sprintf("zero-ness differs: %v vs %v", out, v)
					}
					return ""
				}
				a, b := time.Time(v), time.Time(out)
				if a.Format("2006-01-02 15:04:05") != b.Format("2006-01-02 15:04:05") {
					return fmt.Sprintf("civil fields differ: %v vs %v", b, a)
				}
				// instants must agree when (civil time, abbreviation) identifies exactly one instant of the zone
				abbr, _ := a.Zone()
				cu := civilUnix(a.Year(), int(a.Month()), a.Day(), a.Hour(), a.Minute(), a.Second())
				matches := 0
				for _, p := range z.around(cu-30*3600, cu+30*3600) {
					u := cu - p.off
					if u >= p.start && u < p.end {
						if n, _ := time.Unix(u, 0).In(time.Local).Zone(); n == abbr {
							matches++
						}
					}
				}
				if matches == 1 && !a.Equal(b) {
					return fmt.Sprintf("instant differs: %v vs %v", b.Format(time.RFC3339), a.Format(time.RFC3339))
				}
				if matches != 1 {
					c.Res.Count("datetime:ambiguous-civil+abbreviation(civil compare only)", 1)
				}
				return ""
			})
		}
		// ---- Card (non-zero dates), TimeProfile, Task
		{
			card := types.Card{CardNumber: r.U32(), From: mkDateV(), To: mkDateV(), PIN: types.PIN(r.PIN())}
			switch r.Pick(5) {
			case 0:
				card.Doors = nil
			case 1:
				card.Doors = map[uint8]uint8{1: r.U8()}
			default:
				card.Doors = map[uint8]uint8{1: r.U8(), 2: r.U8(), 3: r.U8(), 4: r.U8()}
			}
			var out types.Card
			roundtrip("Card", card, &out, func() string {
				if out.CardNumber != card.CardNumber || !dateEq(out.From, card.From) || !dateEq(out.To, card.To) || out.PIN != card.PIN {
					return fmt.Sprintf("%v != %v", out, card)
				}
				for d := uint8(1); d <= 4; d++ {
					if out.Doors[d] != card.Doors[d] {
						return fmt.Sprintf("door %d: %d != %d", d, out.Doors[d], card.Doors[d])
					}
				}
				return ""
			})

			prof := types.TimeProfile{ID: r.U8(), LinkedProfileID: r.U8(), From: mkDateV(), To: mkDateV(), Weekdays: mkWeekdays(), Segments: mkSegments(r.Pick(4))}
			if r.Chance(0.1) {
				prof.Segments = nil
			}
			if r.Chance(0.1) {
				prof.From, prof.To = types.Date{}, types.Date{}
			}
			var pout types.TimeProfile
			roundtrip("TimeProfile", prof, &pout, func() string {
				if pout.ID != prof.ID || pout.LinkedProfileID != prof.LinkedProfileID || !dateEq(pout.From, prof.From) || !dateEq(pout.To, prof.To) {
					return fmt.Sprintf("%v != %v", pout, prof)
				}
				if !weekdaysEq(pout.Weekdays, prof.Weekdays) {
					return fmt.Sprintf("weekdays %v != %v", pout.Weekdays, prof.Weekdays)
				}
				if !segEq(pout.Segments, prof.Segments) {
					return fmt.Sprintf("segments %v != %v", pout.Segments, prof.Segments)
				}
				return ""
			})

			task := types.Task{Task: types.TaskType(r.Pick(13)), Door: r.U8(), From: mkDateV(), To: mkDateV(), Weekdays: mkWeekdays(), Start: mkHH(), Cards: r.U8()}
			if r.Chance(0.3) {
				task.Cards = 0 // omitted from the JSON form
			}
			if r.Chance(0.3) {
				task.Door = 0
			}
			var tout types.Task
			roundtrip("Task", task, &tout, func() string {
				if tout.Task != task.Task || tout.Door != task.Door || !dateEq(tout.From, task.From) || !dateEq(tout.To, task.To) || !weekdaysEq(tout.Weekdays, task.Weekdays) || !tout.Start.Equals(task.Start) || tout.Cards != task.Cards {
					return fmt.Sprintf("%v != %v", tout, task)
				}
				return ""
			})
		}
		if tzOnly {
			continue
		}
		// ---- zone independent types
		{
			h := mkHH()
			var hout types.HHmm
			roundtrip("HHmm", h, &hout, func() string {
				if !hout.Equals(h) {
					return fmt.Sprintf("%v != %v", hout, h)
				}
				return ""
			})
			c.Res.Eval(1)
			if p, err := types.HHmmFromString(h.String()); err != nil || p == nil || !p.Equals(h) {
				viol("C14:HHmm:text", fmt.Sprintf("HHmmFromString(%q) = %v, %v", h.String(), p, err), nil)
			} else {
				// what the parser returned is the application's: it is overwritten (a form field edited in place), and the same text is
				// parsed again - it is still that time
				text := h.String()
				*p = types.NewHHmm((int(caseNo)+7)%24, (int(caseNo)*7)%60)
				if q, err := types.HHmmFromString(text); err != nil || q == nil || !q.Equals(h) {
					viol("C14:HHmm:text", fmt.Sprintf("HHmmFromString(%q) = %v, %v after the application had overwritten the value returned by an earlier HHmmFromString(%q)", text, q, err, text), nil)
				}
			}

			pin := types.PIN(r.PIN())
			var pinOut types.PIN = 12345678
			roundtrip("PIN", pin, &pinOut, func() string {
				if pinOut != pin {
					return fmt.Sprintf("%v != %v", pinOut, pin)
				}
				return ""
			})

			w := mkWeekdays()
			var wout types.Weekdays
			roundtrip("Weekdays", w, &wout, func() string {
				if !weekdaysEq(w, wout) {
					return fmt.Sprintf("%v != %v", wout, w)
				}
				return ""
			})
			segs := mkSegments(r.Pick(4))
			var sout types.Segments
			roundtrip("Segments", segs, &sout, func() string {
				if !segEq(segs, sout) {
					return fmt.Sprintf("%v != %v", sout, segs)
				}
				return ""
			})

			tt := types.TaskType(r.Pick(13))
			var ttout types.TaskType = 99
			roundtrip("TaskType", tt, &ttout, func() string {
				if tt != ttout {
					return fmt.Sprintf("%d != %d", ttout, tt)
				}
				return ""
			})
			c.Res.Eval(2)
			var tnum types.TaskType = 99
			if err := json.Unmarshal([]byte(fmt.Sprintf("%d", int(tt)+1)), &tnum); err != nil || tnum != tt {
				viol("C14:TaskType:number", fmt.Sprintf("task type number %d decodes to %d, %v (expected %d)", int(tt)+1, tnum, err, tt), nil)
			}
			var tsv types.TaskType
			if got, err := tsv.UnmarshalTSV(tt.String()); err != nil || got != tt {
				viol("C14:TaskType:text", fmt.Sprintf("task type text %q parses to %v, %v", tt.String(), got, err), nil)
			}
			if got, err := tsv.UnmarshalTSV(fmt.Sprintf("%d", int(tt)+1)); err != nil || got != tt {
				viol("C14:TaskType:text-number", fmt.Sprintf("task type number text %d parses to %v, %v", int(tt)+1, got, err), nil)
			}

			cs := types.ControlState(1 + r.Pick(3))
			var csout types.ControlState
			roundtrip("ControlState", cs, &csout, func() string {
				if cs != csout {
					return fmt.Sprintf("%d != %d", csout, cs)
				}
				return ""
			})

			ver := types.Version(r.Pick(65536))
			var vout types.Version
			roundtrip("Version", ver, &vout, func() string {
				if ver != vout {
					return fmt.Sprintf("%04x != %04x", uint16(vout), uint16(ver))
				}
				return ""
			})

			mac := make(types.MacAddress, 6)
			for k := range mac {
				mac[k] = byte(r.Pick(256))
			}
			var mout types.MacAddress
			roundtrip("MacAddress", mac, &mout, func() string {
				if string(mac) != string(mout) {
					return fmt.Sprintf("%x != %x", []byte(mout), []byte(mac))
				}
				return ""
			})

			ipv := r.IP()
			addr := netip.AddrFrom4([4]byte{ipv.B[0], ipv.B[1], ipv.B[2], ipv.B[3]})
			port := func(forbidden ...uint16) uint16 {
				for {
					p := uint16(r.Pick(65536))
					if r.Chance(0.2) {
						p = []uint16{0, 1, 59999, 60000, 60001, 65535}[r.Pick(6)]
					}
					ok := true
					for _, f := range forbidden {
						if p == f {
							ok = false
						}
					}
					if ok {
						return p
					}
				}
			}
			ba := types.BindAddrFrom(addr, port(60000))
			var baOut types.BindAddr
			roundtrip("BindAddr", ba, &baOut, func() string {
				if ba.AddrPort != baOut.AddrPort {
					return fmt.Sprintf("%v != %v", baOut, ba)
				}
				return ""
			})
			bc := types.BroadcastAddrFrom(addr, port(0))
			var bcOut types.BroadcastAddr
			roundtrip("BroadcastAddr", bc, &bcOut, func() string {
				if bc.AddrPort != bcOut.AddrPort {
					return fmt.Sprintf("%v != %v", bcOut, bc)
				}
				return ""
			})
			la := types.ListenAddrFrom(addr, port(0, 60000))
			var laOut types.ListenAddr
			roundtrip("ListenAddr", la, &laOut, func() string {
				if la.AddrPort != laOut.AddrPort {
					return fmt.Sprintf("%v != %v", laOut, la)
				}
				return ""
			})
			ca := types.ControllerAddrFrom(addr, port(0))
			var caOut types.ControllerAddr
			roundtrip("ControllerAddr", ca, &caOut, func() string {
				if ca.AddrPort != caOut.AddrPort {
					return fmt.Sprintf("%v != %v", caOut, ca)
				}
				return ""
			})

			// system time text form
			hh, mm, ss := r.Pick(24), r.Pick(60), r.Pick(60)
			txt := fmt.Sprintf("%02d:%02d:%02d", hh, mm, ss)
			c.Res.Eval(1)
			if st, err := types.TimeFromString(txt); err != nil || st == nil || st.String() != txt {
				viol("C14:SystemTime:text", fmt.Sprintf("TimeFromString(%q) = %v, %v", txt, st, err), nil)
			}
			// card format text form
			for _, f := range []types.CardFormat{types.WiegandAny, types.Wiegand26} {
				c.Res.Eval(1)
				if got, err := types.CardFormatFromString(f.String()); err != nil || got != f {
					viol("C14:CardFormat:text", fmt.Sprintf("CardFormatFromString(%q) = %v, %v", f.String(), got, err), nil)
				}
			}
		}
	}

	// ---- reject side: only the classes the property lists
	badDates := []string{"2023-02-29", "2024-02-30", "1900-02-29", "2100-02-29", "2024-04-31", "2024-06-31", "2024-09-31", "2024-11-31", "2024-13-01", "2024-00-10", "2024-01-00", "2024-01-32", "2024-12-32", "2023-02-30", "2021-02-31"}
	for y := 1; y <= 9999; y += 1 + r.Pick(40) {
		if !rm.IsLeap(y) {
			badDates = append(badDates, fmt.Sprintf("%04d-02-29", y))
		}
		badDates = append(badDates, fmt.Sprintf("%04d-%02d-31", y, []int{4, 6, 9, 11}[r.Pick(4)]), fmt.Sprintf("%04d-02-30", y))
	}
	for _, s := range badDates {
		s := s
		mustReject("Date.ParseDate", s, func() error { _, err := types.ParseDate(s); return err })
		mustReject("Date.UnmarshalJSON", s, func() error { var d types.Date; return json.Unmarshal([]byte(`"`+s+`"`), &d) })
		mustReject("Card.UnmarshalJSON(start-date)", s, func() error {
			var cd types.Card
			return json.Unmarshal([]byte(`{"card-number":1234,"start-date":"`+s+`","end-date":"2024-12-31","doors":{"1":1}}`), &cd)
		})
		mustReject("TimeProfile.UnmarshalJSON(end-date)", s, func() error {
			var p types.TimeProfile
			return json.Unmarshal([]byte(`{"id":3,"start-date":"2024-01-01","end-date":"`+s+`"}`), &p)
		})
	}
	if !tzOnly {
		badTimes := []string{"24:01", "23:60", "25:00", "24:59", "12:60", "00:60", "99:99", "30:00", "12:99", "24:60"}
		for h := 0; h <= 99; h++ {
			for _, m := range []int{60, 61, 75, 99} {
				badTimes = append(badTimes, fmt.Sprintf("%02d:%02d", h, m))
			}
			if h > 24 {
				badTimes = append(badTimes, fmt.Sprintf("%02d:%02d", h, r.Pick(60)))
			}
		}
		for m := 1; m < 60; m++ {
			badTimes = append(badTimes, fmt.Sprintf("24:%02d", m))
		}
		for _, s := range badTimes {
			s := s
			mustReject("HHmm.FromString", s, func() error { _, err := types.HHmmFromString(s); return err })
			mustReject("HHmm.UnmarshalJSON", s, func() error { var h types.HHmm; return json.Unmarshal([]byte(`"`+s+`"`), &h) })
		}
		badPins := []string{"1234567", "1000000", "0001234", "0000000", "00000007531", "9999999", "12345678", "0123456"}
		for k := 0; k < 200; k++ {
			n := 7 + r.Pick(6)
			b := make([]byte, n)
			for j := range b {
				b[j] = byte('0' + r.Pick(10))
			}
			if r.Chance(0.5) {
				for j := 0; j < n-r.Pick(6)-1 && j < n; j++ {
					b[j] = '0'
				}
			}
			badPins = append(badPins, string(b))
		}
		for _, s := range badPins {
			s := s
			mustReject("PIN.UnmarshalJSON", s, func() error { var p types.PIN; return json.Unmarshal([]byte(`"`+s+`"`), &p) })
			mustReject("Card.UnmarshalJSON(PIN)", s, func() error {
				var cd types.Card
				return json.Unmarshal([]byte(`{"card-number":1234,"start-date":"2024-01-01","end-date":"2024-12-31","doors":{"1":1},"PIN":"`+s+`"}`), &cd)
			})
		}
		for _, s := range []string{"open", "closed", "normally", "NORMALLY OPEN", "", "unknown", "0", "4", "normally  open", "controlled "} {
			s := s
			mustReject("ControlState.UnmarshalJSON", s, func() error {
				var v types.ControlState
				b, _ := json.Marshal(s)
				return json.Unmarshal(b, &v)
			})
		}
		for _, s := range []string{"0", "14", "15", "99", "255", "1000", `"fly to the moon"`, `"unlock"`, `"door"`, `""`, `"ENABLE"`, `"14"`, "1.5", "13.9", "0.5", "2.0001", "12.999", "1e0", "-1", "true", "null1"} {
			s := s
			mustReject("TaskType.UnmarshalJSON", s, func() error { var v types.TaskType; return json.Unmarshal([]byte(s), &v) })
		}
		for _, s := range []string{"0", "14", "99", "fly to the moon", "unlock", "", "-1"} {
			s := s
			mustReject("TaskType.UnmarshalTSV", s, func() error { var v types.TaskType; _, err := v.UnmarshalTSV(s); return err })
		}
		for _, s := range []string{"24:00:00", "12:60:00", "12:00:60", "25:00:00", "12:00", "noon", ""} {
			s := s
			mustReject("SystemTime.TimeFromString", s, func() error { _, err := types.TimeFromString(s); return err })
		}
		for _, s := range []string{"foo", "wiegand", "26", "", "w26", "mifare"} {
			s := s
			mustReject("CardFormat.FromString", s, func() error { _, err := types.CardFormatFromString(s); return err })
		}
		type addrCase struct {
			role string
			text string
			f    func(b []byte) error
		}
		for k := 0; k < 60; k++ {
			ipv := r.IP()
			a := fmt.Sprintf("%d.%d.%d.%d", ipv.B[0], ipv.B[1], ipv.B[2], ipv.B[3])
			for _, ac := range []addrCase{
				{"BindAddr", a + ":60000", func(b []byte) error { var v types.BindAddr; return json.Unmarshal(b, &v) }},
				{"BroadcastAddr", a + ":0", func(b []byte) error { var v types.BroadcastAddr; return json.Unmarshal(b, &v) }},
				{"ListenAddr", a + ":0", func(b []byte) error { var v types.ListenAddr; return json.Unmarshal(b, &v) }},
				{"ListenAddr", a + ":60000", func(b []byte) error { var v types.ListenAddr; return json.Unmarshal(b, &v) }},
				{"ListenAddr", a, func(b []byte) error { var v types.ListenAddr; return json.Unmarshal(b, &v) }},
				{"ControllerAddr", a + ":0", func(b []byte) error { var v types.ControllerAddr; return json.Unmarshal(b, &v) }},
			} {
				ac := ac
				b, _ := json.Marshal(ac.text)
				mustReject(ac.role+".UnmarshalJSON", ac.text, func() error { return ac.f(b) })
			}
		}
	}
	_ = gen.Locations
}

// c14Concurrent: several goroutines round-trip different values at the same time (each coming back to the same few dates,
// as a list of cards does); every result is compared with the value that goroutine encoded.
func c14Concurrent(c *Ctx, zone string) {
	G := 8
	per := c.N(800, 8000) * (1 + runtime.GOMAXPROCS(0)) / 2
	var wg sync.WaitGroup
	var nbad atomic.Int64
	dateEq := func(a, b types.Date) bool {
		if a.IsZero() || b.IsZero() {
			return a.IsZero() == b.IsZero()
		}
		y1, m1, d1 := time.Time(a).Date()
		y2, m2, d2 := time.Time(b).Date()
		return y1 == y2 && m1 == m2 && d1 == d2
	}
	for g := 0; g < G; g++ {
		wg.Add(1)
		go func(g int) {
			defer wg.Done()
			rr := gen.New(c.Seed, fmt.Sprintf("C14/concurrent/%s/%d", zone, g), c.Batch)
			mkDate := func() types.Date { d := rr.Date(); return types.ToDate(d.Y, time.Month(d.Mo), d.D) }
			from, to := mkDate(), mkDate()
			left := 0
			bad := func(typ, js, msg string) {
				nbad.Add(1)
				c.Res.Violate("C14:"+typ+":concurrent", fmt.Sprintf("%s: JSON %s decodes to a different value while %d goroutines decode concurrently: %s (TZ=%s)", typ, js, G, msg, zone), map[string]any{"json": js, "zone": zone}, -4)
			}
			for k := 0; k < per && nbad.Load() < 4; k++ {
				if left == 0 {
					from, to, left = mkDate(), mkDate(), 20+rr.Pick(300)
				}
				left--
				c.Res.Eval(1)
				switch rr.Pick(5) {
				case 0:
					js, _ := json.Marshal(from)
					var out types.Date
					if err := json.Unmarshal(js, &out); err != nil || !dateEq(out, from) {
						bad("Date", string(js), fmt.Sprintf("%v (err %v)", out, err))
					}
				case 1:
					if p, err := types.ParseDate(to.String()); err != nil || !dateEq(p, to) {
						bad("Date.text", to.String(), fmt.Sprintf("%v (err %v)", p, err))
					}
				case 2:
					card := types.Card{CardNumber: rr.U32() | 1, From: from, To: to, Doors: map[uint8]uint8{1: rr.U8(), 2: rr.U8(), 3: rr.U8(), 4: rr.U8()}, PIN: types.PIN(rr.PIN())}
					js, _ := json.Marshal(card)
					var out types.Card
					if err := json.Unmarshal(js, &out); err != nil || out.CardNumber != card.CardNumber || !dateEq(out.From, from) || !dateEq(out.To, to) || out.PIN != card.PIN || out.Doors[3] != card.Doors[3] {
						bad("Card", string(js), fmt.Sprintf("%v (err %v)", out, err))
					}
				case 3:
					h := rr.HHmm()
					task := types.Task{Task: types.TaskType(rr.Pick(13)), Door: rr.U8(), From: from, To: to, Start: types.NewHHmm(h.H, h.Mi), Cards: rr.U8()}
					js, _ := json.Marshal(task)
					var out types.Task
					if err := json.Unmarshal(js, &out); err != nil || out.Task != task.Task || out.Door != task.Door || !dateEq(out.From, from) || !dateEq(out.To, to) || !out.Start.Equals(task.Start) || out.Cards != task.Cards {
						bad("Task", string(js), fmt.Sprintf("%v (err %v)", out, err))
					}
				default:
					t := localDateTime(rr)
					if y := t.Year(); y < 2 || y > 9999 {
						continue
					}
					v := types.DateTime(t)
					js, _ := json.Marshal(v)
					var out types.DateTime
					if err := json.Unmarshal(js, &out); err != nil || time.Time(out).Format("2006-01-02 15:04:05") != t.Format("2006-01-02 15:04:05") {
						bad("DateTime", string(js), fmt.Sprintf("%v (err %v)", out, err))
					}
				}
			}
		}(g)
	}
	wg.Wait()
	c.Res.Count("concurrent-roundtrips", int64(G*per))
}

// c14FirstUse: each stage is the simultaneous first use of one type's JSON / text decoder. The value of goroutine g is encoded,
// decoded into a fresh variable and encoded again: the two encodings are the same text.
func c14FirstUse(c *Ctx, zone string) {
	const G = 12
	again := func(typ string, g int, v any, fresh any) {
		c.Res.Eval(1)
		js, err := json.Marshal(v)
		if err != nil {
			return
		}
		if err := json.Unmarshal(js, fresh); err != nil {
			c.Res.Violate("C14:first-use:"+typ, fmt.Sprintf("%s: JSON %s is rejected when %d goroutines use the decoder for the first time in the process at the same moment: %v (TZ=%s)", typ, js, G, err, zone), map[string]any{"json": string(js), "zone": zone}, -10)
			return
		}
		js2, err := json.Marshal(reflect.ValueOf(fresh).Elem().Interface())
		if err != nil || string(js2) != string(js) {
			c.Res.Violate("C14:first-use:"+typ, fmt.Sprintf("%s: JSON %s decodes to a value whose JSON is %s (err %v) when %d goroutines use the decoder for the first time in the process at the same moment (TZ=%s)", typ, js, js2, err, G, zone), map[string]any{"json": string(js), "zone": zone}, -10)
		}
	}
	day := func(g int) types.Date { return types.ToDate(2021+g, time.Month(1+g%12), 10+g) }
	firstUse(c, "C14:first-use", "a JSON / text decoder of the value types", G,
		func(g int) { again("TaskType", g, types.TaskType(g%13), new(types.TaskType)) },
		func(g int) {
			c.Res.Eval(1)
			name := types.TaskType((g + 5) % 13).String()
			var tt types.TaskType
			v, err := tt.UnmarshalTSV(name)
			got := ""
			switch x := v.(type) {
			case *types.TaskType:
				if x != nil {
					got = x.String()
				}
			case types.TaskType:
				got = x.String()
			}
			if err != nil || got != name {
				c.Res.Violate("C14:first-use:TaskType.text", fmt.Sprintf("task type %q parsed from text as %q (err %v) when %d goroutines use the parser for the first time at the same moment", name, got, err, G), map[string]any{"text": name}, -10)
			}
		},
		func(g int) {
			again("Task", g, types.Task{Task: types.TaskType((g + 3) % 13), Door: uint8(1 + g%4), From: day(g), To: day(g + 1), Weekdays: types.Weekdays{time.Monday: true, time.Weekday(g % 7): true}, Start: types.NewHHmm(g, 2*g), Cards: uint8(g)}, new(types.Task))
		},
		func(g int) {
			again("Date", g, day(g), new(types.Date))
			c.Res.Eval(1)
			if d, err := types.ParseDate(day(g).String()); err != nil || d.String() != day(g).String() {
				c.Res.Violate("C14:first-use:Date.text", fmt.Sprintf("date %v parsed from text as %v (err %v) when %d goroutines use the parser for the first time at the same moment (TZ=%s)", day(g), d, err, G, zone), map[string]any{"zone": zone}, -10)
			}
		},
		func(g int) {
			again("DateTime", g, types.DateTime(time.Date(2021, time.June, 15, 12, 30+g, g, 0, time.Local)), new(types.DateTime))
		},
		func(g int) {
			again("Card", g, types.Card{CardNumber: uint32(8000000 + g), From: day(g), To: day(g + 2), Doors: map[uint8]uint8{1: uint8(g), 2: 0, 3: 1, 4: uint8(g + 29)}, PIN: types.PIN(1000 + g)}, new(types.Card))
		},
		func(g int) {
			again("TimeProfile", g, types.TimeProfile{ID: uint8(2 + g), LinkedProfileID: uint8(3 + g), From: day(g), To: day(g + 1), Weekdays: types.Weekdays{time.Tuesday: true, time.Weekday(g % 7): true},
				Segments: types.Segments{1: {Start: types.NewHHmm(8, g), End: types.NewHHmm(9, g)}, 2: {Start: types.NewHHmm(12, g), End: types.NewHHmm(13, 2*g)}, 3: {Start: types.NewHHmm(17, 0), End: types.NewHHmm(18+g%5, 0)}}}, new(types.TimeProfile))
		},
		func(g int) {
			again("HHmm", g, types.NewHHmm(g, 59-g), new(types.HHmm))
			again("PIN", g, types.PIN(999000+g), new(types.PIN))
			again("Version", g, types.Version(0x0800+g), new(types.Version))
			again("ControlState", g, types.ControlState(1+g%3), new(types.ControlState))
			c.Res.Eval(1)
			want := fmt.Sprintf("%02d:%02d", g, 59-g)
			if h, err := types.HHmmFromString(want); err != nil || h == nil || h.String() != want {
				c.Res.Violate("C14:first-use:HHmm.text", fmt.Sprintf("time %q parsed from text as %v (err %v) when %d goroutines use the parser for the first time at the same moment", want, h, err, G), nil, -10)
			}
		},
	)
}
