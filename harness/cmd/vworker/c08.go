package main

import (
	"fmt"
	"net"
	"os"
	"sort"
	"strings"
	"sync"
	"sync/atomic"
	"time"

	"github.com/anishathalye/porcupine"
	"github.com/uhppoted/uhppote-core/types"
	"github.com/uhppoted/uhppote-core/uhppote"

	"verif/harness/adapter"
	"verif/harness/farm"
	"verif/harness/gen"
	rm "verif/harness/refmodel"
)

func init() { registry["C08"] = c08 }

// ---- echo protocol: the farm answers a function of the request; the identifiers make every call unique

type echoOp struct {
	name string
	idAt string // request field carrying the unique id ("" = the serial number is the id)
}

var echoOps = []echoOp{
	{"GetEvent", "Index"}, {"GetCardByID", "CardNumber"}, {"GetCardByIndex", "Index"}, {"GetTimeProfile", "ProfileID"},
	{"GetDoorControlState", "Door"}, {"GetStatus", ""}, {"GetCards", ""}, {"GetEventIndex", ""}, {"OpenDoor", "Door"}, {"GetListener", ""}, {"GetTime", ""},
}

// echoReply builds the reply to a request: every result field is a function of the request's serial and id.
func echoReply(req []byte) []byte {
	if len(req) != 64 {
		return nil
	}
	var op *rm.Op
	for i := range rm.Ops {
		if rm.Ops[i].Fn == req[1] && !rm.Ops[i].Discovery {
			op = &rm.Ops[i]
		}
	}
	if op == nil || op.NoReply {
		return nil
	}
	serial := uint32(req[4]) | uint32(req[5])<<8 | uint32(req[6])<<16 | uint32(req[7])<<24
	id := uint32(req[8]) | uint32(req[9])<<8 | uint32(req[10])<<16 | uint32(req[11])<<24
	vals := echoVals(op, serial, id)
	vals["SerialNumber"] = rm.Val{K: rm.Serial, U: uint64(serial)}
	return rm.Encode(op.ReplyLayout(), 0x17, vals)
}

func echoVals(op *rm.Op, serial, id uint32) rm.Vals {
	h := serial*2654435761 ^ id*40503
	v := rm.Vals{}
	switch op.Name {
	case "GetEvent":
		idx := id
		if idx == 0 {
			idx = 1
		}
		v["Index"] = rm.UVal(rm.U32, uint64(idx))
		v["Type"] = rm.UVal(rm.U8, 1)
		v["Granted"] = rm.BoolVal(h&1 == 1)
		v["Door"] = rm.UVal(rm.U8, uint64(1+h%4))
		v["Direction"] = rm.UVal(rm.U8, uint64(1+h%2))
		v["CardNumber"] = rm.UVal(rm.U32, uint64(h|1))
		v["Timestamp"] = rm.DateTimeVal(2024, 1+int(h%12), 1+int(h%28), int(h%24), int(h%60), int(h>>8%60))
		v["Reason"] = rm.UVal(rm.U8, uint64(h%50))
	case "GetCardByID":
		v["CardNumber"] = rm.UVal(rm.U32, uint64(id))
		v["From"], v["To"] = rm.DateVal(2024, 1, 1), rm.DateVal(2024, 12, 31)
		v["Door1"], v["Door2"], v["Door3"], v["Door4"] = rm.UVal(rm.U8, uint64(h%2)), rm.UVal(rm.U8, uint64(h>>1%2)), rm.UVal(rm.U8, uint64(h>>2%256)), rm.UVal(rm.U8, uint64(h>>10%256))
		v["PIN"] = rm.UVal(rm.PIN, uint64(h%1000000))
	case "GetCardByIndex":
		c := h | 1
		if c == 0xffffffff {
			c = 7
		}
		v["CardNumber"] = rm.UVal(rm.U32, uint64(c))
		v["From"], v["To"] = rm.DateVal(2023, 1+int(id%12), 1+int(id%28)), rm.DateVal(2025, 12, 31)
		v["Door1"], v["Door2"], v["Door3"], v["Door4"] = rm.UVal(rm.U8, 1), rm.UVal(rm.U8, 0), rm.UVal(rm.U8, uint64(h%256)), rm.UVal(rm.U8, 1)
		v["PIN"] = rm.UVal(rm.PIN, uint64(id%1000000))
	case "GetTimeProfile":
		p := id & 0xff
		v["ProfileID"] = rm.UVal(rm.U8, uint64(p))
		v["LinkedProfileID"] = rm.UVal(rm.U8, uint64(h%256))
		v["From"], v["To"] = rm.DateVal(2024, 1, 1), rm.DateVal(2024, 12, 31)
		for i, n := range []string{"Monday", "Tuesday", "Wednesday", "Thursday", "Friday", "Saturday", "Sunday"} {
			v[n] = rm.BoolVal(h>>uint(i)&1 == 1)
		}
		v["Segment1Start"], v["Segment1End"] = rm.HHmmVal(int(h%12), int(h%60)), rm.HHmmVal(12+int(h%12), int(h>>4%60))
		v["Segment2Start"], v["Segment2End"] = rm.HHmmVal(0, 0), rm.HHmmVal(0, 0)
		v["Segment3Start"], v["Segment3End"] = rm.HHmmVal(0, 0), rm.HHmmVal(0, 0)
	case "GetDoorControlState":
		v["Door"] = rm.UVal(rm.U8, uint64(id&0xff))
		v["ControlState"] = rm.UVal(rm.U8, uint64(1+h%3))
		v["Delay"] = rm.UVal(rm.U8, uint64(h>>3%256))
	case "GetStatus":
		v["SequenceId"] = rm.UVal(rm.U32, uint64(h))
		v["SystemError"] = rm.UVal(rm.U8, uint64(h%256))
		v["SystemDate"] = rm.Val{K: rm.SysDate, Y: 2024, Mo: 1 + int(h%12), D: 1 + int(h%28)}
		v["SystemTime"] = rm.Val{K: rm.SysTime, H: int(h % 24), Mi: int(h % 60), S: int(h >> 6 % 60)}
		v["EventIndex"] = rm.UVal(rm.U32, uint64(h>>1|1))
		v["EventType"] = rm.UVal(rm.U8, 2)
		v["CardNumber"] = rm.UVal(rm.U32, uint64(serial^0x55aa))
		v["Timestamp"] = rm.DateTimeVal(2024, 6, 15, 12, 0, int(h%60))
		v["RelayState"] = rm.UVal(rm.U8, uint64(h>>4%16))
	case "GetCards":
		v["Records"] = rm.UVal(rm.U32, uint64(h))
	case "GetEventIndex":
		v["Index"] = rm.UVal(rm.U32, uint64(h))
	case "OpenDoor":
		v["Succeeded"] = rm.BoolVal(h&1 == 1)
	case "GetListener":
		v["AddrPort"] = rm.Val{K: rm.AddrPort, B: []byte{10, byte(h), byte(h >> 8), byte(h >> 16)}, U: uint64(1 + h%65535)}
		v["Interval"] = rm.UVal(rm.U8, uint64(h>>5%256))
	case "GetTime":
		v["DateTime"] = rm.DateTimeVal(2024, 1+int(h%12), 1+int(h%28), int(h%24), int(h>>3%60), int(h>>7%60))
	}
	return v
}

// echoArgs builds the arguments carrying id.
func echoArgs(eo echoOp, id uint32) rm.Vals {
	a := rm.Vals{}
	switch eo.idAt {
	case "Index", "CardNumber":
		a[eo.idAt] = rm.UVal(rm.U32, uint64(id))
	case "ProfileID", "Door":
		a[eo.idAt] = rm.UVal(rm.U8, uint64(id&0xff))
	}
	return a
}

type c08Ctrl struct {
	serial uint32
	path   string // udp | tcp | broadcast
	ep     *farm.Endpoint
}

type c08Call struct {
	g, k      int
	op        echoOp
	ctrl      c08Ctrl
	id        uint32
	start     int64
	end       int64
	out       rm.Outcome
	panicked  bool
	fixedPort bool
}

type c08Farm struct {
	fm      *farm.Farm
	bcast   *farm.Endpoint
	udp     []*farm.Endpoint
	tcp     []*farm.Endpoint
	T       time.Duration
	delayOf func(serial, id uint32) time.Duration
	// measured: request key -> (recv time, send time)
	mu    sync.Mutex
	times map[[3]uint32][2]int64
	// plans on a fixed bind port: no replies after a discovery's deadline (whatever arrives late on a fixed port belongs to the next
	// call that holds the port - legal, and not what those plans are about)
	noStream atomic.Bool
}

func (f *c08Farm) script(ep *farm.Endpoint, src net.Addr, req []byte, seq uint64) []farm.Action {
	if len(req) != 64 {
		return nil
	}
	if req[1] == 0x94 && req[4] == 0 && req[5] == 0 && req[6] == 0 && req[7] == 0 {
		// discovery: three controllers answer, spread over the timeout
		out := []farm.Action{}
		for i := 0; i < 3; i++ {
			vals := rm.Vals{"SerialNumber": rm.Val{K: rm.Serial, U: uint64(0x0c000001 + i)}, "IpAddress": rm.IPVal(10, 0, 0, byte(1+i)), "SubnetMask": rm.IPVal(255, 255, 255, 0), "Gateway": rm.IPVal(10, 0, 0, 254),
				"MacAddress": rm.Val{K: rm.MAC, B: []byte{0, 1, 2, 3, 4, byte(i)}}, "Version": rm.UVal(rm.Version, 0x0892), "Date": rm.DateVal(2020, 1, 1+i)}
			out = append(out, farm.Action{Delay: f.T / 5, Data: rm.Encode(rm.FindOp("GetDevice").ReplyLayout(), 0x17, vals)})
		}
		if seq%2 == 1 && !f.noStream.Load() {
			// every other discovery: replies are still arriving when the collection ends - a steady stream of further controllers from
			// 30 ms before to 30 ms after the deadline
			for i := 0; i < 150; i++ {
				vals := rm.Vals{"SerialNumber": rm.Val{K: rm.Serial, U: uint64(0x0c100000 + i)}, "IpAddress": rm.IPVal(10, 0, 1, byte(1+i)), "SubnetMask": rm.IPVal(255, 255, 255, 0), "Gateway": rm.IPVal(10, 0, 0, 254),
					"MacAddress": rm.Val{K: rm.MAC, B: []byte{0, 1, 2, 3, 5, byte(i)}}, "Version": rm.UVal(rm.Version, 0x0892), "Date": rm.DateVal(2020, 2, 1+i%28)}
				delay := 400 * time.Microsecond
				if i == 0 {
					delay = f.T*2/5 - 30*time.Millisecond
				}
				out = append(out, farm.Action{Delay: delay, Data: rm.Encode(rm.FindOp("GetDevice").ReplyLayout(), 0x17, vals)})
			}
		}
		return out
	}
	reply := echoReply(req)
	if reply == nil {
		return nil
	}
	serial := uint32(req[4]) | uint32(req[5])<<8 | uint32(req[6])<<16 | uint32(req[7])<<24
	id := uint32(req[8]) | uint32(req[9])<<8 | uint32(req[10])<<16 | uint32(req[11])<<24
	if ep == f.bcast && (serial^id)%3 == 0 {
		// on a broadcast every controller on the network answers: another controller's reply arrives first
		other := append([]byte{}, reply...)
		other[5] ^= 0x5a
		return []farm.Action{{Data: other}, {Delay: f.delayOf(serial, id), Data: reply}}
	}
	return []farm.Action{{Delay: f.delayOf(serial, id), Data: reply}}
}

func c08(c *Ctx) {
	c.Res.Rule = "plans of N goroutines x K calls (mixed operations carrying unique ids, same and different controllers, UDP / TCP / broadcast paths mixed in one client, 1-3 clients, bind port 0 and fixed) run against an echoing farm whose reply delays are drawn adversarially from {0, 1ms, 0.3T, 0.7T}; GetDevices and a Listen start/stream/stop cycle run alongside; oracles: result == echo(own request) whenever the farm measurably answered within 0.85T of receiving the request; served-in-turn scenario on a fixed port; linearizability (porcupine) of PutCard/GetCardByID/DeleteCard histories against a stateful simulated controller, per (controller, card); in -race batches the Go race detector watches the whole run; distinct = distinct interleaving signatures (order of call-start / farm-recv / farm-send / call-end events per plan) + distinct (op, path, port mode) keys"
	T := 300 * time.Millisecond
	if c.Mode == "hammer" {
		c08Hammer(c, T)
		return
	}
	plans := c.N(8, 30)
	if c.Mode == "race" {
		plans = c.N(6, 20)
	}
	c08DiscoveryAtDeadline(c)
	c08SharedArguments(c)
	// the listener of an application whose event handler is slow to come back, shut down while another event is waiting: runs in the
	// background for the whole batch (one batch only: it takes as long as the handler does)
	var slow sync.WaitGroup
	if c.Mode == "plain" && c.MBatch == 0 {
		slow.Add(1)
		go func() { defer slow.Done(); c08SlowHandlerShutdown(c) }()
	}
	defer slow.Wait()
	for p := 0; p < plans && !c08Hung.Load(); p++ {
		c08Plan(c, p, T)
	}
	if c08Hung.Load() {
		return // calls that never return hold whatever they hold: nothing after this can be judged
	}
	c08ServedInTurn(c, T)
	c08TCPInTurn(c, T)
	c08Linearizable(c, T)
	c08Hammer(c, T)
}

var c08Hung atomic.Bool

func c08BuildFarm(c *Ctx, T time.Duration) *c08Farm {
	f := &c08Farm{fm: farm.New(), T: T, times: map[[3]uint32][2]int64{}}
	var err error
	if f.bcast, err = f.fm.AddUDP("127.0.0.1", 0); err != nil {
		return nil
	}
	for i := 0; i < 3; i++ {
		ep, err := f.fm.AddUDP("127.0.0.1", 0)
		if err != nil {
			return nil
		}
		f.udp = append(f.udp, ep)
	}
	for i := 0; i < 2; i++ {
		ep, err := f.fm.AddTCP("127.0.0.1", 0)
		if err != nil {
			return nil
		}
		f.tcp = append(f.tcp, ep)
	}
	return f
}

func c08Plan(c *Ctx, planNo int, T time.Duration) {
	r := c.Rng(fmt.Sprintf("plan%d", planNo))
	f := c08BuildFarm(c, T)
	if f == nil {
		c.Res.Inconcl("cannot build farm")
		return
	}
	defer f.fm.Close()
	delays := []time.Duration{0, time.Millisecond, T * 3 / 10, T * 7 / 10}
	seedMix := uint32(r.Uint32())
	f.delayOf = func(serial, id uint32) time.Duration {
		h := (serial ^ id*2246822519 ^ seedMix) * 3266489917
		switch h >> 28 {
		case 0, 1, 2, 3, 4, 5:
			return delays[0]
		case 6, 7, 8, 9:
			return delays[1]
		case 10, 11, 12:
			return delays[2]
		}
		return delays[3]
	}
	f.fm.SetScript(f.script)

	fixed := planNo%2 == 1
	f.noStream.Store(fixed)
	nClients := 1 + r.Pick(3)
	serialBase := uint32(0x50000000) + uint32(c.Batch)<<22 + uint32(planNo)<<14
	ctrls := []c08Ctrl{
		{serialBase + 1, "udp", f.udp[0]}, {serialBase + 2, "udp", f.udp[1]}, {serialBase + 3, "tcp", f.tcp[0]},
		{serialBase + 4, "broadcast", f.bcast}, {serialBase + 5, "broadcast", f.bcast}, {serialBase + 6, "udp", f.udp[2]},
	}
	if !fixed { // TCP from a fixed bind port cannot reuse its 4-tuple within TIME_WAIT (kernel): keep TCP to the port-0 plans
		ctrls = append(ctrls, c08Ctrl{serialBase + 7, "tcp", f.tcp[1]})
	} else {
		ctrls[2] = c08Ctrl{serialBase + 3, "udp", f.udp[0]}
		// a TCP controller that refuses the connection (nothing is ever connected, so TIME_WAIT does not come into it): its
		// calls fail, and must leave the shared port usable for the calls queued behind them
		ctrls = append(ctrls, c08Ctrl{serialBase + 8, "tcp-refused", nil})
	}
	cfg := ClientCfg{Broadcast: f.bcast.Addr, Timeout: T, Listen: ""}
	cfg.Bind = "127.0.0.1:0"
	if fixed {
		port := freePort("127.0.0.1")
		if port == 0 {
			c.Res.Inconcl("no free port")
			return
		}
		cfg.Bind = fmt.Sprintf("127.0.0.1:%d", port)
	}
	for _, ct := range ctrls {
		if ct.path == "tcp-refused" {
			// (never the bind port itself: a TCP connect from 127.0.0.1:P to 127.0.0.1:P connects to itself and reads its own request back)
			refused := unlistenedPort("127.0.0.1")
			for try := 0; try < 20 && strings.HasSuffix(cfg.Bind, fmt.Sprintf(":%d", refused)); try++ {
				refused = unlistenedPort("127.0.0.1")
			}
			cfg.Devices = append(cfg.Devices, DevCfg{ID: ct.serial, Addr: fmt.Sprintf("127.0.0.1:%d", refused), Proto: "tcp", NewDevice: true})
		} else if ct.path != "broadcast" {
			cfg.Devices = append(cfg.Devices, DevCfg{ID: ct.serial, Addr: ct.ep.Addr, Proto: ct.path, NewDevice: true})
		}
	}
	clients := []uhppote.IUHPPOTE{}
	if fixed && nClients == 1 && planNo%4 == 1 {
		nClients = 2
	}
	for i := 0; i < nClients; i++ {
		ccfg := cfg
		if fixed && i%2 == 1 {
			// the same fixed port through a textually different, overlapping bind address: still one port to share
			ccfg.Bind = "0.0.0.0" + cfg.Bind[len("127.0.0.1"):]
		}
		clients = append(clients, mkClient(ccfg))
	}

	N := []int{2, 4, 8, 16, 32}[r.Pick(5)]
	K := 6
	if fixed {
		N = []int{2, 3, 4, 6}[r.Pick(4)]
		K = 3
	}
	calls := make([][]*c08Call, N)
	var idCounter atomic.Uint32
	idCounter.Store(uint32(planNo) << 16)
	var wg sync.WaitGroup
	startGate := make(chan struct{})
	var inflight, maxInflight, setAddressCalls atomic.Int64
	for g := 0; g < N; g++ {
		wg.Add(1)
		go func(g int) {
			defer wg.Done()
			rr := gen.New(c.Seed, fmt.Sprintf("C08/plan%d/g%d", planNo, g), c.Batch)
			<-startGate
			for k := 0; k < K; k++ {
				eo := echoOps[rr.Pick(len(echoOps))]
				ct := ctrls[rr.Pick(len(ctrls))]
				if rr.Pick(10) == 0 && ct.path != "tcp-refused" {
					// the one request without a reply, in between (it changes nothing in the client: the others go on as before)
					clients[rr.Pick(len(clients))].SetAddress(ct.serial, net.IPv4(10, 0, 0, byte(1+g)), net.IPv4(255, 255, 255, 0), net.IPv4(10, 0, 0, 254))
					setAddressCalls.Add(1)
				}
				id := idCounter.Add(1)
				if eo.idAt == "ProfileID" || eo.idAt == "Door" {
					id = id&0xffffff00 | (1 + id%250)
				}
				call := &c08Call{g: g, k: k, op: eo, ctrl: ct, id: id, fixedPort: fixed}
				u := clients[rr.Pick(len(clients))]
				a := echoArgs(eo, id)
				n := inflight.Add(1)
				for {
					m := maxInflight.Load()
					if n <= m || maxInflight.CompareAndSwap(m, n) {
						break
					}
				}
				call.start = farm.Mono()
				call.out, call.panicked = adapter.SafeCall(u, eo.name, ct.serial, a, adapter.Aux{})
				call.end = farm.Mono()
				inflight.Add(-1)
				calls[g] = append(calls[g], call)
			}
		}(g)
	}
	// discovery and a listener cycle alongside
	var side sync.WaitGroup
	side.Add(1)
	go func() {
		defer side.Done()
		<-startGate
		devs, err := clients[0].GetDevices()
		c.Res.Eval(1)
		c.Res.Count("alongside:discovery-calls", 1)
		if err != nil {
			c.Res.Violate("C08:discovery-failed", "GetDevices running alongside concurrent calls failed: "+err.Error(), nil, int64(planNo))
		} else if len(devs) != 3 {
			c.Res.Count("alongside:discovery-replies-not-3(grey zone near the deadline)", 1)
			c.Res.Max("alongside:max-discovery-replies", int64(len(devs)))
		}
		// whatever was collected is intact: every entry is one of the farm's controllers
		for _, dv := range devs {
			if s := uint32(dv.SerialNumber); !(s >= 0x0c000001 && s <= 0x0c000003) && !(s >= 0x0c100000 && s < 0x0c100000+150) {
				c.Res.Violate("C08:discovery-garbled", fmt.Sprintf("GetDevices running alongside concurrent calls returned an entry nobody sent: serial %d", s), nil, int64(planNo))
				break
			}
		}
	}()
	side.Add(1)
	go func() {
		defer side.Done()
		<-startGate
		c08ListenCycle(c, planNo)
	}()
	// ... and the application's housekeeping goroutine works on the controller lists it asks the clients for (its own copies): drops
	// the entries it has dealt with, adds notes of its own - while the calls are running
	sideStop := make(chan struct{})
	var housekeeping sync.WaitGroup
	housekeeping.Add(1)
	go func() {
		defer housekeeping.Done()
		<-startGate
		for n := 0; ; n++ {
			select {
			case <-sideStop:
				return
			default:
			}
			for _, cl := range clients {
				list := cl.DeviceList()
				for id, dev := range list {
					if n%2 == 0 {
						delete(list, id)
					} else {
						dev.Name = "seen"
						dev.Protocol = "tcp"
						list[id] = dev
					}
				}
				list[0x0badf00d] = uhppote.Device{Name: "note", DeviceID: 0x0badf00d}
			}
			time.Sleep(200 * time.Microsecond)
		}
	}()
	defer func() { close(sideStop); housekeeping.Wait() }()
	close(startGate)
	finished := make(chan struct{})
	go func() { wg.Wait(); side.Wait(); close(finished) }()
	// every call is bounded by T once it holds the port: N*K calls in a row on one port is the worst case
	limit := T*time.Duration(N*K+4) + 20*time.Second
	select {
	case <-finished:
	case <-liveAfter(limit):
		c.Res.Eval(1)
		c.Res.Violate("C08:hang", fmt.Sprintf("plan %d (%d goroutines x %d calls, fixed bind port=%v): calls had not returned %v after the start (every call is bounded by T=%v once it has the port; %d calls in flight)", planNo, N, K, fixed, limit, T, inflight.Load()),
			map[string]any{"plan": planNo, "fixed_port": fixed, "goroutines": N, "in_flight": inflight.Load(), "library_goroutine": truncateStr(func() string { _, g := libraryGoroutines(); return g }(), 2500)}, int64(planNo))
		c08Hung.Store(true)
		return
	}
	c.Res.Max("max:in-flight-calls", maxInflight.Load())
	c.Res.Count("calls:set-address-in-between", setAddressCalls.Load())

	// ---- judge
	events := f.fm.Events()
	type rs struct{ recv, send int64 }
	bySeq := map[uint64]*rs{}
	keyOf := map[uint64][3]uint32{}
	for _, e := range events {
		if len(e.Data) == 64 && e.Kind == "recv" {
			serial := uint32(e.Data[4]) | uint32(e.Data[5])<<8 | uint32(e.Data[6])<<16 | uint32(e.Data[7])<<24
			id := uint32(e.Data[8]) | uint32(e.Data[9])<<8 | uint32(e.Data[10])<<16 | uint32(e.Data[11])<<24
			bySeq[e.Seq] = &rs{recv: e.T}
			keyOf[e.Seq] = [3]uint32{serial, uint32(e.Data[1]), id}
		}
	}
	for _, e := range events {
		if e.Kind == "send" {
			if x := bySeq[e.Seq]; x != nil {
				x.send = e.T
			}
		}
	}
	// identical requests (operations without a unique id, 8 bit ids) share a key: a call is judged on the
	// worst of the entries that could be its own
	multi := map[[3]uint32][]*rs{}
	for seq, x := range bySeq {
		multi[keyOf[seq]] = append(multi[keyOf[seq]], x)
	}
	measured := map[[3]uint32]*rs{}
	for k, list := range multi {
		worst := &rs{recv: list[0].recv, send: list[0].send}
		for _, x := range list {
			if x.send == 0 {
				worst.send = 0
				break
			}
			if x.send-x.recv > worst.send-worst.recv {
				worst.recv, worst.send = x.recv, x.send
			}
		}
		measured[k] = worst
	}
	// interleaving signature
	type ev struct {
		t    int64
		what string
	}
	sig := []ev{}
	lateReply := false
	all := []*c08Call{}
	for g := range calls {
		for _, cl := range calls[g] {
			all = append(all, cl)
			sig = append(sig, ev{cl.start, fmt.Sprintf("s%d.%d", cl.g, cl.k)}, ev{cl.end, fmt.Sprintf("e%d.%d", cl.g, cl.k)})
			fn := rm.FindOp(cl.op.name).Fn
			idw := cl.id
			if cl.op.idAt == "" {
				idw = 0
			} else if cl.op.idAt == "ProfileID" || cl.op.idAt == "Door" {
				idw = cl.id & 0xff
			}
			if m := measured[[3]uint32{cl.ctrl.serial, uint32(fn), idw}]; m != nil {
				sig = append(sig, ev{m.recv, fmt.Sprintf("r%d.%d", cl.g, cl.k)})
				if m.send != 0 {
					sig = append(sig, ev{m.send, fmt.Sprintf("a%d.%d", cl.g, cl.k)})
					if time.Duration(m.send-m.recv) > T*85/100 {
						lateReply = true
					}
				}
			}
		}
	}
	sort.Slice(sig, func(i, j int) bool { return sig[i].t < sig[j].t })
	s := ""
	for _, e := range sig {
		s += e.what + " "
	}
	c.Res.DistinctKey("interleaving", s)
	c.Res.Count("plans", 1)
	if fixed {
		c.Res.Count("plans:fixed-bind-port", 1)
	}
	if lateReply && fixed {
		c.Res.Inconcl("a reply left the farm later than 0.85T on a fixed bind port: the plan's echo verdicts are not judged (host overloaded?)")
		return
	}
	queued := 0
	for _, cl := range all {
		c.Res.Eval(1)
		c.Res.DistinctKey(cl.op.name, cl.ctrl.path, fixed)
		c.Res.Count("calls:"+cl.ctrl.path, 1)
		op := rm.FindOp(cl.op.name)
		fn := op.Fn
		idw := cl.id
		if cl.op.idAt == "" {
			idw = 0
		} else if cl.op.idAt == "ProfileID" || cl.op.idAt == "Door" {
			idw = cl.id & 0xff
		}
		m := measured[[3]uint32{cl.ctrl.serial, uint32(fn), idw}]
		w := map[string]any{"plan": planNo, "goroutine": cl.g, "call": cl.k, "op": cl.op.name, "controller": cl.ctrl.serial, "path": cl.ctrl.path, "id": cl.id, "fixed_port": fixed,
			"err": cl.out.Err, "result": cl.out.Fields.String(), "call_ms": float64(cl.end-cl.start) / 1e6, "goroutines": N, "clients": nClients}
		if cl.panicked {
			c.Res.Violate("C08:panic:"+cl.op.name, "panic under concurrent use: "+cl.out.Err, w, int64(planNo))
			continue
		}
		if m == nil || m.send == 0 {
			if cl.out.Err == "" {
				c.Res.Violate("C08:result-without-reply:"+cl.ctrl.path, fmt.Sprintf("%s returned a value although the farm never answered this request", cl.op.name), w, int64(planNo))
			} else {
				c.Res.Count("not-asked-or-not-answered(not judged)", 1)
			}
			continue
		}
		w["asked_after_ms"] = float64(m.recv-cl.start) / 1e6
		w["answered_after_ms"] = float64(m.send-m.recv) / 1e6
		if time.Duration(m.recv-cl.start) > 20*time.Millisecond {
			queued++
		}
		if time.Duration(m.send-m.recv) > T*85/100 {
			c.Res.Inconcl("reply later than 0.85T: not judged")
			continue
		}
		// the controller answered in time: the call must return the echo of its own request
		exp := rm.CallExp{AcceptValue: true, Fields: map[string]rm.Exp{}}
		want := echoVals(op, cl.ctrl.serial, idw)
		for name, v := range want {
			for _, slot := range op.Result {
				if slot == name {
					exp.Fields[name] = rm.Exp{Mode: rm.Must, V: v}
				}
			}
		}
		if op.Name == "GetStatus" {
			exp.Fields["SystemDateTime"] = rm.Exp{Mode: rm.Must, V: rm.DateTimeVal(want["SystemDate"].Y, want["SystemDate"].Mo, want["SystemDate"].D, want["SystemTime"].H, want["SystemTime"].Mi, want["SystemTime"].S)}
		}
		if cl.out.Err != "" {
			// the obligation needs the request to have been noticed promptly: the library's clock starts when the call
			// gets its turn (call start, or the moment the previous holder of a fixed port returned), the farm's when
			// its goroutine reads the request; on an overloaded host the two drift apart
			turn := cl.start
			if fixed {
				for _, o := range all {
					if o != cl && o.end <= m.recv && o.end > turn {
						turn = o.end
					}
				}
			}
			if time.Duration(m.recv-turn) > T/10 {
				c.Res.Inconcl(fmt.Sprintf("the farm noticed a request %.0f ms after the call got its turn (host overloaded): a failed call is not judged", float64(m.recv-turn)/1e6))
				continue
			}
			if !fixed && time.Duration(cl.end-cl.start) > T+T/3 {
				c.Res.Inconcl(fmt.Sprintf("a call from bind port 0 failed after %.0f ms (T=%v): its goroutine was kept from running when its deadline passed (host overloaded): not judged", float64(cl.end-cl.start)/1e6, T))
				continue
			}
			if strings.Contains(cl.out.Err, "failed to write") && strings.Contains(cl.out.Err, "i/o timeout") {
				c.Res.Inconcl("a call's deadline had passed before its request was written (its goroutine was kept from running): not judged: " + cl.out.Err)
				continue
			}
			if !fixed && noEphemeralPort(cl.out.Err) {
				c.Res.Inconcl("the kernel had no free ephemeral port for a call from bind port 0 (sockets in TIME_WAIT): " + cl.out.Err)
				continue
			}
			if m.recv < cl.start {
				c.Res.Inconcl("the arrival recorded for a failed call predates the call (another call's request): not judged")
				continue
			}
			key := "C08:lost-reply:" + cl.ctrl.path
			if fixed && time.Duration(m.recv-cl.start) > 20*time.Millisecond {
				key = "C08:early-timeout-after-queueing"
			}
			c.Res.Violate(key, fmt.Sprintf("%s (%s path, fixed port=%v) failed with %q although its controller was asked %.0f ms after the call started and answered %.0f ms later (T=%v)", cl.op.name, cl.ctrl.path, fixed, cl.out.Err, w["asked_after_ms"], w["answered_after_ms"], T), w, int64(planNo))
			continue
		}
		if msg := exp.Judge(cl.out); msg != "" {
			c.Res.Violate("C08:crossed-reply:"+cl.ctrl.path, fmt.Sprintf("%s (%s path, fixed port=%v) did not return the reply to its own request: %s", cl.op.name, cl.ctrl.path, fixed, msg), w, int64(planNo))
		}
	}
	// every call that returned a value sent a request of its own: for identical requests (operations without a unique id) the farm
	// must have seen at least as many arrivals as there were successful calls
	{
		succ := map[[3]uint32]int{}
		for _, cl := range all {
			if cl.out.Err == "" && !cl.panicked {
				fn := rm.FindOp(cl.op.name).Fn
				idw := cl.id
				if cl.op.idAt == "" {
					idw = 0
				} else if cl.op.idAt == "ProfileID" || cl.op.idAt == "Door" {
					idw = cl.id & 0xff
				}
				succ[[3]uint32{cl.ctrl.serial, uint32(fn), idw}]++
			}
		}
		for k, n := range succ {
			c.Res.Eval(1)
			if got := len(multi[k]); got < n {
				c.Res.Violate("C08:request-not-sent", fmt.Sprintf("%d concurrent calls with the identical request (controller %d, function 0x%02x) returned a value but only %d request(s) reached the controller: a call was answered from another call's exchange", n, k[0], k[1], got),
					map[string]any{"plan": planNo, "controller": k[0], "function": k[1], "successful_calls": n, "requests_seen": got, "fixed_port": fixed}, int64(planNo))
			}
		}
	}
	c.Res.Count("calls-that-queued-for-the-port", int64(queued))
	if planNo == 0 {
		c.Res.Sample(map[string]any{"plan": planNo, "goroutines": N, "calls_each": K, "clients": nClients, "fixed_port": fixed, "interleaving": truncateStr(s, 400)})
	}
}

func truncateStr(s string, n int) string {
	if len(s) > n {
		return s[:n] + "..."
	}
	return s
}

type c08Listener struct {
	connected atomic.Int64
	events    atomic.Int64
	errors    atomic.Int64
}

func (l *c08Listener) OnConnected()          { l.connected.Add(1) }
func (l *c08Listener) OnEvent(*types.Status) { l.events.Add(1) }
func (l *c08Listener) OnError(error) bool    { l.errors.Add(1); return true }

// c08ListenCycle: start the real listener, stream events at it, stop it while events are still arriving.
func c08ListenCycle(c *Ctx, planNo int) {
	port := freePort("127.0.0.3")
	if port == 0 {
		return
	}
	addr := fmt.Sprintf("127.0.0.3:%d", port)
	u := mkClient(ClientCfg{Bind: "127.0.0.1:0", Listen: addr, Timeout: time.Second})
	l := &c08Listener{}
	q := make(chan os.Signal, 1)
	done := make(chan error, 1)
	go func() { done <- u.Listen(l, q) }()
	for i := 0; i < 400 && l.connected.Load() == 0; i++ {
		time.Sleep(time.Millisecond)
	}
	conn, err := net.Dial("udp4", addr)
	if err != nil {
		q <- os.Interrupt
		<-done
		return
	}
	defer conn.Close()
	stop := make(chan struct{})
	var sent atomic.Int64
	go func() {
		ev := echoReply(append([]byte{0x17, 0x20, 0, 0, 1, 2, 3, 4}, make([]byte, 56)...))
		for {
			select {
			case <-stop:
				return
			default:
			}
			if sent.Load()-l.events.Load() < 16 {
				conn.Write(ev)
				sent.Add(1)
			} else {
				time.Sleep(50 * time.Microsecond)
			}
		}
	}()
	time.Sleep(20 * time.Millisecond)
	q <- os.Interrupt // stop while the stream is still running
	select {
	case err := <-done:
		if err != nil {
			c.Res.Violate("C08:listen-stop", "Listen returned an error when stopped under traffic: "+err.Error(), nil, int64(planNo))
		}
	case <-liveAfter(5 * time.Second):
		c.Res.Violate("C08:listen-stop", "Listen did not return within 5 s of the stop signal under traffic", nil, int64(planNo))
	}
	close(stop)
	c.Res.Count("alongside:listen-cycles", 1)
	c.Res.Count("alongside:listen-events-delivered", l.events.Load())
	c.Res.Eval(1)
}

// c08ServedInTurn: k calls share a fixed bind port; the first k-1 talk to silent controllers, the last to a prompt one.
func c08ServedInTurn(c *Ctx, T time.Duration) {
	rounds := c.N(2, 8)
	for round := 0; round < rounds; round++ {
		f := c08BuildFarm(c, T)
		if f == nil {
			c.Res.Inconcl("cannot build farm")
			return
		}
		silent := uint32(0x60000000) + uint32(c.Batch)<<16 + uint32(round)<<8
		f.delayOf = func(serial, id uint32) time.Duration { return 0 }
		f.fm.SetScript(func(ep *farm.Endpoint, src net.Addr, req []byte, seq uint64) []farm.Action {
			if len(req) == 64 {
				serial := uint32(req[4]) | uint32(req[5])<<8 | uint32(req[6])<<16 | uint32(req[7])<<24
				if serial&0xff < 0x80 {
					return nil // silent controllers
				}
			}
			return f.script(ep, src, req, seq)
		})
		port := freePort("127.0.0.1")
		k := 3 + round%2
		cfg := ClientCfg{Bind: fmt.Sprintf("127.0.0.1:%d", port), Broadcast: f.bcast.Addr, Timeout: T}
		paths := []string{"udp", "broadcast", "udp"}
		for i := 0; i < k; i++ {
			if paths[i%3] == "udp" {
				cfg.Devices = append(cfg.Devices, DevCfg{ID: silent + uint32(i) + 1, Addr: f.udp[i%3].Addr, Proto: "udp"})
			}
		}
		prompt := silent + 0x81
		if round%2 == 0 {
			cfg.Devices = append(cfg.Devices, DevCfg{ID: prompt, Addr: f.udp[1].Addr, Proto: "udp"})
		}
		u := mkClient(cfg)
		var wg sync.WaitGroup
		results := make([]rm.Outcome, k)
		ends := make([]int64, k)
		start := farm.Mono()
		for i := 0; i < k; i++ {
			wg.Add(1)
			go func(i int) {
				defer wg.Done()
				time.Sleep(time.Duration(i) * 10 * time.Millisecond) // start in order, all within the first holder's timeout
				serial := silent + uint32(i) + 1
				if i == k-1 {
					serial = prompt
				}
				results[i], _ = adapter.SafeCall(u, "GetEvent", serial, echoArgs(echoOps[0], 4242+uint32(i)), adapter.Aux{})
				ends[i] = farm.Mono()
			}(i)
		}
		wg.Wait()
		c.Res.Eval(int64(k))
		c.Res.Count("served-in-turn:rounds", 1)
		c.Res.DistinctKey("served-in-turn", k, round%2)
		// did the farm answer the prompt request in time?
		var recvT, sendT int64
		for _, e := range f.fm.Events() {
			if len(e.Data) == 64 && e.Data[4] == byte(prompt) && e.Data[5] == byte(prompt>>8) && e.Data[6] == byte(prompt>>16) && e.Data[7] == byte(prompt>>24) {
				if e.Kind == "recv" {
					recvT = e.T
				} else if e.Kind == "send" {
					sendT = e.T
				}
			}
		}
		f.fm.Close()
		w := map[string]any{"calls": k, "T_ms": T.Milliseconds(), "prompt_err": results[k-1].Err, "prompt_result": results[k-1].Fields.String(),
			"prompt_asked_after_ms": float64(recvT-start) / 1e6, "prompt_returned_after_ms": float64(ends[k-1]-start) / 1e6}
		for i := 0; i < k-1; i++ {
			if results[i].Err == "" {
				c.Res.Violate("C08:result-without-reply:served-in-turn", fmt.Sprintf("call %d to a silent controller returned a value: %v", i, results[i].Fields), w, int64(round))
			}
		}
		if recvT == 0 {
			c.Res.Violate("C08:early-timeout-after-queueing", fmt.Sprintf("served in turn: the last of %d calls sharing a fixed bind port failed with %q without its controller ever being asked", k, results[k-1].Err), w, int64(round))
			continue
		}
		if sendT == 0 || time.Duration(sendT-recvT) > T*85/100 {
			c.Res.Inconcl("served-in-turn: farm answered late")
			continue
		}
		prevEnd := start
		for i := 0; i < k-1; i++ {
			if ends[i] <= recvT && ends[i] > prevEnd {
				prevEnd = ends[i]
			}
		}
		if results[k-1].Err != "" && time.Duration(recvT-prevEnd) > T/10 {
			c.Res.Inconcl("served-in-turn: the farm noticed the request late (host overloaded)")
			continue
		}
		if results[k-1].Err != "" {
			c.Res.Violate("C08:early-timeout-after-queueing", fmt.Sprintf("served in turn: the last of %d calls sharing a fixed bind port waited %.0f ms for the port, its controller answered at once, yet the call failed: %s", k, float64(recvT-start)/1e6, results[k-1].Err), w, int64(round))
			continue
		}
		want := echoVals(rm.FindOp("GetEvent"), prompt, 4242+uint32(k-1))
		if got := results[k-1].Fields["Index"]; got.U != want["Index"].U {
			c.Res.Violate("C08:crossed-reply:served-in-turn", fmt.Sprintf("served in turn: the prompt call returned event %d, asked for %d", got.U, want["Index"].U), w, int64(round))
		}
		if round == 0 {
			c.Res.Sample(w)
		}
	}
}

// ---- linearizability of card operations against a stateful simulated controller

type cardIn struct {
	Ctrl uint32
	Card uint32
	Op   string // put | get | delete
	PIN  uint32
}
type cardOut struct {
	Found bool
	PIN   uint32
	OK    bool
}

var cardModel = porcupine.Model{
	Partition: func(history []porcupine.Operation) [][]porcupine.Operation {
		m := map[[2]uint32][]porcupine.Operation{}
		for _, o := range history {
			in := o.Input.(cardIn)
			k := [2]uint32{in.Ctrl, in.Card}
			m[k] = append(m[k], o)
		}
		out := [][]porcupine.Operation{}
		for _, v := range m {
			out = append(out, v)
		}
		return out
	},
	Init: func() any { return int64(-1) }, // -1: no such card; otherwise the PIN
	Step: func(state, input, output any) (bool, any) {
		st := state.(int64)
		in := input.(cardIn)
		out := output.(cardOut)
		switch in.Op {
		case "put":
			return out.OK, int64(in.PIN)
		case "get":
			if st < 0 {
				return !out.Found, st
			}
			return out.Found && int64(out.PIN) == st, st
		case "delete":
			return out.OK == (st >= 0), int64(-1)
		}
		return false, st
	},
	DescribeOperation: func(input, output any) string {
		return fmt.Sprintf("%+v -> %+v", input, output)
	},
}

func c08Linearizable(c *Ctx, T time.Duration) {
	rounds := c.N(2, 10)
	for round := 0; round < rounds; round++ {
		r := c.Rng(fmt.Sprintf("lin%d", round))
		f := c08BuildFarm(c, T)
		if f == nil {
			return
		}
		var mu sync.Mutex
		store := map[[2]uint32]uint32{} // (controller, card) -> PIN
		seedMix := r.Uint32()
		f.fm.SetScript(func(ep *farm.Endpoint, src net.Addr, req []byte, seq uint64) []farm.Action {
			if len(req) != 64 {
				return nil
			}
			serial := uint32(req[4]) | uint32(req[5])<<8 | uint32(req[6])<<16 | uint32(req[7])<<24
			card := uint32(req[8]) | uint32(req[9])<<8 | uint32(req[10])<<16 | uint32(req[11])<<24
			k := [2]uint32{serial, card}
			var reply []byte
			mu.Lock()
			switch req[1] {
			case 0x50: // put card
				pin := uint32(req[24]) | uint32(req[25])<<8 | uint32(req[26])<<16
				store[k] = pin
				reply = rm.Encode(rm.FindOp("PutCard").ReplyLayout(), 0x17, rm.Vals{"SerialNumber": rm.Val{K: rm.Serial, U: uint64(serial)}, "Succeeded": rm.BoolVal(true)})
			case 0x5a: // get card by id
				vals := rm.Vals{"SerialNumber": rm.Val{K: rm.Serial, U: uint64(serial)}}
				if pin, ok := store[k]; ok {
					vals["CardNumber"], vals["PIN"] = rm.UVal(rm.U32, uint64(card)), rm.UVal(rm.PIN, uint64(pin))
					vals["From"], vals["To"] = rm.DateVal(2024, 1, 1), rm.DateVal(2024, 12, 31)
					vals["Door1"] = rm.UVal(rm.U8, 1)
				}
				reply = rm.Encode(rm.FindOp("GetCardByID").ReplyLayout(), 0x17, vals)
			case 0x52: // delete card
				_, ok := store[k]
				delete(store, k)
				reply = rm.Encode(rm.FindOp("DeleteCard").ReplyLayout(), 0x17, rm.Vals{"SerialNumber": rm.Val{K: rm.Serial, U: uint64(serial)}, "Succeeded": rm.BoolVal(ok)})
			}
			mu.Unlock()
			if reply == nil {
				return nil
			}
			h := (uint32(seq) ^ seedMix) * 2654435761
			d := []time.Duration{0, 0, time.Millisecond, 3 * time.Millisecond, T / 10, T * 3 / 10}[h>>16%6]
			return []farm.Action{{Delay: d, Data: reply}}
		})
		fixed := round%3 == 2
		cfg := ClientCfg{Bind: "127.0.0.1:0", Broadcast: f.bcast.Addr, Timeout: T}
		if fixed {
			cfg.Bind = fmt.Sprintf("127.0.0.1:%d", freePort("127.0.0.1"))
		}
		base := uint32(0x70000000) + uint32(c.Batch)<<16 + uint32(round)<<8
		ctrls := []uint32{base + 1, base + 2, base + 3}
		cfg.Devices = []DevCfg{{ID: ctrls[0], Addr: f.udp[0].Addr, Proto: "udp"}}
		if !fixed {
			cfg.Devices = append(cfg.Devices, DevCfg{ID: ctrls[1], Addr: f.tcp[0].Addr, Proto: "tcp"})
		} else {
			cfg.Devices = append(cfg.Devices, DevCfg{ID: ctrls[1], Addr: f.udp[1].Addr, Proto: "udp"})
		}
		u := mkClient(cfg) // ctrls[2] is not configured: broadcast path
		G := 8
		K := 20
		if fixed {
			G, K = 4, 8
		}
		var hmu sync.Mutex
		history := []porcupine.Operation{}
		failed := map[[2]uint32]bool{}
		var pinCounter atomic.Uint32
		var wg sync.WaitGroup
		for g := 0; g < G; g++ {
			wg.Add(1)
			go func(g int) {
				defer wg.Done()
				rr := gen.New(c.Seed, fmt.Sprintf("C08/lin%d/g%d", round, g), c.Batch)
				for k := 0; k < K; k++ {
					ctrl := ctrls[rr.Pick(3)]
					card := uint32(1000 + rr.Pick(3)) // few keys, much contention
					in := cardIn{Ctrl: ctrl, Card: card}
					var out cardOut
					var err error
					t0 := farm.Mono()
					switch rr.Pick(5) {
					case 0, 1:
						in.Op, in.PIN = "put", 1+pinCounter.Add(1) // unique PIN per write: a read identifies its write
						var ok bool
						ok, err = u.PutCard(ctrl, types.Card{CardNumber: card, From: types.ToDate(2024, 1, 1), To: types.ToDate(2024, 12, 31), Doors: map[uint8]uint8{1: 1}, PIN: types.PIN(in.PIN)})
						out.OK = ok
					case 2, 3:
						in.Op = "get"
						var cd *types.Card
						cd, err = u.GetCardByID(ctrl, card)
						if cd != nil {
							out.Found, out.PIN = true, uint32(cd.PIN)
						}
					default:
						in.Op = "delete"
						var ok bool
						ok, err = u.DeleteCard(ctrl, card)
						out.OK = ok
					}
					t1 := farm.Mono()
					hmu.Lock()
					if err != nil {
						failed[[2]uint32{ctrl, card}] = true // outcome unknown: the key's history is not judged
					} else {
						history = append(history, porcupine.Operation{ClientId: g, Input: in, Call: t0, Output: out, Return: t1})
					}
					hmu.Unlock()
				}
			}(g)
		}
		wg.Wait()
		f.fm.Close()
		// drop keys with a failed (unknown outcome) operation
		judged := []porcupine.Operation{}
		for _, o := range history {
			in := o.Input.(cardIn)
			if !failed[[2]uint32{in.Ctrl, in.Card}] {
				judged = append(judged, o)
			}
		}
		if len(failed) > 0 {
			c.Res.Count("linearizability:keys-dropped(an operation failed, outcome unknown)", int64(len(failed)))
		}
		c.Res.Eval(int64(len(judged)))
		c.Res.Count("linearizability:operations-checked", int64(len(judged)))
		c.Res.Count("linearizability:histories", 1)
		c.Res.DistinctKey("lin", round, fixed, len(judged))
		res, info := porcupine.CheckOperationsVerbose(cardModel, judged, 60*time.Second)
		switch res {
		case porcupine.Ok:
		case porcupine.Unknown:
			c.Res.Inconcl("porcupine timed out")
		case porcupine.Illegal:
			desc := []string{}
			for _, o := range judged {
				desc = append(desc, fmt.Sprintf("[%d] %s call=%d return=%d", o.ClientId, cardModel.DescribeOperation(o.Input, o.Output), o.Call, o.Return))
			}
			if len(desc) > 80 {
				desc = desc[:80]
			}
			_ = info
			c.Res.Violate("C08:not-linearizable", fmt.Sprintf("PutCard/GetCardByID/DeleteCard history of %d operations (fixed port=%v) is not linearizable against a sequential controller: some call returned another call's reply", len(judged), fixed),
				map[string]any{"history": desc, "fixed_port": fixed}, int64(round))
		}
	}
}

// c08DiscoveryAtDeadline: "including discovery while replies are still arriving". A site's controllers answer a discovery in a
// dense stream that starts before the collection ends and goes on after it, so that the receiving side of the library is in the
// middle of a datagram when the caller takes the result. Half of the clients run in debug mode (the receive path then also dumps
// every datagram, which keeps it busy for longer). Oracles: the race detector (in the -race batches), and every returned entry
// is one that was sent.
func c08DiscoveryAtDeadline(c *Ctx) {
	T := 120 * time.Millisecond
	fm := farm.New()
	fm.KeepLog = false
	defer fm.Close()
	bc, err := fm.AddUDP("127.0.0.1", 0)
	if err != nil {
		c.Res.Inconcl("farm: " + err.Error())
		return
	}
	const N = 900
	layout := rm.FindOp("GetDevice").ReplyLayout()
	replies := make([][]byte, N)
	var round atomic.Uint32 // every discovery is answered by a site of its own (serial numbers 0x0c200000 + round*1024 + i): what is still on its
	// way from the previous site when the next discovery starts can be told apart
	for i := range replies {
		vals := rm.Vals{"SerialNumber": rm.Val{K: rm.Serial, U: uint64(0x0c200000 + i)}, "IpAddress": rm.IPVal(10, 0, byte(2+i/250), byte(1+i%250)), "SubnetMask": rm.IPVal(255, 255, 0, 0), "Gateway": rm.IPVal(10, 0, 0, 254),
			"MacAddress": rm.Val{K: rm.MAC, B: []byte{0, 1, 2, 4, byte(i >> 8), byte(i)}}, "Version": rm.UVal(rm.Version, 0x0892), "Date": rm.DateVal(2021, 1+i%12, 1+i%28)}
		replies[i] = rm.Encode(layout, 0x17, vals)
	}
	fm.SetScript(func(ep *farm.Endpoint, src net.Addr, req []byte, seq uint64) []farm.Action {
		if len(req) != 64 || req[1] != 0x94 {
			return nil
		}
		out := make([]farm.Action, 0, N)
		base := 0x0c200000 + round.Load()*1024
		for i := range replies {
			d := 30 * time.Microsecond
			if i == 0 {
				d = T - 18*time.Millisecond
			}
			b := append([]byte{}, replies[i]...)
			s := base + uint32(i)
			b[4], b[5], b[6], b[7] = byte(s), byte(s>>8), byte(s>>16), byte(s>>24)
			out = append(out, farm.Action{Delay: d, Data: b})
		}
		return out
	})
	rounds := c.N(10, 40)
	for k := 0; k < rounds; k++ {
		round.Store(uint32(k))
		u := mkClient(ClientCfg{Bind: "127.0.0.1:0", Broadcast: bc.Addr, Timeout: T, Debug: k%2 == 0})
		var devs []types.Device
		var err error
		panicked := ""
		func() {
			defer func() {
				if r := recover(); r != nil {
					panicked = fmt.Sprint(r)
				}
			}()
			devs, err = u.GetDevices()
		}()
		c.Res.Eval(1)
		c.Res.DistinctKey("discovery-at-deadline", k%2 == 0)
		c.Res.Count("discovery-at-deadline:calls", 1)
		c.Res.Max("discovery-at-deadline:max-replies-collected", int64(len(devs)))
		switch {
		case panicked != "":
			c.Res.Violate("C08:panic:GetDevices", "GetDevices panicked while replies kept arriving at the deadline: "+panicked, nil, int64(k))
		case err != nil:
			c.Res.Violate("C08:discovery-failed", "GetDevices failed while replies kept arriving at the deadline: "+err.Error(), nil, int64(k))
		default:
			last := -1
			for _, dv := range devs {
				i := int(uint32(dv.SerialNumber)) - 0x0c200000 - k*1024
				if i < 0 && i >= -k*1024 {
					// the tail of an earlier round's stream that reached this round's socket (the kernel handed out the same port again)
					c.Res.Count("discovery-at-deadline:entries-from-an-earlier-stream(not judged)", 1)
					continue
				}
				if i < 0 || i >= N || fmt.Sprint(dv.Address.Addr()) != fmt.Sprintf("10.0.%d.%d", 2+i/250, 1+i%250) {
					c.Res.Violate("C08:discovery-garbled", fmt.Sprintf("GetDevices (replies still arriving at the deadline) returned an entry nobody sent: serial %d address %v", dv.SerialNumber, dv.Address), nil, int64(k))
					break
				}
				if i <= last {
					c.Res.Violate("C08:discovery-garbled", fmt.Sprintf("GetDevices (replies still arriving at the deadline): controller #%d is listed after #%d although it answered earlier", i, last), nil, int64(k))
					break
				}
				last = i
			}
		}
		time.Sleep(50 * time.Millisecond) // the rest of the stream goes nowhere
		time.Sleep(40 * time.Millisecond)
	}
}

// c08SlowHandlerShutdown: "the event listener while it is being shut down". The event handler is busy with event 1 (a slow database,
// say) and stays busy for 7 s; event 2 has been read from the socket and waits to be handed over; the stop signal arrives. Whenever
// Listen returns, nothing in the library may blow up when the handler finally comes back and the waiting event is dealt with.
func c08SlowHandlerShutdown(c *Ctx) {
	port := freePort("127.0.0.3")
	if port == 0 {
		return
	}
	addr := fmt.Sprintf("127.0.0.3:%d", port)
	u := mkClient(ClientCfg{Bind: "127.0.0.1:0", Listen: addr, Timeout: time.Second})
	release := make(chan struct{})
	var connected, events atomic.Int64
	l := &c04Listener{connected: &connected, errRet: true, on: func(*types.Status) {
		if events.Add(1) == 1 {
			<-release
		}
	}}
	q := make(chan os.Signal, 1)
	done := make(chan error, 1)
	go func() { done <- u.Listen(l, q) }()
	for i := 0; i < 2000 && connected.Load() == 0; i++ {
		time.Sleep(time.Millisecond)
	}
	conn, err := net.Dial("udp4", addr)
	if err != nil || connected.Load() == 0 {
		close(release)
		q <- os.Interrupt
		return
	}
	defer conn.Close()
	for k := 0; k < 3; k++ {
		conn.Write(c17Event(0x0c000001, uint32(k+1)))
		time.Sleep(5 * time.Millisecond)
	}
	for i := 0; i < 2000 && events.Load() == 0; i++ {
		time.Sleep(time.Millisecond)
	}
	time.Sleep(20 * time.Millisecond)
	q <- os.Interrupt
	c.Res.Eval(1)
	c.Res.DistinctKey("slow-handler-shutdown")
	c.Res.Count("alongside:listener-shut-down-while-its-handler-was-busy-for-7s", 1)
	returnedEarly := false
	select {
	case <-done:
		returnedEarly = true
	case <-time.After(7 * time.Second):
	}
	close(release)
	if !returnedEarly {
		select {
		case err := <-done:
			if err != nil {
				c.Res.Violate("C08:listen-stop", "Listen returned an error when stopped while its handler was busy: "+err.Error(), nil, -7)
			}
		case <-liveAfter(5 * time.Second):
			c.Res.Violate("C08:listen-stop", "Listen did not return within 5 s of the handler coming back (stop signal sent 7 s earlier)", nil, -7)
		}
	}
	time.Sleep(300 * time.Millisecond) // whatever was still waiting inside the library gets its turn now
}

// c08SharedArguments: several goroutines call SetDoorPasscodes at the same time, each with its own section of one list the application
// keeps for all doors (sub-slices with spare capacity behind them). The library only reads its arguments: under the race detector
// no report, and afterwards the list is what it was. In-memory transport (the network is not the point here).
func c08SharedArguments(c *Ctx) {
	u, d := mkMemClient(ClientCfg{Broadcast: "192.168.1.255:60000"})
	op := rm.FindOp("SetDoorPasscodes")
	d.Script = func(inv adapter.Invocation) ([][]byte, error) {
		reply := okReply(op, uint32(inv.Request[4])|uint32(inv.Request[5])<<8|uint32(inv.Request[6])<<16|uint32(inv.Request[7])<<24)
		reply[8] = 1
		return [][]byte{reply}, nil
	}
	shared := make([]uint32, 16)
	for i := range shared {
		shared[i] = uint32(100000 + i)
	}
	want := append([]uint32{}, shared...)
	rounds := c.N(300, 3000)
	var wg sync.WaitGroup
	for g := 0; g < 4; g++ {
		wg.Add(1)
		go func(g int) {
			defer wg.Done()
			defer func() { recover() }()
			section := shared[g*4 : g*4+1+g%4] // 1..4 codes, the other doors' codes behind them in the same array
			for k := 0; k < rounds; k++ {
				u.SetDoorPasscodes(uint32(405419896+g), uint8(g+1), section...)
			}
		}(g)
	}
	wg.Wait()
	c.Res.Eval(1)
	c.Res.DistinctKey("shared-arguments", "SetDoorPasscodes")
	c.Res.Count("concurrent-calls-on-sections-of-one-argument-list", int64(4*rounds))
	if fmt.Sprint(shared) != fmt.Sprint(want) {
		c.Res.Violate("C08:argument-overwritten", fmt.Sprintf("SetDoorPasscodes called concurrently with sections of one list: the list is %v afterwards, it was %v", shared, want), nil, -8)
	}
}

// noEphemeralPort: a socket that is bound to port 0 gets its port from the kernel; when thousands of connections to one endpoint
// sit in TIME_WAIT the kernel can run out ("bind: address already in use" / "cannot assign requested address" on a bind to port 0).
// That is the machine's state, not the library's doing.
func noEphemeralPort(err string) bool {
	return strings.Contains(err, ":0->") && (strings.Contains(err, "address already in use") || strings.Contains(err, "cannot assign requested address"))
}
