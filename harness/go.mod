module verif/harness

go 1.23

require (
	github.com/anishathalye/porcupine v1.3.0
	github.com/uhppoted/uhppote-core v0.0.0
)

replace github.com/uhppoted/uhppote-core => /repo
