package refmodel

import "fmt"

// Op describes one API operation in terms of the frozen protocol table.
type Op struct {
	Name      string
	Fn        byte
	NoReply   bool // SetAddress: controllers do not reply
	Discovery bool // GetDevices: always broadcast, serial 0
	// Result lists the result slots the API exposes, as reply-layout field names (plus a few synthetic ones).
	Result []string
}

var Ops = []Op{
	{Name: "GetDevices", Fn: 0x94, Discovery: true, Result: []string{"SerialNumber", "IpAddress", "SubnetMask", "Gateway", "MacAddress", "Version", "Date"}},
	{Name: "GetDevice", Fn: 0x94, Result: []string{"SerialNumber", "IpAddress", "SubnetMask", "Gateway", "MacAddress", "Version", "Date"}},
	{Name: "SetAddress", Fn: 0x96, NoReply: true, Result: []string{"SerialNumber", "Succeeded"}},
	{Name: "GetListener", Fn: 0x92, Result: []string{"AddrPort", "Interval"}},
	{Name: "SetListener", Fn: 0x90, Result: []string{"Succeeded"}},
	{Name: "GetTime", Fn: 0x32, Result: []string{"SerialNumber", "DateTime"}},
	{Name: "SetTime", Fn: 0x30, Result: []string{"SerialNumber", "DateTime"}},
	{Name: "GetDoorControlState", Fn: 0x82, Result: []string{"SerialNumber", "Door", "ControlState", "Delay"}},
	{Name: "SetDoorControlState", Fn: 0x80, Result: []string{"SerialNumber", "Door", "ControlState", "Delay"}},
	{Name: "RecordSpecialEvents", Fn: 0x8e, Result: []string{"Succeeded"}},
	{Name: "GetStatus", Fn: 0x20, Result: []string{"SerialNumber", "Door1State", "Door2State", "Door3State", "Door4State", "Door1Button", "Door2Button", "Door3Button", "Door4Button",
		"SystemError", "SystemDateTime", "SequenceId", "SpecialInfo", "RelayState", "InputState",
		"EventIndex", "EventType", "Granted", "Door", "Direction", "CardNumber", "Timestamp", "Reason"}},
	{Name: "GetCards", Fn: 0x58, Result: []string{"Records"}},
	{Name: "GetCardByID", Fn: 0x5a, Result: []string{"CardNumber", "From", "To", "Door1", "Door2", "Door3", "Door4", "PIN"}},
	{Name: "GetCardByIndex", Fn: 0x5c, Result: []string{"CardNumber", "From", "To", "Door1", "Door2", "Door3", "Door4", "PIN"}},
	{Name: "PutCard", Fn: 0x50, Result: []string{"Succeeded"}},
	{Name: "DeleteCard", Fn: 0x52, Result: []string{"Succeeded"}},
	{Name: "DeleteCards", Fn: 0x54, Result: []string{"Succeeded"}},
	{Name: "GetTimeProfile", Fn: 0x98, Result: []string{"ProfileID", "From", "To", "Monday", "Tuesday", "Wednesday", "Thursday", "Friday", "Saturday", "Sunday",
		"Segment1Start", "Segment1End", "Segment2Start", "Segment2End", "Segment3Start", "Segment3End", "LinkedProfileID"}},
	{Name: "SetTimeProfile", Fn: 0x88, Result: []string{"Succeeded"}},
	{Name: "ClearTimeProfiles", Fn: 0x8a, Result: []string{"Succeeded"}},
	{Name: "ClearTaskList", Fn: 0xa6, Result: []string{"Succeeded"}},
	{Name: "AddTask", Fn: 0xa8, Result: []string{"Succeeded"}},
	{Name: "RefreshTaskList", Fn: 0xac, Result: []string{"Refreshed"}},
	{Name: "GetEvent", Fn: 0xb0, Result: []string{"SerialNumber", "Index", "Type", "Granted", "Door", "Direction", "CardNumber", "Timestamp", "Reason"}},
	{Name: "GetEventIndex", Fn: 0xb4, Result: []string{"SerialNumber", "Index"}},
	{Name: "SetEventIndex", Fn: 0xb2, Result: []string{"SerialNumber", "Index", "Changed"}},
	{Name: "OpenDoor", Fn: 0x40, Result: []string{"SerialNumber", "Succeeded"}},
	{Name: "SetPCControl", Fn: 0xa0, Result: []string{"Succeeded"}},
	{Name: "ActivateKeypads", Fn: 0xa4, Result: []string{"Succeeded"}},
	{Name: "SetDoorPasscodes", Fn: 0x8c, Result: []string{"Succeeded"}},
	{Name: "SetInterlock", Fn: 0xa2, Result: []string{"Succeeded"}},
	{Name: "RestoreDefaultParameters", Fn: 0xc8, Result: []string{"Succeeded"}},
}

func FindOp(name string) *Op {
	for i := range Ops {
		if Ops[i].Name == name {
			return &Ops[i]
		}
	}
	return nil
}

func (op *Op) ReqLayout() *Layout   { return FindLayout(op.Fn, Request) }
func (op *Op) ReplyLayout() *Layout { return FindLayout(op.Fn, Reply) }

// ArgFields returns the request fields that are call arguments (everything but serial and magic word).
func (op *Op) ArgFields() []Field {
	out := []Field{}
	for _, f := range op.ReqLayout().Fields {
		if f.Kind != Serial && f.Kind != Magic {
			out = append(out, f)
		}
	}
	return out
}

// Request is the one legal 64 byte request for op(serial, args). args holds the *effective* value of
// every argument field (absent map entries = 0/false, passcodes clamped, ...).
func (op *Op) Request(serial uint32, args Vals) []byte {
	vals := Vals{}
	for k, v := range args {
		vals[k] = v
	}
	vals["SerialNumber"] = Val{K: Serial, U: uint64(serial)}
	return Encode(op.ReqLayout(), 0x17, vals)
}

// PasscodeFields applies the documented clamping: only the first four codes, codes above 999999 are sent as 0.
func PasscodeFields(raw []uint32) Vals {
	out := Vals{}
	for i := 0; i < 4; i++ {
		v := uint64(0)
		if i < len(raw) && raw[i] <= 999999 {
			v = uint64(raw[i])
		}
		out[fmt.Sprintf("Passcode%d", i+1)] = Val{K: U32, U: v}
	}
	return out
}

// ---------------------------------------------------------------------------------------------

// CallExp is the set of acceptable outcomes of an API call given the reply bytes.
type CallExp struct {
	AcceptErr   bool
	AcceptNil   bool // (nil, nil): no card / no event / no profile
	AcceptValue bool
	Fields      map[string]Exp // expectations for the result slots when a value is returned
	Why         string
	Classes     string // coverage key: class of every reply field
}

// Expect computes the acceptable outcomes for op called with (serial, args) when the controller's reply
// is msg: a 64 byte datagram with a correct header for op and serial.
func (op *Op) Expect(serial uint32, args Vals, msg []byte) CallExp {
	l := op.ReplyLayout()
	exps := map[string]Exp{}
	anyBad := false // some field (visible or not) is out of domain
	classes := ""
	for _, f := range l.Fields {
		e := DecodeField(msg, f)
		exps[f.Name] = e
		if e.Mode == ErrOrZero || e.Mode == MustErr || e.Mode == AnyOf {
			anyBad = true
		}
		classes += e.Class + ","
	}
	ce := CallExp{Fields: map[string]Exp{}, Classes: classes}

	u32 := func(name string) uint64 { return exps[name].V.U }
	hidden := map[string]bool{}
	nilOutcome, errOutcome := false, false
	valueAlso := false // sentinel ambiguity: a value is acceptable next to nil/err

	switch op.Name {
	case "GetCardByID":
		c := u32("CardNumber")
		req := args["CardNumber"].U
		switch {
		case c == 0:
			nilOutcome = true
		case c == 0xffffffff:
			nilOutcome, errOutcome = true, true
			if req == 0xffffffff {
				valueAlso = true
			}
		case c != req:
			errOutcome = true
		}
	case "GetCardByIndex":
		if c := u32("CardNumber"); c == 0 || c == 0xffffffff {
			nilOutcome = true
		}
	case "GetTimeProfile":
		p := u32("ProfileID")
		if p == 0 {
			nilOutcome = true
		} else if p != args["ProfileID"].U {
			errOutcome = true
		}
	case "GetEvent":
		if u32("Type") == 0xff {
			errOutcome = true
		}
		if u32("Index") == 0 {
			nilOutcome = true
		}
	case "GetStatus":
		if u32("EventIndex") == 0 {
			for _, n := range []string{"EventType", "Granted", "Door", "Direction", "CardNumber", "Timestamp", "Reason"} {
				hidden[n] = true
			}
		}
	}

	if nilOutcome || errOutcome {
		ce.AcceptNil = nilOutcome
		ce.AcceptErr = errOutcome || anyBad
		ce.AcceptValue = valueAlso
		ce.Why = "sentinel"
		if !valueAlso {
			return ce
		}
	} else {
		ce.AcceptValue = true
		ce.AcceptErr = anyBad
	}

	// result slots
	for _, name := range op.Result {
		switch {
		case name == "SystemDateTime":
			ce.Fields[name] = combineSystemDateTime(exps["SystemDate"], exps["SystemTime"])
		case op.Name == "SetEventIndex" && name == "Index":
			ce.Fields[name] = Exp{Must, Val{K: U32, U: args["Index"].U}, "requested"}
		case hidden[name]:
			f := l.Field(name)
			z := Val{K: f.Kind}
			if f.Kind == DateTime {
				z.Zero = true
			}
			ce.Fields[name] = Exp{Must, z, "hidden"}
		default:
			e, ok := exps[name]
			if !ok {
				panic("no reply field " + name + " for " + op.Name)
			}
			ce.Fields[name] = e
		}
	}

	// A visible field with no 'no value' and out of domain: only an error is acceptable.
	for name, e := range ce.Fields {
		if e.Mode == MustErr && !hidden[name] {
			ce.AcceptValue = false
			ce.AcceptErr = true
			ce.Why = "malformed " + name
		}
	}
	// bad fields of the reply that are not result slots (decoded by the codec all the same)
	for _, f := range l.Fields {
		if _, isSlot := ce.Fields[f.Name]; !isSlot && f.Name != "SystemDate" && f.Name != "SystemTime" {
			if e := exps[f.Name]; e.Mode == MustErr && !hidden[f.Name] {
				// e.g. PutCardResponse has only Succeeded: nothing here today; keep generic
				ce.AcceptErr = true
			}
		}
	}
	return ce
}

func combineSystemDateTime(d, t Exp) Exp {
	// SystemDate all-zero => zero date-time whatever the time is
	if d.Mode == Must && d.V.Zero {
		if t.Mode == Must {
			return Exp{Must, ZeroDateTime(), "sysdatetime-zero"}
		}
		return Exp{ErrOrZero, ZeroDateTime(), "sysdatetime-zero-badtime"}
	}
	if d.Mode == DontCare {
		return Exp{DontCare, ZeroDateTime(), "sysdatetime-dontcare"}
	}
	if d.Mode != Must || t.Mode != Must {
		return Exp{ErrOrZero, ZeroDateTime(), "sysdatetime-invalid"}
	}
	return Exp{Must, DateTimeVal(d.V.Y, d.V.Mo, d.V.D, t.V.H, t.V.Mi, t.V.S), "sysdatetime"}
}

// Outcome is what the API call actually did, projected to neutral values by the worker.
type Outcome struct {
	Err    string // non-empty: the call returned an error
	Nil    bool   // (nil, nil)
	Fields Vals
}

// Judge returns "" when the outcome is acceptable, otherwise a description of the disagreement.
func (ce CallExp) Judge(o Outcome) string {
	switch {
	case o.Err != "":
		if ce.AcceptErr {
			return ""
		}
		return fmt.Sprintf("call failed (%s) but the reply is well-formed and must be decoded", o.Err)
	case o.Nil:
		if ce.AcceptNil {
			return ""
		}
		return "call returned no value (nil) but the reply carries one"
	}
	if !ce.AcceptValue {
		if ce.AcceptNil && !ce.AcceptErr {
			return fmt.Sprintf("call returned a value but the reply is a 'none' sentinel: got %v", o.Fields)
		}
		return fmt.Sprintf("call returned a value but must fail (%s): got %v", ce.Why, o.Fields)
	}
	for name, e := range ce.Fields {
		got, ok := o.Fields[name]
		if !ok {
			return "result slot " + name + " not reported by the adapter"
		}
		switch e.Mode {
		case Must:
			if !Equal(got, e.V) {
				return fmt.Sprintf("field %s: expected %v, got %v", name, e.V, got)
			}
		case ErrOrZero:
			if !IsZeroVal(got) {
				return fmt.Sprintf("field %s is out of domain (%s): expected an error or the zero value, got %v", name, e.Class, got)
			}
		case AnyOf:
			if !Equal(got, e.V) && !IsZeroVal(got) {
				return fmt.Sprintf("field %s (%s): expected raw %v, zero or an error, got %v", name, e.Class, e.V, got)
			}
		case MustErr:
			return fmt.Sprintf("field %s is malformed (%s): call must fail, got %v", name, e.Class, got)
		case DontCare:
		}
	}
	return ""
}
