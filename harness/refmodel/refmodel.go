// Package refmodel is an independent re-implementation of the UT0311-L0x wire protocol, used as
// the oracle for the runtime monitors. It imports nothing from the repository under test.
package refmodel

import (
	"fmt"
	"sort"
	"strings"
)

type Side int

const (
	Request Side = iota
	Reply
	EventMsg
)

type Kind int

const (
	U8 Kind = iota
	U16
	U32
	Serial // u32le serial number at offset 4
	Bool
	IPv4
	AddrPort
	MAC
	Date     // 4 bytes BCD YYYYMMDD
	DateTime // 7 bytes BCD YYYYMMDDHHmmss
	SysDate  // 3 bytes BCD YYMMDD
	SysTime  // 3 bytes BCD HHmmss
	HHmm     // 2 bytes BCD
	PIN      // 3 bytes little endian
	Version  // 2 bytes big endian
	Magic    // u32le 0x55aaaa55
)

var kindNames = [...]string{"u8", "u16", "u32", "serial", "bool", "ipv4", "addrport", "mac", "date", "datetime", "sysdate", "systime", "hhmm", "pin", "version", "magic"}

func (k Kind) String() string { return kindNames[k] }

func (k Kind) Size() int {
	return [...]int{1, 2, 4, 4, 1, 4, 6, 6, 4, 7, 3, 3, 2, 3, 2, 4}[k]
}

type Field struct {
	Offset int
	Name   string
	Kind   Kind
}

type Layout struct {
	Fn     byte
	Side   Side
	Name   string
	Fields []Field
}

func FindLayout(fn byte, side Side) *Layout {
	for i := range Layouts {
		if Layouts[i].Fn == fn && Layouts[i].Side == side {
			return &Layouts[i]
		}
	}
	return nil
}

func (l *Layout) Field(name string) *Field {
	for i := range l.Fields {
		if l.Fields[i].Name == name {
			return &l.Fields[i]
		}
	}
	return nil
}

// Covered returns for each of the 64 bytes whether it belongs to the header or to a field.
func (l *Layout) Covered() [64]bool {
	var c [64]bool
	c[0], c[1] = true, true
	for _, f := range l.Fields {
		for i := 0; i < f.Kind.Size(); i++ {
			c[f.Offset+i] = true
		}
	}
	return c
}

// Val is a neutral (library independent) value of one protocol field.
//   - integers, booleans (0/1), PIN, version: U
//   - ipv4: B[0:4]; addrport: B[0:4] + U = port; mac: B[0:6]
//   - date: Y,M,D (Zero = the 'no date' value); datetime: Y,M,D,h,m,s; systime: h,m,s; hhmm: h,m
type Val struct {
	K                  Kind
	U                  uint64
	B                  []byte
	Y, Mo, D, H, Mi, S int
	Zero               bool // zero 'no value' date / date-time
	Invalid            bool // (addrport) the zero netip.AddrPort / (ip) nil
}

func (v Val) String() string {
	switch v.K {
	case U8, U16, U32, Serial, PIN, Version, Magic:
		return fmt.Sprintf("%d", v.U)
	case Bool:
		if v.U != 0 {
			return "true"
		}
		return "false"
	case IPv4:
		if v.Invalid {
			return "ip:nil"
		}
		return fmt.Sprintf("%d.%d.%d.%d", v.B[0], v.B[1], v.B[2], v.B[3])
	case AddrPort:
		if v.Invalid {
			return "addrport:invalid"
		}
		return fmt.Sprintf("%d.%d.%d.%d:%d", v.B[0], v.B[1], v.B[2], v.B[3], v.U)
	case MAC:
		return fmt.Sprintf("%x", v.B)
	case Date, SysDate:
		if v.Zero {
			return "date:zero"
		}
		return fmt.Sprintf("%04d-%02d-%02d", v.Y, v.Mo, v.D)
	case DateTime:
		if v.Zero {
			return "datetime:zero"
		}
		return fmt.Sprintf("%04d-%02d-%02d %02d:%02d:%02d", v.Y, v.Mo, v.D, v.H, v.Mi, v.S)
	case SysTime:
		return fmt.Sprintf("%02d:%02d:%02d", v.H, v.Mi, v.S)
	case HHmm:
		return fmt.Sprintf("%02d:%02d", v.H, v.Mi)
	}
	return "?"
}

func UVal(k Kind, u uint64) Val { return Val{K: k, U: u} }
func BoolVal(b bool) Val {
	if b {
		return Val{K: Bool, U: 1}
	}
	return Val{K: Bool}
}
func DateVal(y, m, d int) Val   { return Val{K: Date, Y: y, Mo: m, D: d} }
func ZeroDate() Val             { return Val{K: Date, Zero: true} }
func HHmmVal(h, m int) Val      { return Val{K: HHmm, H: h, Mi: m} }
func IPVal(a, b, c, d byte) Val { return Val{K: IPv4, B: []byte{a, b, c, d}} }
func DateTimeVal(y, mo, d, h, mi, s int) Val {
	return Val{K: DateTime, Y: y, Mo: mo, D: d, H: h, Mi: mi, S: s}
}
func ZeroDateTime() Val { return Val{K: DateTime, Zero: true} }

type Vals map[string]Val

func (vs Vals) String() string {
	keys := make([]string, 0, len(vs))
	for k := range vs {
		keys = append(keys, k)
	}
	sort.Strings(keys)
	var b strings.Builder
	for i, k := range keys {
		if i > 0 {
			b.WriteString(" ")
		}
		fmt.Fprintf(&b, "%s=%s", k, vs[k])
	}
	return b.String()
}

// ---------------------------------------------------------------------------------------------
// BCD and calendar (own implementation)

func bcdByte(n int) byte { return byte((n/10)<<4 | (n % 10)) }

// bcdDigits returns the decimal digits of b, ok=false if any nibble exceeds 9.
func bcdDigits(b []byte) ([]int, bool) {
	d := make([]int, 0, 2*len(b))
	for _, x := range b {
		hi, lo := int(x>>4), int(x&0x0f)
		if hi > 9 || lo > 9 {
			return nil, false
		}
		d = append(d, hi, lo)
	}
	return d, true
}

func num(d []int) int {
	n := 0
	for _, x := range d {
		n = n*10 + x
	}
	return n
}

func IsLeap(y int) bool { return y%4 == 0 && (y%100 != 0 || y%400 == 0) }

func DaysIn(y, m int) int {
	switch m {
	case 1, 3, 5, 7, 8, 10, 12:
		return 31
	case 4, 6, 9, 11:
		return 30
	case 2:
		if IsLeap(y) {
			return 29
		}
		return 28
	}
	return 0
}

func ValidDate(y, m, d int) bool {
	return y >= 0 && y <= 9999 && m >= 1 && m <= 12 && d >= 1 && d <= DaysIn(y, m)
}

func ValidTime(h, m, s int) bool { return h >= 0 && h <= 23 && m >= 0 && m <= 59 && s >= 0 && s <= 59 }

// ---------------------------------------------------------------------------------------------
// Encoding

// EncodeField writes the protocol encoding of v at f.Offset.
func EncodeField(msg []byte, f Field, v Val) {
	o := f.Offset
	switch f.Kind {
	case U8:
		msg[o] = byte(v.U)
	case Bool:
		if v.U != 0 {
			msg[o] = 1
		}
	case U16:
		msg[o], msg[o+1] = byte(v.U), byte(v.U>>8)
	case U32, Serial, Magic:
		msg[o], msg[o+1], msg[o+2], msg[o+3] = byte(v.U), byte(v.U>>8), byte(v.U>>16), byte(v.U>>24)
	case PIN:
		msg[o], msg[o+1], msg[o+2] = byte(v.U), byte(v.U>>8), byte(v.U>>16)
	case Version:
		msg[o], msg[o+1] = byte(v.U>>8), byte(v.U)
	case IPv4:
		copy(msg[o:o+4], v.B[:4])
	case AddrPort:
		copy(msg[o:o+4], v.B[:4])
		msg[o+4], msg[o+5] = byte(v.U), byte(v.U>>8)
	case MAC:
		copy(msg[o:o+6], v.B[:6])
	case Date:
		if v.Zero {
			return
		}
		msg[o], msg[o+1], msg[o+2], msg[o+3] = bcdByte(v.Y/100), bcdByte(v.Y%100), bcdByte(v.Mo), bcdByte(v.D)
	case DateTime:
		y, mo, d, h, mi, s := v.Y, v.Mo, v.D, v.H, v.Mi, v.S
		if v.Zero { // the zero time.Time is 0001-01-01 00:00:00
			y, mo, d, h, mi, s = 1, 1, 1, 0, 0, 0
		}
		msg[o], msg[o+1], msg[o+2], msg[o+3] = bcdByte(y/100), bcdByte(y%100), bcdByte(mo), bcdByte(d)
		msg[o+4], msg[o+5], msg[o+6] = bcdByte(h), bcdByte(mi), bcdByte(s)
	case SysDate:
		msg[o], msg[o+1], msg[o+2] = bcdByte(v.Y%100), bcdByte(v.Mo), bcdByte(v.D)
	case SysTime:
		msg[o], msg[o+1], msg[o+2] = bcdByte(v.H), bcdByte(v.Mi), bcdByte(v.S)
	case HHmm:
		msg[o], msg[o+1] = bcdByte(v.H), bcdByte(v.Mi)
	}
}

// Encode builds the 64 byte message for a layout: protocol id, function code, fields, zero elsewhere.
func Encode(l *Layout, som byte, vals Vals) []byte {
	msg := make([]byte, 64)
	msg[0] = som
	msg[1] = l.Fn
	for _, f := range l.Fields {
		if f.Kind == Magic {
			if v, ok := vals[f.Name]; ok { // struct level round trips carry an explicit value
				EncodeField(msg, f, v)
			} else {
				EncodeField(msg, f, Val{K: Magic, U: 0x55aaaa55})
			}
			continue
		}
		if v, ok := vals[f.Name]; ok {
			EncodeField(msg, f, v)
		}
	}
	return msg
}

// ---------------------------------------------------------------------------------------------
// Decoding to expectations

type Mode int

const (
	Must      Mode = iota // the field must decode to V
	ErrOrZero             // out of domain: the call must fail, or the field is its zero 'no value'
	MustErr               // out of domain with no 'no value': the decode/call must fail
	DontCare              // outside every quantifier
	AnyOf                 // V, or error, or zero (out-of-domain but representable raw)
)

func (m Mode) String() string {
	return [...]string{"must", "err-or-zero", "must-err", "dont-care", "any-of"}[m]
}

type Exp struct {
	Mode  Mode
	V     Val
	Class string // value class, for coverage accounting
}

// DecodeField returns the expectation for the field f in msg (len 64).
func DecodeField(msg []byte, f Field) Exp {
	o := f.Offset
	b := msg[o : o+f.Kind.Size()]
	le := func() uint64 {
		var u uint64
		for i := len(b) - 1; i >= 0; i-- {
			u = u<<8 | uint64(b[i])
		}
		return u
	}
	switch f.Kind {
	case U8, U16, U32, Serial, Magic:
		return Exp{Must, Val{K: f.Kind, U: le()}, "int"}
	case PIN:
		u := le()
		if u > 999999 {
			return Exp{AnyOf, Val{K: PIN, U: u}, "pin>999999"}
		}
		return Exp{Must, Val{K: PIN, U: u}, "pin"}
	case Version:
		return Exp{Must, Val{K: Version, U: uint64(b[0])<<8 | uint64(b[1])}, "version"}
	case Bool:
		switch b[0] {
		case 0:
			return Exp{Must, BoolVal(false), "false"}
		case 1:
			return Exp{Must, BoolVal(true), "true"}
		}
		return Exp{MustErr, Val{K: Bool}, "bool-invalid"}
	case IPv4:
		return Exp{Must, Val{K: IPv4, B: append([]byte{}, b...)}, "ip"}
	case AddrPort:
		return Exp{Must, Val{K: AddrPort, B: append([]byte{}, b[:4]...), U: uint64(b[4]) | uint64(b[5])<<8}, "addrport"}
	case MAC:
		return Exp{Must, Val{K: MAC, B: append([]byte{}, b...)}, "mac"}
	case Date:
		if b[0] == 0 && b[1] == 0 && b[2] == 0 && b[3] == 0 {
			return Exp{Must, ZeroDate(), "date-zero"}
		}
		d, ok := bcdDigits(b)
		if !ok {
			return Exp{ErrOrZero, ZeroDate(), "date-nonbcd"}
		}
		y, m, dd := num(d[0:4]), num(d[4:6]), num(d[6:8])
		if !ValidDate(y, m, dd) {
			return Exp{ErrOrZero, ZeroDate(), "date-impossible"}
		}
		if y == 0 || (y == 1 && m == 1 && dd == 1) {
			return Exp{DontCare, ZeroDate(), "date-outside-domain"}
		}
		return Exp{Must, DateVal(y, m, dd), "date"}
	case DateTime:
		allzero := true
		for _, x := range b {
			if x != 0 {
				allzero = false
			}
		}
		if allzero {
			return Exp{Must, ZeroDateTime(), "datetime-zero"}
		}
		if b[0] == 0x20 && b[1] == 0 && b[2] == 0 && b[3] == 0 && b[4] == 0 && b[5] == 0 && b[6] == 0 {
			return Exp{Must, ZeroDateTime(), "datetime-2000-00-00"}
		}
		d, ok := bcdDigits(b)
		if !ok {
			return Exp{ErrOrZero, ZeroDateTime(), "datetime-nonbcd"}
		}
		y, mo, dd, h, mi, s := num(d[0:4]), num(d[4:6]), num(d[6:8]), num(d[8:10]), num(d[10:12]), num(d[12:14])
		if !ValidDate(y, mo, dd) || !ValidTime(h, mi, s) {
			return Exp{ErrOrZero, ZeroDateTime(), "datetime-impossible"}
		}
		if y == 0 || (y == 1 && mo == 1 && dd == 1) {
			return Exp{DontCare, ZeroDateTime(), "datetime-outside-domain"}
		}
		return Exp{Must, DateTimeVal(y, mo, dd, h, mi, s), "datetime"}
	case SysDate:
		if b[0] == 0 && b[1] == 0 && b[2] == 0 {
			return Exp{Must, Val{K: SysDate, Zero: true}, "sysdate-zero"}
		}
		d, ok := bcdDigits(b)
		if !ok {
			return Exp{ErrOrZero, Val{K: SysDate, Zero: true}, "sysdate-nonbcd"}
		}
		yy, m, dd := num(d[0:2]), num(d[2:4]), num(d[4:6])
		if !ValidDate(2000+yy, m, dd) {
			// NB: a day valid in 19yy but not in 20yy cannot occur: yy and yy+100 have the same leap rule except 1900/2000 (yy=00 -> 2000 is leap; 1900 is not selected)
			return Exp{ErrOrZero, Val{K: SysDate, Zero: true}, "sysdate-impossible"}
		}
		if yy >= 69 {
			return Exp{DontCare, Val{K: SysDate}, "sysdate-yy>=69"} // two digit year pivot is unspecified
		}
		return Exp{Must, Val{K: SysDate, Y: 2000 + yy, Mo: m, D: dd}, "sysdate"}
	case SysTime:
		d, ok := bcdDigits(b)
		if !ok {
			return Exp{ErrOrZero, Val{K: SysTime}, "systime-nonbcd"}
		}
		h, mi, s := num(d[0:2]), num(d[2:4]), num(d[4:6])
		if !ValidTime(h, mi, s) {
			return Exp{ErrOrZero, Val{K: SysTime}, "systime-impossible"}
		}
		return Exp{Must, Val{K: SysTime, H: h, Mi: mi, S: s}, "systime"}
	case HHmm:
		d, ok := bcdDigits(b)
		if !ok {
			return Exp{ErrOrZero, HHmmVal(0, 0), "hhmm-nonbcd"}
		}
		h, mi := num(d[0:2]), num(d[2:4])
		if h > 24 || mi > 59 || (h == 24 && mi != 0) {
			return Exp{ErrOrZero, HHmmVal(0, 0), "hhmm-out-of-range"}
		}
		return Exp{Must, HHmmVal(h, mi), "hhmm"}
	}
	panic("unknown kind")
}

// Equal compares two neutral values of the same kind semantically.
func Equal(a, b Val) bool {
	return a.String() == b.String()
}

// IsZeroVal reports whether v is the zero 'no value' of its kind.
func IsZeroVal(v Val) bool {
	switch v.K {
	case Date, DateTime, SysDate:
		return v.Zero
	case HHmm:
		return v.H == 0 && v.Mi == 0
	case SysTime:
		return v.H == 0 && v.Mi == 0 && v.S == 0
	case IPv4, MAC:
		for _, x := range v.B {
			if x != 0 {
				return false
			}
		}
		return true
	case AddrPort:
		return v.Invalid || (v.U == 0 && v.B[0] == 0 && v.B[1] == 0 && v.B[2] == 0 && v.B[3] == 0)
	}
	return v.U == 0
}
