// Package farm is a loopback "controller farm": UDP and TCP endpoints on 127.0.0.0/8 that log every
// datagram they receive (with a monotonic timestamp and the source address) and answer according to a
// script supplied by the monitor. It does not import the repository under test.
package farm

import (
	"context"
	"errors"
	"fmt"
	"io"
	"net"
	"sync"
	"sync/atomic"
	"syscall"
	"time"
	"unsafe"
)

// Mono returns CLOCK_MONOTONIC in nanoseconds (comparable across goroutines and processes).
func Mono() int64 {
	var ts syscall.Timespec
	syscall.Syscall(syscall.SYS_CLOCK_GETTIME, 1, uintptr(unsafe.Pointer(&ts)), 0)
	return ts.Sec*1e9 + ts.Nsec
}

type Event struct {
	T        int64  // monotonic ns
	Kind     string // recv | send | accept | closed | send-error
	Endpoint int    // index of the endpoint
	Proto    string // udp | tcp
	Src      string // peer address
	Dst      string // udp endpoints opened with PktInfo: destination address in the IP header of the datagram
	Data     []byte
	Seq      uint64 // request sequence number at this farm (ties sends to the request they answer)
}

// Action is one step of a reply script.
type Action struct {
	Delay time.Duration // wait before this step (relative to the previous one)
	Data  []byte        // datagram to send (nil: nothing)
	Close bool          // tcp: close the connection now
	Reset bool          // tcp: close with RST
	Stall bool          // tcp: keep the connection open without answering until the client goes away
	Via   *Endpoint     // udp: send the datagram through this endpoint's socket instead of the receiving one
}

// Script decides how an endpoint answers a request. It is called once per received datagram / TCP request.
type Script func(ep *Endpoint, src net.Addr, req []byte, seq uint64) []Action

type Endpoint struct {
	Index   int
	Proto   string
	Addr    string // ip:port
	Port    int
	udp     *net.UDPConn
	pktinfo bool
	tcp     *net.TCPListener
	farm    *Farm
	Recv    atomic.Int64 // datagrams / requests received
}

type Farm struct {
	mu        sync.Mutex
	log       []Event
	Endpoints []*Endpoint
	script    atomic.Value // Script
	seq       atomic.Uint64
	wg        sync.WaitGroup
	closed    atomic.Bool
	OpenConns atomic.Int64 // accepted TCP connections not yet closed by the farm
	KeepLog   bool
	Hook      func(Event) // called for every event (must be safe for concurrent use); set before traffic starts
}

func New() *Farm { return &Farm{KeepLog: true} }

func (f *Farm) SetScript(s Script) { f.script.Store(s) }

func (f *Farm) record(e Event) {
	if f.Hook != nil {
		f.Hook(e)
	}
	if !f.KeepLog {
		return
	}
	f.mu.Lock()
	f.log = append(f.log, e)
	f.mu.Unlock()
}

// Events returns a copy of the log.
func (f *Farm) Events() []Event {
	f.mu.Lock()
	defer f.mu.Unlock()
	return append([]Event{}, f.log...)
}

func (f *Farm) ResetLog() {
	f.mu.Lock()
	f.log = nil
	f.mu.Unlock()
}

// AddUDP opens a UDP endpoint on ip (port 0 = OS assigned).
func (f *Farm) AddUDP(ip string, port int) (*Endpoint, error) {
	c, err := net.ListenUDP("udp4", &net.UDPAddr{IP: net.ParseIP(ip), Port: port})
	if err != nil {
		return nil, err
	}
	c.SetReadBuffer(4 << 20)
	ep := &Endpoint{Index: len(f.Endpoints), Proto: "udp", udp: c, farm: f}
	ep.Port = c.LocalAddr().(*net.UDPAddr).Port
	ep.Addr = fmt.Sprintf("%s:%d", ip, ep.Port)
	f.Endpoints = append(f.Endpoints, ep)
	f.wg.Add(1)
	go ep.serveUDP()
	return ep, nil
}

// UDPOpts: PktInfo records the destination address of every datagram (IP_PKTINFO); ReuseAddr sets SO_REUSEADDR before
// bind, so that a wildcard socket and sockets on specific addresses can share a port number.
type UDPOpts struct{ PktInfo, ReuseAddr bool }

func (f *Farm) AddUDPOpts(ip string, port int, o UDPOpts) (*Endpoint, error) {
	lc := net.ListenConfig{Control: func(network, address string, rc syscall.RawConn) error {
		var serr error
		rc.Control(func(fd uintptr) {
			if o.ReuseAddr {
				serr = syscall.SetsockoptInt(int(fd), syscall.SOL_SOCKET, syscall.SO_REUSEADDR, 1)
			}
			if o.PktInfo && serr == nil {
				serr = syscall.SetsockoptInt(int(fd), syscall.IPPROTO_IP, syscall.IP_PKTINFO, 1)
			}
		})
		return serr
	}}
	pc, err := lc.ListenPacket(context.Background(), "udp4", fmt.Sprintf("%s:%d", ip, port))
	if err != nil {
		return nil, err
	}
	c := pc.(*net.UDPConn)
	c.SetReadBuffer(4 << 20)
	ep := &Endpoint{Index: len(f.Endpoints), Proto: "udp", udp: c, farm: f, pktinfo: o.PktInfo}
	ep.Port = c.LocalAddr().(*net.UDPAddr).Port
	ep.Addr = fmt.Sprintf("%s:%d", ip, ep.Port)
	f.Endpoints = append(f.Endpoints, ep)
	f.wg.Add(1)
	go ep.serveUDP()
	return ep, nil
}

func (f *Farm) AddTCP(ip string, port int) (*Endpoint, error) {
	l, err := net.ListenTCP("tcp4", &net.TCPAddr{IP: net.ParseIP(ip), Port: port})
	if err != nil {
		return nil, err
	}
	ep := &Endpoint{Index: len(f.Endpoints), Proto: "tcp", tcp: l, farm: f}
	ep.Port = l.Addr().(*net.TCPAddr).Port
	ep.Addr = fmt.Sprintf("%s:%d", ip, ep.Port)
	f.Endpoints = append(f.Endpoints, ep)
	f.wg.Add(1)
	go ep.serveTCP()
	return ep, nil
}

func (f *Farm) Close() {
	f.closed.Store(true)
	for _, ep := range f.Endpoints {
		if ep.udp != nil {
			ep.udp.Close()
		}
		if ep.tcp != nil {
			ep.tcp.Close()
		}
	}
	f.wg.Wait()
}

func (ep *Endpoint) serveUDP() {
	defer ep.farm.wg.Done()
	buf := make([]byte, 4096)
	oob := make([]byte, 256)
	for {
		var n int
		var src *net.UDPAddr
		var err error
		dst := ""
		if ep.pktinfo {
			var oobn int
			n, oobn, _, src, err = ep.udp.ReadMsgUDP(buf, oob)
			if err == nil {
				if msgs, perr := syscall.ParseSocketControlMessage(oob[:oobn]); perr == nil {
					for _, m := range msgs {
						if m.Header.Level == syscall.IPPROTO_IP && m.Header.Type == syscall.IP_PKTINFO && len(m.Data) >= 12 {
							dst = net.IP(m.Data[8:12]).String()
						}
					}
				}
			}
		} else {
			n, src, err = ep.udp.ReadFromUDP(buf)
		}
		if err != nil {
			if ep.farm.closed.Load() || errors.Is(err, net.ErrClosed) {
				return
			}
			continue
		}
		t := Mono()
		req := append([]byte{}, buf[:n]...)
		seq := ep.farm.seq.Add(1)
		ep.Recv.Add(1)
		ep.farm.record(Event{T: t, Kind: "recv", Endpoint: ep.Index, Proto: "udp", Src: src.String(), Dst: dst, Data: req, Seq: seq})
		s, _ := ep.farm.script.Load().(Script)
		if s == nil {
			continue
		}
		actions := s(ep, src, req, seq)
		if len(actions) == 0 {
			continue
		}
		ep.farm.wg.Add(1)
		go func() {
			defer ep.farm.wg.Done()
			for _, a := range actions {
				if a.Delay > 0 {
					time.Sleep(a.Delay)
				}
				if ep.farm.closed.Load() {
					return
				}
				if a.Data != nil {
					// logged before the write: once the datagram is out the receiver may act on it before this goroutine runs again
					ep.farm.record(Event{T: Mono(), Kind: "send", Endpoint: ep.Index, Proto: "udp", Src: src.String(), Data: a.Data, Seq: seq})
					out := ep.udp
					if a.Via != nil && a.Via.udp != nil {
						out = a.Via.udp
					}
					if _, err := out.WriteToUDP(a.Data, src); err != nil {
						ep.farm.record(Event{T: Mono(), Kind: "send-error", Endpoint: ep.Index, Proto: "udp", Src: src.String(), Data: a.Data, Seq: seq})
					}
				}
			}
		}()
	}
}

func (ep *Endpoint) serveTCP() {
	defer ep.farm.wg.Done()
	for {
		c, err := ep.tcp.AcceptTCP()
		if err != nil {
			if ep.farm.closed.Load() || errors.Is(err, net.ErrClosed) {
				return
			}
			continue
		}
		ep.farm.OpenConns.Add(1)
		ep.farm.record(Event{T: Mono(), Kind: "accept", Endpoint: ep.Index, Proto: "tcp", Src: c.RemoteAddr().String()})
		ep.farm.wg.Add(1)
		go ep.handleTCP(c)
	}
}

func (ep *Endpoint) handleTCP(c *net.TCPConn) {
	defer ep.farm.wg.Done()
	defer func() {
		c.Close()
		ep.farm.OpenConns.Add(-1)
		ep.farm.record(Event{T: Mono(), Kind: "closed", Endpoint: ep.Index, Proto: "tcp", Src: c.RemoteAddr().String()})
	}()
	src := c.RemoteAddr()
	buf := make([]byte, 4096)
	c.SetReadDeadline(time.Now().Add(30 * time.Second))
	n, err := c.Read(buf)
	if err != nil || n == 0 {
		return
	}
	t := Mono()
	req := append([]byte{}, buf[:n]...)
	seq := ep.farm.seq.Add(1)
	ep.Recv.Add(1)
	ep.farm.record(Event{T: t, Kind: "recv", Endpoint: ep.Index, Proto: "tcp", Src: src.String(), Data: req, Seq: seq})
	s, _ := ep.farm.script.Load().(Script)
	if s == nil {
		return
	}
	for _, a := range s(ep, src, req, seq) {
		if a.Delay > 0 {
			time.Sleep(a.Delay)
		}
		if ep.farm.closed.Load() {
			return
		}
		if a.Data != nil {
			ep.farm.record(Event{T: Mono(), Kind: "send", Endpoint: ep.Index, Proto: "tcp", Src: src.String(), Data: a.Data, Seq: seq})
			if _, err := c.Write(a.Data); err != nil {
				ep.farm.record(Event{T: Mono(), Kind: "send-error", Endpoint: ep.Index, Proto: "tcp", Src: src.String(), Data: a.Data, Seq: seq})
				return
			}
		}
		if a.Reset {
			c.SetLinger(0)
			return
		}
		if a.Close {
			return
		}
		if a.Stall {
			// wait (bounded) for the client to go away
			c.SetReadDeadline(time.Now().Add(20 * time.Second))
			io.Copy(io.Discard, c)
			return
		}
	}
	// default: wait briefly for the client to close first (avoids TIME_WAIT on the farm side mattering)
	c.SetReadDeadline(time.Now().Add(2 * time.Second))
	io.Copy(io.Discard, c)
}

// WaitIdle waits until no accepted connection is open (bounded).
func (f *Farm) WaitIdle(d time.Duration) bool {
	deadline := time.Now().Add(d)
	for time.Now().Before(deadline) {
		if f.OpenConns.Load() == 0 {
			return true
		}
		time.Sleep(2 * time.Millisecond)
	}
	return f.OpenConns.Load() == 0
}
