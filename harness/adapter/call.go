package adapter

import (
	"fmt"
	"net"
	"net/netip"
	"runtime/debug"
	"time"

	"github.com/uhppoted/uhppote-core/types"
	"github.com/uhppoted/uhppote-core/uhppote"

	rm "verif/harness/refmodel"
)

// Aux says how the neutral argument values are to be presented to the API (which of several
// equivalent Go representations to use). It never changes the expected wire bytes.
type Aux struct {
	AbsentDoors uint8    // PutCard: bit i set => door i+1 is left out of the map (its value must be 0)
	NilMap      bool     // PutCard/ActivateKeypads/AddTask/SetTimeProfile: pass a nil map (all values zero/false)
	AbsentDays  uint8    // weekdays left out of the map (value false); bit 0 = Monday .. bit 6 = Sunday
	AbsentRdrs  uint8    // ActivateKeypads: readers left out of the map
	DateCtor    int      // 0 ToDate, 1 ParseDate, 2 Date(time.Date(.., fixed zone)), 3 JSON
	Loc         string   // SetTime: IANA name, or "" = UTC, or "fixed:+/-seconds"
	ZeroTime    bool     // SetTime: pass the zero time.Time
	Passcodes   []uint32 // SetDoorPasscodes: the raw variadic list
	Formats     []uint8  // PutCard: card formats
	IP16        uint8    // SetAddress: bit i => pass the 16 byte form of the i-th address
	ExtraKeys   bool     // maps carry extra out-of-range keys (door 0, 5, 255 ...) that must be ignored
}

func mkDate(v rm.Val, ctor int) types.Date {
	if v.Zero {
		return types.Date{}
	}
	switch ctor % 4 {
	case 1:
		d, err := types.ParseDate(fmt.Sprintf("%04d-%02d-%02d", v.Y, v.Mo, v.D))
		if err != nil {
			panic(fmt.Sprintf("harness: ParseDate rejected in-domain date %v: %v", v, err))
		}
		return d
	case 2:
		return types.Date(time.Date(v.Y, time.Month(v.Mo), v.D, 13, 14, 15, 0, time.FixedZone("X", -11*3600)))
	case 3:
		var d types.Date
		if err := d.UnmarshalJSON([]byte(fmt.Sprintf(`"%04d-%02d-%02d"`, v.Y, v.Mo, v.D))); err != nil {
			panic(fmt.Sprintf("harness: Date JSON rejected in-domain date %v: %v", v, err))
		}
		return d
	}
	return types.ToDate(v.Y, time.Month(v.Mo), v.D)
}

func mkHHmm(v rm.Val, ctor int) types.HHmm {
	if ctor%2 == 1 {
		if h, err := types.HHmmFromString(fmt.Sprintf("%02d:%02d", v.H, v.Mi)); err == nil && h != nil {
			return *h
		}
	}
	return types.NewHHmm(v.H, v.Mi)
}

func weekdays(a rm.Vals, aux Aux) types.Weekdays {
	if aux.NilMap {
		return nil
	}
	w := types.Weekdays{}
	days := []time.Weekday{time.Monday, time.Tuesday, time.Wednesday, time.Thursday, time.Friday, time.Saturday, time.Sunday}
	names := []string{"Monday", "Tuesday", "Wednesday", "Thursday", "Friday", "Saturday", "Sunday"}
	for i, d := range days {
		if aux.AbsentDays&(1<<i) != 0 {
			continue
		}
		w[d] = a[names[i]].U != 0
	}
	return w
}

func ip(v rm.Val, sixteen bool) net.IP {
	if v.Invalid {
		return nil
	}
	if sixteen {
		return net.IPv4(v.B[0], v.B[1], v.B[2], v.B[3])
	}
	return net.IP{v.B[0], v.B[1], v.B[2], v.B[3]}
}

func AddrPortOf(v rm.Val) netip.AddrPort {
	if v.Invalid {
		return netip.AddrPort{}
	}
	return netip.AddrPortFrom(netip.AddrFrom4([4]byte{v.B[0], v.B[1], v.B[2], v.B[3]}), uint16(v.U))
}

// ---- projections of library values to neutral values

func PDate(d types.Date) rm.Val {
	if d.IsZero() {
		return rm.ZeroDate()
	}
	y, m, dd := time.Time(d).Date()
	return rm.DateVal(y, int(m), dd)
}

func PDateTime(d types.DateTime) rm.Val {
	if d.IsZero() {
		return rm.ZeroDateTime()
	}
	t := time.Time(d)
	y, m, dd := t.Date()
	h, mi, s := t.Clock()
	return rm.DateTimeVal(y, int(m), dd, h, mi, s)
}

func PHHmm(h types.HHmm) rm.Val {
	var hh, mm int
	fmt.Sscanf(h.String(), "%d:%d", &hh, &mm)
	return rm.HHmmVal(hh, mm)
}

func PIP(p net.IP) rm.Val {
	if p4 := p.To4(); p4 != nil {
		return rm.Val{K: rm.IPv4, B: []byte{p4[0], p4[1], p4[2], p4[3]}}
	}
	return rm.Val{K: rm.IPv4, Invalid: true}
}

func PAddrPort(a netip.AddrPort) rm.Val {
	if !a.IsValid() || !a.Addr().Is4() {
		return rm.Val{K: rm.AddrPort, Invalid: true}
	}
	b := a.Addr().As4()
	return rm.Val{K: rm.AddrPort, B: b[:], U: uint64(a.Port())}
}

func pb(b bool) rm.Val              { return rm.BoolVal(b) }
func pu(k rm.Kind, u uint64) rm.Val { return rm.Val{K: k, U: u} }

func PDevice(d *types.Device) rm.Vals {
	mac := make([]byte, 6)
	copy(mac, d.MacAddress)
	return rm.Vals{
		"SerialNumber": pu(rm.Serial, uint64(d.SerialNumber)),
		"IpAddress":    PIP(d.IpAddress),
		"SubnetMask":   PIP(d.SubnetMask),
		"Gateway":      PIP(d.Gateway),
		"MacAddress":   rm.Val{K: rm.MAC, B: mac},
		"Version":      pu(rm.Version, uint64(d.Version)),
		"Date":         PDate(d.Date),
	}
}

func PStatus(s *types.Status) rm.Vals {
	return rm.Vals{
		"SerialNumber": pu(rm.Serial, uint64(s.SerialNumber)),
		"Door1State":   pb(s.DoorState[1]), "Door2State": pb(s.DoorState[2]), "Door3State": pb(s.DoorState[3]), "Door4State": pb(s.DoorState[4]),
		"Door1Button": pb(s.DoorButton[1]), "Door2Button": pb(s.DoorButton[2]), "Door3Button": pb(s.DoorButton[3]), "Door4Button": pb(s.DoorButton[4]),
		"SystemError":    pu(rm.U8, uint64(s.SystemError)),
		"SystemDateTime": PDateTime(s.SystemDateTime),
		"SequenceId":     pu(rm.U32, uint64(s.SequenceId)),
		"SpecialInfo":    pu(rm.U8, uint64(s.SpecialInfo)),
		"RelayState":     pu(rm.U8, uint64(s.RelayState)),
		"InputState":     pu(rm.U8, uint64(s.InputState)),
		"EventIndex":     pu(rm.U32, uint64(s.Event.Index)),
		"EventType":      pu(rm.U8, uint64(s.Event.Type)),
		"Granted":        pb(s.Event.Granted),
		"Door":           pu(rm.U8, uint64(s.Event.Door)),
		"Direction":      pu(rm.U8, uint64(s.Event.Direction)),
		"CardNumber":     pu(rm.U32, uint64(s.Event.CardNumber)),
		"Timestamp":      PDateTime(s.Event.Timestamp),
		"Reason":         pu(rm.U8, uint64(s.Event.Reason)),
	}
}

func PCard(c *types.Card) rm.Vals {
	return rm.Vals{
		"CardNumber": pu(rm.U32, uint64(c.CardNumber)),
		"From":       PDate(c.From), "To": PDate(c.To),
		"Door1": pu(rm.U8, uint64(c.Doors[1])), "Door2": pu(rm.U8, uint64(c.Doors[2])), "Door3": pu(rm.U8, uint64(c.Doors[3])), "Door4": pu(rm.U8, uint64(c.Doors[4])),
		"PIN": pu(rm.PIN, uint64(c.PIN)),
	}
}

func PProfile(p *types.TimeProfile) rm.Vals {
	return rm.Vals{
		"ProfileID": pu(rm.U8, uint64(p.ID)), "LinkedProfileID": pu(rm.U8, uint64(p.LinkedProfileID)),
		"From": PDate(p.From), "To": PDate(p.To),
		"Monday": pb(p.Weekdays[time.Monday]), "Tuesday": pb(p.Weekdays[time.Tuesday]), "Wednesday": pb(p.Weekdays[time.Wednesday]),
		"Thursday": pb(p.Weekdays[time.Thursday]), "Friday": pb(p.Weekdays[time.Friday]), "Saturday": pb(p.Weekdays[time.Saturday]), "Sunday": pb(p.Weekdays[time.Sunday]),
		"Segment1Start": PHHmm(p.Segments[1].Start), "Segment1End": PHHmm(p.Segments[1].End),
		"Segment2Start": PHHmm(p.Segments[2].Start), "Segment2End": PHHmm(p.Segments[2].End),
		"Segment3Start": PHHmm(p.Segments[3].Start), "Segment3End": PHHmm(p.Segments[3].End),
	}
}

func PEvent(e *types.Event) rm.Vals {
	return rm.Vals{
		"SerialNumber": pu(rm.Serial, uint64(e.SerialNumber)),
		"Index":        pu(rm.U32, uint64(e.Index)), "Type": pu(rm.U8, uint64(e.Type)), "Granted": pb(e.Granted),
		"Door": pu(rm.U8, uint64(e.Door)), "Direction": pu(rm.U8, uint64(e.Direction)), "CardNumber": pu(rm.U32, uint64(e.CardNumber)),
		"Timestamp": PDateTime(e.Timestamp), "Reason": pu(rm.U8, uint64(e.Reason)),
	}
}

// BuildCard builds the PutCard argument.
func BuildCard(a rm.Vals, aux Aux) types.Card {
	card := types.Card{
		CardNumber: uint32(a["CardNumber"].U),
		From:       mkDate(a["From"], aux.DateCtor),
		To:         mkDate(a["To"], aux.DateCtor+1),
		PIN:        types.PIN(a["PIN"].U),
	}
	if !aux.NilMap {
		card.Doors = map[uint8]uint8{}
		for i, n := range []string{"Door1", "Door2", "Door3", "Door4"} {
			if aux.AbsentDoors&(1<<i) == 0 {
				card.Doors[uint8(i+1)] = uint8(a[n].U)
			}
		}
		if aux.ExtraKeys {
			card.Doors[0], card.Doors[5], card.Doors[255] = 77, 78, 79
		}
	}
	return card
}

func BuildProfile(a rm.Vals, aux Aux) types.TimeProfile {
	p := types.TimeProfile{
		ID:              uint8(a["ProfileID"].U),
		LinkedProfileID: uint8(a["LinkedProfileID"].U),
		From:            mkDate(a["From"], aux.DateCtor),
		To:              mkDate(a["To"], aux.DateCtor+2),
		Weekdays:        weekdays(a, aux),
		Segments: types.Segments{
			1: types.Segment{Start: mkHHmm(a["Segment1Start"], aux.DateCtor), End: mkHHmm(a["Segment1End"], aux.DateCtor+1)},
			2: types.Segment{Start: mkHHmm(a["Segment2Start"], aux.DateCtor+1), End: mkHHmm(a["Segment2End"], aux.DateCtor)},
			3: types.Segment{Start: mkHHmm(a["Segment3Start"], aux.DateCtor), End: mkHHmm(a["Segment3End"], aux.DateCtor)},
		},
	}
	if aux.ExtraKeys {
		p.Segments[0] = types.Segment{Start: types.NewHHmm(1, 2), End: types.NewHHmm(3, 4)}
		p.Segments[4] = types.Segment{Start: types.NewHHmm(7, 8), End: types.NewHHmm(5, 6)} // (ends before it starts: not a segment of the profile, not anybody's business)
		p.Segments[200] = types.Segment{Start: types.NewHHmm(23, 0), End: types.NewHHmm(1, 0)}
	}
	return p
}

func BuildTask(a rm.Vals, aux Aux) types.Task {
	return types.Task{
		Task:     types.TaskType(a["Task"].U),
		Door:     uint8(a["Door"].U),
		From:     mkDate(a["From"], aux.DateCtor),
		To:       mkDate(a["To"], aux.DateCtor+3),
		Weekdays: weekdays(a, aux),
		Start:    mkHHmm(a["Start"], aux.DateCtor),
		Cards:    uint8(a["MoreCards"].U),
	}
}

func BuildTime(a rm.Vals, aux Aux) time.Time {
	if aux.ZeroTime {
		return time.Time{}
	}
	v := a["DateTime"]
	loc := time.UTC
	if aux.Loc != "" {
		var off int
		if n, _ := fmt.Sscanf(aux.Loc, "fixed:%d", &off); n == 1 {
			loc = time.FixedZone("F", off)
		} else if l, err := time.LoadLocation(aux.Loc); err == nil {
			loc = l
		}
	}
	t := time.Date(v.Y, time.Month(v.Mo), v.D, v.H, v.Mi, v.S, 123456789, loc)
	return t
}

// ResultHook, when set, is handed every non-nil typed value an API call returns (before projection).
var ResultHook func(op string, v any)

func hook(op string, v any) {
	if ResultHook != nil {
		ResultHook(op, v)
	}
}

// Call invokes op on u with the neutral arguments and projects the result.
func Call(u uhppote.IUHPPOTE, op string, serial uint32, a rm.Vals, aux Aux) (out rm.Outcome) {
	fail := func(err error) rm.Outcome { return rm.Outcome{Err: "error: " + err.Error()} }
	succeeded := func(name string, ok bool, err error) rm.Outcome {
		if err != nil {
			return fail(err)
		}
		return rm.Outcome{Fields: rm.Vals{name: pb(ok)}}
	}

	switch op {
	case "GetDevice":
		d, err := u.GetDevice(serial)
		if err != nil {
			return fail(err)
		} else if d == nil {
			return rm.Outcome{Nil: true}
		}
		hook(op, d)
		return rm.Outcome{Fields: PDevice(d)}

	case "SetAddress":
		r, err := u.SetAddress(serial, ip(a["Address"], aux.IP16&1 != 0), ip(a["Mask"], aux.IP16&2 != 0), ip(a["Gateway"], aux.IP16&4 != 0))
		if err != nil {
			return fail(err)
		} else if r == nil {
			return rm.Outcome{Nil: true}
		}
		hook(op, r)
		return rm.Outcome{Fields: rm.Vals{"SerialNumber": pu(rm.Serial, uint64(r.SerialNumber)), "Succeeded": pb(r.Succeeded)}}

	case "GetListener":
		ap, interval, err := u.GetListener(serial)
		if err != nil {
			return fail(err)
		}
		hook(op, ap)
		return rm.Outcome{Fields: rm.Vals{"AddrPort": PAddrPort(ap), "Interval": pu(rm.U8, uint64(interval))}}

	case "SetListener":
		ok, err := u.SetListener(serial, AddrPortOf(a["AddrPort"]), uint8(a["Interval"].U))
		return succeeded("Succeeded", ok, err)

	case "GetTime":
		t, err := u.GetTime(serial)
		if err != nil {
			return fail(err)
		} else if t == nil {
			return rm.Outcome{Nil: true}
		}
		hook(op, t)
		return rm.Outcome{Fields: rm.Vals{"SerialNumber": pu(rm.Serial, uint64(t.SerialNumber)), "DateTime": PDateTime(t.DateTime)}}

	case "SetTime":
		t, err := u.SetTime(serial, BuildTime(a, aux))
		if err != nil {
			return fail(err)
		} else if t == nil {
			return rm.Outcome{Nil: true}
		}
		hook(op, t)
		return rm.Outcome{Fields: rm.Vals{"SerialNumber": pu(rm.Serial, uint64(t.SerialNumber)), "DateTime": PDateTime(t.DateTime)}}

	case "GetDoorControlState", "SetDoorControlState":
		var s *types.DoorControlState
		var err error
		if op == "GetDoorControlState" {
			s, err = u.GetDoorControlState(serial, uint8(a["Door"].U))
		} else {
			s, err = u.SetDoorControlState(serial, uint8(a["Door"].U), types.ControlState(a["ControlState"].U), uint8(a["Delay"].U))
		}
		if err != nil {
			return fail(err)
		} else if s == nil {
			return rm.Outcome{Nil: true}
		}
		hook(op, s)
		return rm.Outcome{Fields: rm.Vals{"SerialNumber": pu(rm.Serial, uint64(s.SerialNumber)), "Door": pu(rm.U8, uint64(s.Door)),
			"ControlState": pu(rm.U8, uint64(s.ControlState)), "Delay": pu(rm.U8, uint64(s.Delay))}}

	case "RecordSpecialEvents":
		ok, err := u.RecordSpecialEvents(serial, a["Enable"].U != 0)
		return succeeded("Succeeded", ok, err)

	case "GetStatus":
		s, err := u.GetStatus(serial)
		if err != nil {
			return fail(err)
		} else if s == nil {
			return rm.Outcome{Nil: true}
		}
		hook(op, s)
		return rm.Outcome{Fields: PStatus(s)}

	case "GetCards":
		n, err := u.GetCards(serial)
		if err != nil {
			return fail(err)
		}
		return rm.Outcome{Fields: rm.Vals{"Records": pu(rm.U32, uint64(n))}}

	case "GetCardByID", "GetCardByIndex":
		var c *types.Card
		var err error
		if op == "GetCardByID" {
			c, err = u.GetCardByID(serial, uint32(a["CardNumber"].U))
		} else {
			c, err = u.GetCardByIndex(serial, uint32(a["Index"].U))
		}
		if err != nil {
			return fail(err)
		} else if c == nil {
			return rm.Outcome{Nil: true}
		}
		hook(op, c)
		return rm.Outcome{Fields: PCard(c)}

	case "PutCard":
		formats := []types.CardFormat{}
		for _, f := range aux.Formats {
			formats = append(formats, types.CardFormat(f))
		}
		ok, err := u.PutCard(serial, BuildCard(a, aux), formats...)
		return succeeded("Succeeded", ok, err)

	case "DeleteCard":
		ok, err := u.DeleteCard(serial, uint32(a["CardNumber"].U))
		return succeeded("Succeeded", ok, err)

	case "DeleteCards":
		ok, err := u.DeleteCards(serial)
		return succeeded("Succeeded", ok, err)

	case "GetTimeProfile":
		p, err := u.GetTimeProfile(serial, uint8(a["ProfileID"].U))
		if err != nil {
			return fail(err)
		} else if p == nil {
			return rm.Outcome{Nil: true}
		}
		hook(op, p)
		return rm.Outcome{Fields: PProfile(p)}

	case "SetTimeProfile":
		ok, err := u.SetTimeProfile(serial, BuildProfile(a, aux))
		return succeeded("Succeeded", ok, err)

	case "ClearTimeProfiles":
		ok, err := u.ClearTimeProfiles(serial)
		return succeeded("Succeeded", ok, err)

	case "ClearTaskList":
		ok, err := u.ClearTaskList(serial)
		return succeeded("Succeeded", ok, err)

	case "AddTask":
		ok, err := u.AddTask(serial, BuildTask(a, aux))
		return succeeded("Succeeded", ok, err)

	case "RefreshTaskList":
		ok, err := u.RefreshTaskList(serial)
		return succeeded("Refreshed", ok, err)

	case "GetEvent":
		e, err := u.GetEvent(serial, uint32(a["Index"].U))
		if err != nil {
			return fail(err)
		} else if e == nil {
			return rm.Outcome{Nil: true}
		}
		hook(op, e)
		return rm.Outcome{Fields: PEvent(e)}

	case "GetEventIndex":
		e, err := u.GetEventIndex(serial)
		if err != nil {
			return fail(err)
		} else if e == nil {
			return rm.Outcome{Nil: true}
		}
		hook(op, e)
		return rm.Outcome{Fields: rm.Vals{"SerialNumber": pu(rm.Serial, uint64(e.SerialNumber)), "Index": pu(rm.U32, uint64(e.Index))}}

	case "SetEventIndex":
		e, err := u.SetEventIndex(serial, uint32(a["Index"].U))
		if err != nil {
			return fail(err)
		} else if e == nil {
			return rm.Outcome{Nil: true}
		}
		hook(op, e)
		return rm.Outcome{Fields: rm.Vals{"SerialNumber": pu(rm.Serial, uint64(e.SerialNumber)), "Index": pu(rm.U32, uint64(e.Index)), "Changed": pb(e.Changed)}}

	case "OpenDoor":
		r, err := u.OpenDoor(serial, uint8(a["Door"].U))
		if err != nil {
			return fail(err)
		} else if r == nil {
			return rm.Outcome{Nil: true}
		}
		hook(op, r)
		return rm.Outcome{Fields: rm.Vals{"SerialNumber": pu(rm.Serial, uint64(r.SerialNumber)), "Succeeded": pb(r.Succeeded)}}

	case "SetPCControl":
		ok, err := u.SetPCControl(serial, a["Enable"].U != 0)
		return succeeded("Succeeded", ok, err)

	case "ActivateKeypads":
		var readers map[uint8]bool
		if !aux.NilMap {
			readers = map[uint8]bool{}
			for i, n := range []string{"Reader1", "Reader2", "Reader3", "Reader4"} {
				if aux.AbsentRdrs&(1<<i) == 0 {
					readers[uint8(i+1)] = a[n].U != 0
				}
			}
			if aux.ExtraKeys {
				readers[0], readers[5] = true, true
			}
		}
		ok, err := u.ActivateKeypads(serial, readers)
		return succeeded("Succeeded", ok, err)

	case "SetDoorPasscodes":
		ok, err := u.SetDoorPasscodes(serial, uint8(a["Door"].U), aux.Passcodes...)
		return succeeded("Succeeded", ok, err)

	case "SetInterlock":
		ok, err := u.SetInterlock(serial, types.Interlock(a["Interlock"].U))
		return succeeded("Succeeded", ok, err)

	case "RestoreDefaultParameters":
		ok, err := u.RestoreDefaultParameters(serial)
		return succeeded("Succeeded", ok, err)
	}
	panic("adapter: unknown operation " + op)
}

// SafeCall is Call with a recover: a panic inside the library becomes Outcome.Err = "panic: ...".
// OnPanic, when set, is told about every panic SafeCall recovers (operation, panic value, stack): a call that neither
// returns a value nor an error breaks whatever property the workload was checking.
var OnPanic func(op string, r any, stack string)

func SafeCall(u uhppote.IUHPPOTE, op string, serial uint32, a rm.Vals, aux Aux) (out rm.Outcome, panicked bool) {
	defer func() {
		if r := recover(); r != nil {
			out = rm.Outcome{Err: fmt.Sprintf("panic: %v", r)}
			panicked = true
			if OnPanic != nil {
				OnPanic(op, r, string(debug.Stack()))
			}
		}
	}()
	return Call(u, op, serial, a, aux), false
}
