// Package adapter is the bridge between the neutral reference model and the library under test.
// It (and the worker's main package) are the only packages that import the repository.
package adapter

import (
	"fmt"
	"net"
	"os"
	"runtime"
	"sync"
	"time"

	"github.com/uhppoted/uhppote-core/uhppote"
)

// Invocation is one call of a transport method observed at the driver hook.
type Invocation struct {
	Method  string // Broadcast | BroadcastTo | SendUDP | SendTCP | Listen
	Addr    string
	Request []byte // copy taken on entry
	AtSend  []byte // copy taken at the moment the real driver would write to its socket (see MemDriver.Serialize)
}

// Script decides what the (in-memory) network answers to a request.
type Script func(inv Invocation) (datagrams [][]byte, err error)

// MemDriver is an in-memory transport: it records every driver invocation and plays scripted datagrams
// through the same callback protocol the real driver uses.
type MemDriver struct {
	mu       sync.Mutex
	Log      []Invocation
	Script   Script
	Handed   [][]byte // every buffer handed to the library (so that the harness can scribble over them later)
	Consumed int      // datagrams consumed by the last call
	Scribble bool     // overwrite the request slice before returning
	// Serialize makes the driver behave like the real one on a fixed bind port: invocations queue on a guard, and the
	// request slice is read when the call gets its turn (after Hold), not when it arrives.
	Serialize bool
	Hold      time.Duration
	guard     sync.Mutex

	listenCB   func([]byte)
	listenDone chan any
	listenMu   sync.RWMutex // held (read) while a buffer is being delivered: like the real receive loop, the
	// in-memory listener reports 'done' only when no callback is in progress
}

// ErrTimeout is what the real driver's read returns when the deadline passes: a net.OpError that wraps os.ErrDeadlineExceeded
// and reports Timeout() == true.
var ErrTimeout error = &net.OpError{Op: "read", Net: "udp", Err: os.ErrDeadlineExceeded}

func (d *MemDriver) record(method string, addr fmt.Stringer, request []byte) Invocation {
	inv := Invocation{Method: method, Addr: addr.String(), Request: append([]byte{}, request...)}
	if d.Serialize {
		d.guard.Lock()
		if d.Hold > 0 {
			time.Sleep(d.Hold)
		} else {
			runtime.Gosched()
		}
		inv.AtSend = append([]byte{}, request...)
	} else {
		inv.AtSend = inv.Request
	}
	d.mu.Lock()
	d.Log = append(d.Log, inv)
	d.mu.Unlock()
	return inv
}

func (d *MemDriver) script(inv Invocation) ([][]byte, error) {
	if d.Script == nil {
		return nil, nil
	}
	list, err := d.Script(inv)
	out := make([][]byte, len(list))
	for i, b := range list {
		out[i] = append([]byte{}, b...)
	}
	d.mu.Lock()
	d.Handed = append(d.Handed, out...)
	d.mu.Unlock()
	return out, err
}

// setConsumed: the driver may be used by several goroutines at once (the monitors that read Consumed use it from one).
func (d *MemDriver) setConsumed(n int) {
	d.mu.Lock()
	d.Consumed = n
	d.mu.Unlock()
}

func (d *MemDriver) done(request []byte) {
	if d.Scribble {
		for i := range request {
			request[i] = 0xee
		}
	}
	if d.Serialize {
		d.guard.Unlock()
	}
}

func (d *MemDriver) Broadcast(addr *net.UDPAddr, request []byte) ([][]byte, error) {
	inv := d.record("Broadcast", addr, request)
	defer d.done(request)
	list, err := d.script(inv)
	if err != nil {
		return nil, err
	}
	d.setConsumed(len(list))
	return list, nil
}

func (d *MemDriver) BroadcastTo(addr *net.UDPAddr, request []byte, callback func([]byte) bool) ([]byte, error) {
	inv := d.record("BroadcastTo", addr, request)
	defer d.done(request)
	list, err := d.script(inv)
	if err != nil {
		return nil, err
	}
	if len(request) > 1 && request[1] == 0x96 {
		return nil, nil
	}
	for i, b := range list {
		if callback(b) {
			d.setConsumed(i + 1)
			return b, nil
		}
	}
	d.setConsumed(len(list))
	return nil, ErrTimeout
}

func (d *MemDriver) first(method string, addr fmt.Stringer, request []byte) ([]byte, error) {
	inv := d.record(method, addr, request)
	defer d.done(request)
	list, err := d.script(inv)
	if err != nil {
		return nil, err
	}
	if len(request) > 1 && request[1] == 0x96 {
		return nil, nil
	}
	if len(list) == 0 {
		d.setConsumed(0)
		return nil, ErrTimeout
	}
	d.setConsumed(1)
	return list[0], nil
}

func (d *MemDriver) SendUDP(addr *net.UDPAddr, request []byte) ([]byte, error) {
	return d.first("SendUDP", addr, request)
}

func (d *MemDriver) SendTCP(addr *net.TCPAddr, request []byte) ([]byte, error) {
	return d.first("SendTCP", addr, request)
}

func (d *MemDriver) Listen(signal chan any, done chan any, callback func([]byte)) error {
	d.mu.Lock()
	d.Log = append(d.Log, Invocation{Method: "Listen"})
	d.listenCB = callback
	d.listenDone = done
	d.mu.Unlock()
	go func() {
		<-signal
		d.listenMu.Lock() // wait for a delivery in progress, as the real read loop does
		d.mu.Lock()
		d.listenCB = nil
		d.mu.Unlock()
		d.listenMu.Unlock()
		close(done)
	}()
	return nil
}

// Push delivers a buffer to the listener callback (as the real receive loop does, synchronously).
func (d *MemDriver) Push(b []byte) bool {
	d.listenMu.RLock()
	defer d.listenMu.RUnlock()
	d.mu.Lock()
	cb := d.listenCB
	d.mu.Unlock()
	if cb == nil {
		return false
	}
	cb(b)
	return true
}

func (d *MemDriver) Reset() {
	d.mu.Lock()
	d.Log = d.Log[:0]
	d.Handed = d.Handed[:0]
	d.mu.Unlock()
}

func (d *MemDriver) Invocations() []Invocation {
	d.mu.Lock()
	defer d.mu.Unlock()
	return append([]Invocation{}, d.Log...)
}

// ScribbleHanded overwrites every reply buffer handed to the library so far.
func (d *MemDriver) ScribbleHanded() {
	d.mu.Lock()
	defer d.mu.Unlock()
	for _, b := range d.Handed {
		for i := range b {
			b[i] = 0xa5
		}
	}
}

// Install replaces the transport of a client built with NewUHPPOTE by the in-memory driver.
func Install(u uhppote.IUHPPOTE, d *MemDriver) bool {
	return uhppote.VerifWrapDriver(u, func(uhppote.VerifDriver) uhppote.VerifDriver { return d })
}

// Recorder wraps the real driver and records invocations while forwarding to real sockets.
type Recorder struct {
	Inner uhppote.VerifDriver
	mu    sync.Mutex
	Log   []Invocation
}

func (r *Recorder) rec(method string, addr fmt.Stringer, request []byte) {
	r.mu.Lock()
	r.Log = append(r.Log, Invocation{Method: method, Addr: addr.String(), Request: append([]byte{}, request...)})
	r.mu.Unlock()
}
func (r *Recorder) Broadcast(addr *net.UDPAddr, request []byte) ([][]byte, error) {
	r.rec("Broadcast", addr, request)
	return r.Inner.Broadcast(addr, request)
}
func (r *Recorder) BroadcastTo(addr *net.UDPAddr, request []byte, cb func([]byte) bool) ([]byte, error) {
	r.rec("BroadcastTo", addr, request)
	return r.Inner.BroadcastTo(addr, request, cb)
}
func (r *Recorder) SendUDP(addr *net.UDPAddr, request []byte) ([]byte, error) {
	r.rec("SendUDP", addr, request)
	return r.Inner.SendUDP(addr, request)
}
func (r *Recorder) SendTCP(addr *net.TCPAddr, request []byte) ([]byte, error) {
	r.rec("SendTCP", addr, request)
	return r.Inner.SendTCP(addr, request)
}
func (r *Recorder) Listen(signal chan any, done chan any, cb func([]byte)) error {
	return r.Inner.Listen(signal, done, cb)
}
func (r *Recorder) Take() []Invocation {
	r.mu.Lock()
	defer r.mu.Unlock()
	out := r.Log
	r.Log = nil
	return out
}

func InstallRecorder(u uhppote.IUHPPOTE) *Recorder {
	r := &Recorder{}
	uhppote.VerifWrapDriver(u, func(inner uhppote.VerifDriver) uhppote.VerifDriver { r.Inner = inner; return r })
	return r
}
