// Package wk is the small kit shared by all monitors in the worker: result accumulation,
// distinct-case accounting, violation witnesses.
package wk

import (
	"encoding/binary"
	"encoding/json"
	"fmt"
	"hash/fnv"
	"os"
	"sort"
	"sync"
)

type Violation struct {
	Key     string `json:"key"`  // finding key: names the failing input class / call site / history shape
	What    string `json:"what"` // human readable
	Witness any    `json:"witness,omitempty"`
	Case    int64  `json:"case"` // case number within the batch (deterministic from seed)
}

type Result struct {
	Property     string            `json:"property"`
	Tier         string            `json:"tier"`
	Seed         uint64            `json:"seed"`
	Batch        int               `json:"batch"`
	Env          string            `json:"env,omitempty"`
	Evaluations  int64             `json:"evaluations"`
	Distinct     int64             `json:"distinct"`
	DistinctFile string            `json:"distinct_file,omitempty"`
	Samples      []any             `json:"samples"`
	Observed     map[string]int64  `json:"observed"`
	Notes        map[string]string `json:"notes,omitempty"`
	Violations   []Violation       `json:"violations"`
	NViolations  int64             `json:"n_violations"`
	Inconclusive int64             `json:"inconclusive"`
	InconclWhy   []string          `json:"inconclusive_why,omitempty"`
	Exhaustive   bool              `json:"exhaustive"`
	Rule         string            `json:"rule"`

	mu       sync.Mutex
	distinct map[uint64]struct{}
	perKey   map[string]int
}

const maxDistinct = 250_000 // per batch: beyond this the count is conservative (a lower bound)

func New(prop, tier string, seed uint64, batch int) *Result {
	return &Result{Property: prop, Tier: tier, Seed: seed, Batch: batch, Observed: map[string]int64{}, Notes: map[string]string{},
		distinct: map[uint64]struct{}{}, perKey: map[string]int{}}
}

func (r *Result) Eval(n int64) {
	r.mu.Lock()
	r.Evaluations += n
	r.mu.Unlock()
}

func (r *Result) Count(name string, n int64) {
	r.mu.Lock()
	r.Observed[name] += n
	r.mu.Unlock()
}

func (r *Result) Max(name string, v int64) {
	r.mu.Lock()
	if v > r.Observed[name] {
		r.Observed[name] = v
	}
	r.mu.Unlock()
}

func Hash(parts ...any) uint64 {
	h := fnv.New64a()
	for _, p := range parts {
		switch v := p.(type) {
		case []byte:
			h.Write(v)
		case string:
			h.Write([]byte(v))
		default:
			fmt.Fprint(h, v)
		}
		h.Write([]byte{0xff})
	}
	return h.Sum64()
}

// Distinct records a distinct non-trivial case key.
func (r *Result) DistinctKey(parts ...any) {
	k := Hash(parts...)
	r.mu.Lock()
	if len(r.distinct) < maxDistinct {
		r.distinct[k] = struct{}{}
	}
	r.mu.Unlock()
}

func (r *Result) DistinctHash(k uint64) {
	r.mu.Lock()
	if len(r.distinct) < maxDistinct {
		r.distinct[k] = struct{}{}
	}
	r.mu.Unlock()
}

func (r *Result) Sample(s any) {
	r.mu.Lock()
	if len(r.Samples) < 6 {
		r.Samples = append(r.Samples, s)
	}
	r.mu.Unlock()
}

func (r *Result) Violate(key, what string, witness any, caseNo int64) {
	r.mu.Lock()
	defer r.mu.Unlock()
	r.NViolations++
	r.perKey[key]++
	if r.perKey[key] <= 3 && len(r.Violations) < 60 {
		r.Violations = append(r.Violations, Violation{Key: key, What: what, Witness: witness, Case: caseNo})
	}
}

func (r *Result) Inconcl(why string) {
	r.mu.Lock()
	r.Inconclusive++
	if len(r.InconclWhy) < 10 {
		r.InconclWhy = append(r.InconclWhy, why)
	}
	r.mu.Unlock()
}

func (r *Result) Note(k, v string) {
	r.mu.Lock()
	r.Notes[k] = v
	r.mu.Unlock()
}

// Write stores the result as JSON at path and the distinct hashes next to it.
func (r *Result) Write(path string) error {
	r.mu.Lock()
	defer r.mu.Unlock()
	r.Distinct = int64(len(r.distinct))
	if len(r.distinct) > 0 {
		keys := make([]uint64, 0, len(r.distinct))
		for k := range r.distinct {
			keys = append(keys, k)
		}
		sort.Slice(keys, func(i, j int) bool { return keys[i] < keys[j] })
		buf := make([]byte, 8*len(keys))
		for i, k := range keys {
			binary.LittleEndian.PutUint64(buf[8*i:], k)
		}
		r.DistinctFile = path + ".distinct"
		if err := os.WriteFile(r.DistinctFile, buf, 0o644); err != nil {
			return err
		}
	}
	if r.Samples == nil {
		r.Samples = []any{}
	}
	if r.Violations == nil {
		r.Violations = []Violation{}
	}
	b, err := json.MarshalIndent(r, "", " ")
	if err != nil {
		return err
	}
	return os.WriteFile(path, b, 0o644)
}

func Hex(b []byte) string { return fmt.Sprintf("%x", b) }
