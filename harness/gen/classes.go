package gen

import (
	"fmt"

	rm "verif/harness/refmodel"
)

// Datagram classes of C03 (what a network can hand to a call addressed to controller S).
type Class int

const (
	Valid Class = iota
	Len0
	LenShort // 1..63
	LenLong  // 65..1024
	WrongSerial
	Serial0
	WrongFunction
	WrongProtocol
	Protocol19 // 0x19: legal only for function 0x20
	Malformed  // a field the operation constrains (boolean / BCD) is out of domain
	NClasses
)

var classNames = [...]string{"valid", "len0", "len1-63", "len65-4096", "wrong-serial", "serial0", "wrong-function", "wrong-protocol", "protocol-0x19", "malformed"}

func (c Class) String() string { return classNames[c] }

// MarkerField names, per operation, the result-bearing reply field that carries the datagram's unique marker.
var MarkerField = map[string]string{
	"GetCards": "Records", "GetStatus": "SequenceId", "GetCardByID": "PIN", "GetTimeProfile": "LinkedProfileID", "GetEvent": "CardNumber",
	"GetEventIndex": "Index", "GetCardByIndex": "PIN", "GetListener": "Interval", "GetDoorControlState": "Delay", "SetDoorControlState": "Delay",
	"GetDevice": "Version", "GetTime": "", "SetTime": "",
}

// malformedCandidates lists, per operation, the bytes whose corruption must make the call fail: a boolean that is neither 0
// nor 1, a non-decimal nibble in the controller's system date / time, a non-decimal nibble in a date-time value field
// (GetTime, SetTime, the event timestamps) - the pinned decoders reject all three.
func malformedCandidates(op *rm.Op) [][2]int {
	out := [][2]int{}
	if op.ReplyLayout() == nil {
		return out
	}
	for _, f := range op.ReplyLayout().Fields {
		switch f.Kind {
		case rm.Bool:
			out = append(out, [2]int{f.Offset, 0x02})
		case rm.SysDate:
			out = append(out, [2]int{f.Offset, 0xaa}, [2]int{f.Offset + 1, 0x13}) // non-decimal nibble; month 13
		case rm.SysTime:
			out = append(out, [2]int{f.Offset, 0xaa}, [2]int{f.Offset, 0x24}, [2]int{f.Offset + 1, 0x60}, [2]int{f.Offset + 2, 0x60}) // non-decimal; 24:mm:ss; minute 60; second 60
		case rm.DateTime:
			out = append(out, [2]int{f.Offset + 1, 0x2a}, [2]int{f.Offset + 4, 0xb3})
		}
	}
	return out
}

func malformedAt(r R, op *rm.Op) (int, byte, bool) {
	c := malformedCandidates(op)
	if len(c) == 0 {
		return 0, 0, false
	}
	k := c[r.Pick(len(c))]
	return k[0], byte(k[1]), true
}

// HasMalformed reports whether the operation has a field whose corruption is a hard error.
func HasMalformed(op *rm.Op) bool { return len(malformedCandidates(op)) > 0 }

// Datagram builds a datagram of the given class for op(serial, args); valid-looking ones carry marker.
func (r R) Datagram(op *rm.Op, serial uint32, args rm.Vals, c Class, marker uint32) []byte {
	base := func() []byte {
		msg := make([]byte, 64)
		msg[0], msg[1] = 0x17, op.Fn
		msg[4], msg[5], msg[6], msg[7] = byte(serial), byte(serial>>8), byte(serial>>16), byte(serial>>24)
		l := op.ReplyLayout()
		if l == nil {
			return msg
		}
		// echoed identifiers so that a valid datagram yields a value
		switch op.Name {
		case "GetCardByID":
			rm.EncodeField(msg, *l.Field("CardNumber"), rm.UVal(rm.U32, args["CardNumber"].U))
			rm.EncodeField(msg, *l.Field("From"), rm.DateVal(2024, 1, 1))
			rm.EncodeField(msg, *l.Field("To"), rm.DateVal(2024, 12, 31))
		case "GetCardByIndex":
			rm.EncodeField(msg, *l.Field("CardNumber"), rm.UVal(rm.U32, 8165535))
			rm.EncodeField(msg, *l.Field("From"), rm.DateVal(2024, 1, 1))
			rm.EncodeField(msg, *l.Field("To"), rm.DateVal(2024, 12, 31))
		case "GetTimeProfile":
			rm.EncodeField(msg, *l.Field("ProfileID"), rm.UVal(rm.U8, args["ProfileID"].U))
			// segment times: some real ones, some out of domain (reported as 00:00 - never as anything another reply carried)
			for _, f := range l.Fields {
				if f.Kind != rm.HHmm {
					continue
				}
				switch r.Pick(3) {
				case 1:
					copy(msg[f.Offset:], []byte{byte(0x10*r.Pick(2) + r.Pick(10)), byte(0x10*r.Pick(6) + r.Pick(10))})
				case 2:
					copy(msg[f.Offset:], [][]byte{{0xff, 0xff}, {0x25, 0x00}, {0x12, 0x60}, {0x1a, 0x30}}[r.Pick(4)])
				}
			}
		case "GetEvent":
			rm.EncodeField(msg, *l.Field("Index"), rm.UVal(rm.U32, 17))
			rm.EncodeField(msg, *l.Field("Type"), rm.UVal(rm.U8, 1))
		case "GetStatus":
			rm.EncodeField(msg, *l.Field("EventIndex"), rm.UVal(rm.U32, 5)) // event present: its fields are visible
			rm.EncodeField(msg, *l.Field("Timestamp"), rm.DateTimeVal(2024, 6, 15, 12, 0, 0))
			rm.EncodeField(msg, *l.Field("SystemDate"), rm.Val{K: rm.SysDate, Y: 2024, Mo: 6, D: 15})
			rm.EncodeField(msg, *l.Field("SystemTime"), rm.Val{K: rm.SysTime, H: 12, Mi: 34, S: 56})
		}
		if mf := MarkerField[op.Name]; mf != "" {
			f := l.Field(mf)
			rm.EncodeField(msg, *f, rm.Val{K: f.Kind, U: uint64(marker)})
		}
		return msg
	}
	switch c {
	case Valid:
		return base()
	case Len0:
		return []byte{}
	case LenShort:
		m := base()
		n := 1 + r.Pick(63)
		if r.Chance(0.3) {
			n = []int{1, 4, 7, 8, 63}[r.Pick(5)]
		}
		return m[:n]
	case LenLong:
		m := base()
		n := 65 + r.Pick(960)
		if r.Chance(0.3) {
			n = []int{65, 66, 128, 1024}[r.Pick(4)]
		}
		if r.Chance(0.15) {
			n = []int{1025, 2047, 2048, 2049, 2050, 3000, 4096}[r.Pick(7)] // longer than the library's receive buffers: still just a datagram of the wrong length
		}
		return append(m, make([]byte, n-64)...)
	case WrongSerial:
		m := base()
		s := serial ^ (1 << r.Pick(32))
		if s == 0 {
			s = serial + 1
		}
		m[4], m[5], m[6], m[7] = byte(s), byte(s>>8), byte(s>>16), byte(s>>24)
		return m
	case Serial0:
		m := base()
		m[4], m[5], m[6], m[7] = 0, 0, 0, 0
		return m
	case WrongFunction:
		m := base()
		for {
			fn := rm.Ops[r.Pick(len(rm.Ops))].Fn
			if r.Chance(0.3) {
				fn = byte(r.Pick(256))
			}
			if fn != op.Fn {
				m[1] = fn
				return m
			}
		}
	case WrongProtocol:
		m := base()
		m[0] = []byte{0x00, 0x16, 0x18, 0x1a, 0x71, 0xff, 0x42}[r.Pick(7)]
		return m
	case Protocol19:
		m := base()
		m[0] = 0x19
		return m
	case Malformed:
		m := base()
		off, v, ok := malformedAt(r, op)
		if !ok {
			panic(fmt.Sprintf("gen: %s has no malformed class", op.Name))
		}
		m[off] = v
		return m
	}
	panic("gen: unknown class")
}
