package gen

import (
	rm "verif/harness/refmodel"
)

func bcd(n int) byte { return byte((n/10)<<4 | n%10) }

// FieldBytes draws the wire bytes of one reply field from its full byte-pattern domain: in-domain random,
// boundary, sentinel and every out-of-domain class.
func (r R) FieldBytes(k rm.Kind) []byte {
	switch k {
	case rm.U8:
		return []byte{r.U8()}
	case rm.Bool:
		switch r.Pick(12) {
		case 0:
			return []byte{[]byte{2, 3, 0x10, 0x7f, 0x80, 0xfe, 0xff}[r.Pick(7)]}
		case 1:
			return []byte{byte(2 + r.Pick(254))}
		}
		return []byte{byte(r.Pick(2))}
	case rm.U16:
		v := r.Port()
		return []byte{byte(v), byte(v >> 8)}
	case rm.U32, rm.Serial, rm.Magic:
		v := r.U32()
		return []byte{byte(v), byte(v >> 8), byte(v >> 16), byte(v >> 24)}
	case rm.PIN:
		v := r.PIN()
		if r.Chance(0.1) {
			v = uint32(r.Pick(1 << 24))
		}
		return []byte{byte(v), byte(v >> 8), byte(v >> 16)}
	case rm.Version:
		return []byte{byte(r.Pick(256)), byte(r.Pick(256))}
	case rm.IPv4:
		return r.IP().B
	case rm.AddrPort:
		p := r.Port()
		if r.Chance(0.1) {
			p = 0
		}
		return append(r.IP().B, byte(p), byte(p>>8))
	case rm.MAC:
		b := make([]byte, 6)
		for i := range b {
			b[i] = byte(r.Pick(256))
		}
		if r.Chance(0.05) {
			return make([]byte, 6)
		}
		return b
	case rm.Date:
		return r.dateBytes()
	case rm.DateTime:
		switch r.Pick(16) {
		case 0:
			return make([]byte, 7)
		case 1:
			return []byte{0x20, 0, 0, 0, 0, 0, 0}
		}
		return append(r.dateBytes(), r.timeBytes(3)...)
	case rm.SysDate:
		switch r.Pick(10) {
		case 0:
			return []byte{0, 0, 0}
		}
		d := r.dateBytes()
		return d[1:]
	case rm.SysTime:
		return r.timeBytes(3)
	case rm.HHmm:
		switch r.Pick(8) {
		case 0: // out of range
			x := [][2]byte{{0x24, 0x01}, {0x25, 0x00}, {0x23, 0x60}, {0x12, 0x60}, {0x99, 0x99}, {0x24, 0x59}, {0x00, 0x60}, {0x30, 0x00}, {0x12, 0x99}}[r.Pick(9)]
			return x[:]
		case 1: // non BCD nibble
			b := []byte{bcd(r.Pick(24)), bcd(r.Pick(60))}
			i := r.Pick(2)
			if r.Chance(0.5) {
				b[i] = b[i]&0x0f | byte(10+r.Pick(6))<<4
			} else {
				b[i] = b[i]&0xf0 | byte(10+r.Pick(6))
			}
			return b
		case 2:
			return []byte{byte(r.Pick(256)), byte(r.Pick(256))}
		}
		v := r.HHmm()
		return []byte{bcd(v.H), bcd(v.Mi)}
	}
	panic("gen: FieldBytes: unknown kind")
}

func (r R) dateBytes() []byte {
	switch r.Pick(14) {
	case 0:
		return []byte{0, 0, 0, 0}
	case 1: // impossible calendar dates
		x := [][4]int{{2023, 2, 29}, {2024, 2, 30}, {1900, 2, 29}, {2100, 2, 29}, {2024, 0, 10}, {2024, 13, 1}, {2024, 4, 31}, {2024, 1, 0}, {2024, 1, 32}, {2024, 6, 31}, {2023, 11, 31}, {9999, 99, 99}, {2000, 0, 0}, {2024, 12, 32}}[r.Pick(14)]
		return []byte{bcd(x[0] / 100), bcd(x[0] % 100), bcd(x[1]), bcd(x[2])}
	case 2: // one non BCD nibble
		d := r.Date()
		b := []byte{bcd(d.Y / 100), bcd(d.Y % 100), bcd(d.Mo), bcd(d.D)}
		i := r.Pick(4)
		if r.Chance(0.5) {
			b[i] = b[i]&0x0f | byte(10+r.Pick(6))<<4
		} else {
			b[i] = b[i]&0xf0 | byte(10+r.Pick(6))
		}
		return b
	case 3: // arbitrary bytes
		return []byte{byte(r.Pick(256)), byte(r.Pick(256)), byte(r.Pick(256)), byte(r.Pick(256))}
	case 4: // arbitrary BCD digits
		return []byte{bcd(r.Pick(100)), bcd(r.Pick(100)), bcd(r.Pick(100)), bcd(r.Pick(100))}
	case 5: // leap days
		y := []int{2000, 2004, 2024, 2400, 1600, 1996, 2096, 4, 400}[r.Pick(9)]
		return []byte{bcd(y / 100), bcd(y % 100), 0x02, 0x29}
	}
	d := r.Date()
	return []byte{bcd(d.Y / 100), bcd(d.Y % 100), bcd(d.Mo), bcd(d.D)}
}

func (r R) timeBytes(n int) []byte {
	switch r.Pick(10) {
	case 0: // impossible
		x := [][3]int{{24, 0, 0}, {25, 0, 0}, {23, 60, 0}, {23, 59, 60}, {99, 99, 99}, {12, 61, 0}, {0, 0, 61}}[r.Pick(7)]
		return []byte{bcd(x[0]), bcd(x[1]), bcd(x[2])}
	case 1:
		b := []byte{bcd(r.Pick(24)), bcd(r.Pick(60)), bcd(r.Pick(60))}
		i := r.Pick(3)
		if r.Chance(0.5) {
			b[i] = b[i]&0x0f | byte(10+r.Pick(6))<<4
		} else {
			b[i] = b[i]&0xf0 | byte(10+r.Pick(6))
		}
		return b
	case 2:
		return []byte{byte(r.Pick(256)), byte(r.Pick(256)), byte(r.Pick(256))}
	case 3:
		x := [][3]int{{0, 0, 0}, {23, 59, 59}, {12, 0, 0}, {0, 0, 1}, {19, 59, 59}, {20, 0, 0}, {9, 9, 9}}[r.Pick(7)]
		return []byte{bcd(x[0]), bcd(x[1]), bcd(x[2])}
	}
	return []byte{bcd(r.Pick(24)), bcd(r.Pick(60)), bcd(r.Pick(60))}
}

// Reply builds a 64 byte reply for op and serial: correct header, every field drawn from FieldBytes (or, with
// wellFormed, from the in-domain classes only), random bytes outside every field.
func (r R) Reply(op *rm.Op, som byte, serial uint32, args rm.Vals, wellFormed bool) []byte {
	l := op.ReplyLayout()
	msg := make([]byte, 64)
	cov := l.Covered()
	for i := range msg {
		if !cov[i] {
			if r.Chance(0.5) {
				msg[i] = byte(r.Pick(256))
			}
		}
	}
	msg[0], msg[1] = som, op.Fn
	msg[2], msg[3] = 0, 0
	if r.Chance(0.3) {
		msg[2], msg[3] = byte(r.Pick(256)), byte(r.Pick(256))
	}
	for _, f := range l.Fields {
		if f.Kind == rm.Serial {
			msg[4], msg[5], msg[6], msg[7] = byte(serial), byte(serial>>8), byte(serial>>16), byte(serial>>24)
			continue
		}
		for tries := 0; ; tries++ {
			b := r.FieldBytes(f.Kind)
			copy(msg[f.Offset:], b)
			if !wellFormed {
				break
			}
			if e := rm.DecodeField(msg, f); e.Mode == rm.Must {
				break
			}
		}
	}
	// steer the echoed / sentinel fields so that the interesting outcomes are all frequent
	echo := func(field, arg string) {
		f := l.Field(field)
		switch r.Pick(10) {
		case 0:
			rm.EncodeField(msg, *f, rm.Val{K: f.Kind, U: 0})
		case 1:
			if f.Kind == rm.U32 {
				rm.EncodeField(msg, *f, rm.Val{K: f.Kind, U: 0xffffffff})
			}
		case 2: // leave random (mismatch)
		default:
			rm.EncodeField(msg, *f, rm.Val{K: f.Kind, U: args[arg].U})
		}
	}
	switch op.Name {
	case "GetCardByID":
		echo("CardNumber", "CardNumber")
	case "GetCardByIndex":
		f := l.Field("CardNumber")
		switch r.Pick(10) {
		case 0:
			rm.EncodeField(msg, *f, rm.Val{K: rm.U32, U: 0})
		case 1:
			rm.EncodeField(msg, *f, rm.Val{K: rm.U32, U: 0xffffffff})
		}
	case "GetTimeProfile":
		echo("ProfileID", "ProfileID")
	case "GetEvent":
		if r.Chance(0.1) {
			msg[l.Field("Type").Offset] = 0xff
		}
		if r.Chance(0.1) {
			copy(msg[l.Field("Index").Offset:], []byte{0, 0, 0, 0})
		}
	case "GetStatus":
		if r.Chance(0.25) {
			copy(msg[l.Field("EventIndex").Offset:], []byte{0, 0, 0, 0})
		}
	}
	return msg
}
