// Package gen holds the seeded generators for arguments, replies and datagram classes.
// It does not import the repository under test.
package gen

import (
	"hash/fnv"
	"math/rand/v2"

	rm "verif/harness/refmodel"
)

type R struct{ *rand.Rand }

func New(seed uint64, stream string, batch int) R {
	h := fnv.New64a()
	h.Write([]byte(stream))
	return R{rand.New(rand.NewPCG(seed*0x9e3779b97f4a7c15+uint64(batch)+1, h.Sum64()))}
}

func (r R) Pick(n int) int        { return r.IntN(n) }
func (r R) Chance(p float64) bool { return r.Float64() < p }

var u32Boundary = []uint32{0, 1, 2, 9, 10, 99, 100, 255, 256, 0xffff, 0x10000, 65535999, 25565535, 25565536, 25600000, 99999999, 100000000, 100000001,
	0x00fffffe, 0x00ffffff, 0x01000000, 0x7fffffff, 0x80000000, 0xfffffffe, 0xffffffff, 0x01020304, 0x04030201, 0xa1b2c3d4, 999999, 1000000, 16777215, 4294967295}

func (r R) U32() uint32 {
	switch r.Pick(10) {
	case 0:
		return u32Boundary[r.Pick(len(u32Boundary))]
	case 1:
		return 1 << r.Pick(32)
	case 2:
		return ^(uint32(1) << r.Pick(32))
	case 3: // byte-distinct pattern
		a := uint32(r.Pick(256))
		return a | (a+1)&0xff<<8 | (a+2)&0xff<<16 | (a+3)&0xff<<24
	case 4:
		return uint32(r.Pick(100000000)) // plausible card numbers
	}
	return r.Uint32()
}

func (r R) Serial() uint32 {
	for {
		if v := r.U32(); v != 0 {
			return v
		}
	}
}

func (r R) U8() uint8 {
	switch r.Pick(6) {
	case 0:
		return []uint8{0, 1, 2, 3, 4, 5, 9, 10, 15, 16, 99, 100, 127, 128, 153, 154, 254, 255}[r.Pick(18)]
	}
	return uint8(r.Pick(256))
}

var monthEnds = [][2]int{{1, 31}, {2, 28}, {2, 29}, {3, 1}, {3, 31}, {4, 30}, {12, 31}, {1, 1}, {1, 2}, {6, 30}, {9, 30}, {10, 10}, {11, 30}, {9, 9}, {9, 8}}

// DayFilter, when set, says whether a calendar day exists in the process time zone: days that a zone skipped entirely (2011-12-30
// in Pacific/Apia, 1844-12-31 in Asia/Manila or Pacific/Kosrae) are outside the domain of every date property and are never generated.
var DayFilter func(y, m, d int) bool

// SysDate returns a controller system date (two digit year: 2000..2068).
func (r R) SysDate() rm.Val {
	for {
		d := r.Date()
		d.Y = 2000 + r.Pick(69)
		if d.D > rm.DaysIn(d.Y, d.Mo) {
			d.D = rm.DaysIn(d.Y, d.Mo)
		}
		if DayFilter == nil || DayFilter(d.Y, d.Mo, d.D) {
			return rm.Val{K: rm.SysDate, Y: d.Y, Mo: d.Mo, D: d.D}
		}
	}
}

// Date returns an in-domain calendar date 0001-01-02..9999-12-31.
func (r R) Date() rm.Val {
	for {
		var y, m, d int
		switch r.Pick(8) {
		case 0:
			y = []int{1, 2, 9, 10, 99, 100, 999, 1000, 1582, 1752, 1899, 1900, 1969, 1970, 1999, 2000, 2001, 2024, 2038, 2099, 2100, 2400, 9998, 9999, 4, 400, 1600, 1904}[r.Pick(28)]
			me := monthEnds[r.Pick(len(monthEnds))]
			m, d = me[0], me[1]
		case 1:
			y = 1990 + r.Pick(60)
			m, d = 1+r.Pick(12), 1+r.Pick(31)
		case 2:
			y = 1 + r.Pick(9999)
			me := monthEnds[r.Pick(len(monthEnds))]
			m, d = me[0], me[1]
		default:
			y, m, d = 1+r.Pick(9999), 1+r.Pick(12), 1+r.Pick(31)
		}
		if rm.ValidDate(y, m, d) && !(y == 1 && m == 1 && d == 1) && (DayFilter == nil || DayFilter(y, m, d)) {
			return rm.DateVal(y, m, d)
		}
	}
}

func (r R) HHmm() rm.Val {
	switch r.Pick(8) {
	case 0:
		b := [][2]int{{0, 0}, {0, 1}, {0, 59}, {1, 0}, {9, 59}, {10, 0}, {11, 59}, {12, 0}, {19, 59}, {20, 0}, {23, 59}, {24, 0}, {9, 9}, {15, 51}, {8, 30}}
		x := b[r.Pick(len(b))]
		return rm.HHmmVal(x[0], x[1])
	}
	h := r.Pick(25)
	if h == 24 {
		return rm.HHmmVal(24, 0)
	}
	return rm.HHmmVal(h, r.Pick(60))
}

func (r R) PIN() uint32 {
	switch r.Pick(6) {
	case 0:
		return []uint32{0, 1, 9, 10, 255, 256, 65535, 65536, 99999, 100000, 999998, 999999, 0x0f4240 - 1, 123456, 0x010203}[r.Pick(15)]
	}
	return uint32(r.Pick(1000000))
}

func (r R) IP() rm.Val {
	switch r.Pick(6) {
	case 0:
		b := [][4]byte{{0, 0, 0, 0}, {255, 255, 255, 255}, {127, 0, 0, 1}, {192, 168, 1, 100}, {255, 255, 255, 0}, {10, 0, 0, 1}, {1, 2, 3, 4}, {224, 0, 0, 1}, {169, 254, 0, 1}}
		x := b[r.Pick(len(b))]
		return rm.IPVal(x[0], x[1], x[2], x[3])
	}
	return rm.IPVal(byte(r.Pick(256)), byte(r.Pick(256)), byte(r.Pick(256)), byte(r.Pick(256)))
}

func (r R) Port() uint16 {
	switch r.Pick(5) {
	case 0:
		return []uint16{1, 2, 80, 255, 256, 1023, 1024, 59999, 60000, 60001, 60002, 65534, 65535, 0x0102, 0x0201}[r.Pick(15)]
	}
	return uint16(1 + r.Pick(65535))
}

func (r R) DateTime() rm.Val {
	d := r.Date()
	h, mi, s := r.Pick(24), r.Pick(60), r.Pick(60)
	if r.Chance(0.15) {
		x := [][3]int{{0, 0, 0}, {23, 59, 59}, {12, 0, 0}, {0, 0, 1}, {9, 9, 9}, {10, 10, 10}, {19, 59, 59}, {20, 0, 0}}[r.Pick(8)]
		h, mi, s = x[0], x[1], x[2]
	}
	return rm.DateTimeVal(d.Y, d.Mo, d.D, h, mi, s)
}

// ---------------------------------------------------------------------------------------------

// Presentation mirrors adapter.Aux (kept here so that generation does not import the repository).
type Presentation struct {
	AbsentDoors uint8
	NilMap      bool
	AbsentDays  uint8
	AbsentRdrs  uint8
	DateCtor    int
	Loc         string
	ZeroTime    bool
	Passcodes   []uint32
	Formats     []uint8
	IP16        uint8
	ExtraKeys   bool
}

var Locations = []string{"", "America/Santiago", "Asia/Kathmandu", "Pacific/Kiritimati", "Europe/London", "America/New_York", "Australia/Lord_Howe", "Pacific/Apia", "Asia/Tehran", "Etc/GMT+12", "Etc/GMT-14", "fixed:20700", "fixed:-34200", "fixed:1", "fixed:50400", "fixed:-43200"}

// Args generates an accepted argument tuple for op: the effective field values plus a presentation.
func (r R) Args(op *rm.Op) (rm.Vals, Presentation) {
	a := rm.Vals{}
	p := Presentation{DateCtor: r.Pick(4)}
	for _, f := range op.ArgFields() {
		switch f.Kind {
		case rm.U8:
			a[f.Name] = rm.UVal(rm.U8, uint64(r.U8()))
		case rm.U16:
			a[f.Name] = rm.UVal(rm.U16, uint64(r.Port()))
		case rm.U32:
			a[f.Name] = rm.UVal(rm.U32, uint64(r.U32()))
		case rm.Bool:
			a[f.Name] = rm.BoolVal(r.Chance(0.5))
		case rm.IPv4:
			a[f.Name] = r.IP()
		case rm.AddrPort:
			v := r.IP()
			v.K = rm.AddrPort
			v.U = uint64(r.Port())
			if r.Chance(0.1) {
				v = rm.Val{K: rm.AddrPort, B: []byte{0, 0, 0, 0}, U: 0}
			}
			a[f.Name] = v
		case rm.Date:
			a[f.Name] = r.Date()
		case rm.DateTime:
			a[f.Name] = r.DateTime()
		case rm.HHmm:
			a[f.Name] = r.HHmm()
		case rm.PIN:
			a[f.Name] = rm.UVal(rm.PIN, uint64(r.PIN()))
		default:
			panic("gen: unexpected argument kind " + f.Kind.String() + " in " + op.Name)
		}
	}

	switch op.Name {
	case "PutCard":
		for {
			c := a["CardNumber"].U
			if c != 0 && c != 0xffffffff && c != 0x00ffffff {
				break
			}
			a["CardNumber"] = rm.UVal(rm.U32, uint64(r.U32()))
		}
		if r.Chance(0.08) {
			a["From"] = rm.ZeroDate()
		}
		if r.Chance(0.08) {
			a["To"] = rm.ZeroDate()
		}
		switch r.Pick(8) {
		case 0:
			p.NilMap = true
		case 1, 2:
			p.AbsentDoors = uint8(r.Pick(16))
		case 3:
			p.ExtraKeys = true
		}
		for i, n := range []string{"Door1", "Door2", "Door3", "Door4"} {
			if p.NilMap || p.AbsentDoors&(1<<i) != 0 {
				a[n] = rm.UVal(rm.U8, 0)
			}
		}
	case "SetDoorPasscodes":
		a["Door"] = rm.UVal(rm.U8, uint64(1+r.Pick(4)))
		n := r.Pick(7)
		for i := 0; i < n; i++ {
			var c uint32
			switch r.Pick(6) {
			case 0:
				c = []uint32{0, 1, 999999, 1000000, 0xffffffff, 999998, 1000001, 16777216}[r.Pick(8)]
			case 1:
				c = r.U32()
			default:
				c = r.PIN()
			}
			p.Passcodes = append(p.Passcodes, c)
		}
		for k, v := range rm.PasscodeFields(p.Passcodes) {
			a[k] = v
		}
	case "SetTimeProfile":
		for _, s := range []string{"Segment1", "Segment2", "Segment3"} {
			st, en := a[s+"Start"], a[s+"End"]
			if en.H < st.H || (en.H == st.H && en.Mi < st.Mi) {
				a[s+"Start"], a[s+"End"] = en, st
			}
			if r.Chance(0.1) {
				a[s+"End"] = a[s+"Start"]
			}
		}
		r.days(a, &p)
		if r.Chance(0.1) {
			p.ExtraKeys = true
		}
	case "AddTask":
		if r.Chance(0.9) {
			a["Task"] = rm.UVal(rm.U8, uint64(r.Pick(13)))
		}
		if r.Chance(0.08) {
			a["From"] = rm.ZeroDate()
		}
		if r.Chance(0.08) {
			a["To"] = rm.ZeroDate()
		}
		r.days(a, &p)
	case "ActivateKeypads":
		switch r.Pick(6) {
		case 0:
			p.NilMap = true
		case 1, 2:
			p.AbsentRdrs = uint8(r.Pick(16))
		case 3:
			p.ExtraKeys = true
		}
		for i, n := range []string{"Reader1", "Reader2", "Reader3", "Reader4"} {
			if p.NilMap || p.AbsentRdrs&(1<<i) != 0 {
				a[n] = rm.BoolVal(false)
			}
		}
	case "SetTime":
		p.Loc = Locations[r.Pick(len(Locations))]
		if r.Chance(0.03) {
			p.ZeroTime = true
			a["DateTime"] = rm.ZeroDateTime()
		}
	case "SetAddress":
		p.IP16 = uint8(r.Pick(8))
	case "SetListener":
		v := a["AddrPort"]
		if v.U == 0 && !(v.B[0] == 0 && v.B[1] == 0 && v.B[2] == 0 && v.B[3] == 0) {
			v.U = uint64(r.Port())
			a["AddrPort"] = v
		}
	}
	return a, p
}

func (r R) days(a rm.Vals, p *Presentation) {
	switch r.Pick(6) {
	case 0:
		p.NilMap = true
	case 1, 2:
		p.AbsentDays = uint8(r.Pick(128))
	}
	for i, n := range []string{"Monday", "Tuesday", "Wednesday", "Thursday", "Friday", "Saturday", "Sunday"} {
		if p.NilMap || p.AbsentDays&(1<<i) != 0 {
			a[n] = rm.BoolVal(false)
		}
	}
}
