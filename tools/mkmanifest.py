#!/usr/bin/env python3
"""Regenerates /verif/MANIFEST.json from the table below (keeps the manifest consistent and valid)."""
import json, subprocess

ENV = "export GOFLAGS=-mod=mod GOPROXY=off GOSUMDB=off GOTOOLCHAIN=local"
HOOK_COMMIT = subprocess.run(["git", "-C", "/repo", "log", "--format=%h", "-1", "--", "uhppote/verif_hooks.go"], capture_output=True, text=True).stdout.strip()

CHECKS, PENDING = {}, {}
import importlib.util, os, sys
ov = os.path.join(os.path.dirname(__file__), "manifest_table.py")
if os.path.exists(ov):
    spec = importlib.util.spec_from_file_location("mt", ov); mt = importlib.util.module_from_spec(spec); spec.loader.exec_module(mt)
    CHECKS.update(mt.CHECKS); PENDING = {k: v for k, v in mt.PENDING.items()}
    for k, add in getattr(mt, "EXTRA", {}).items():
        if k in CHECKS and add:
            c = list(CHECKS[k]); c[2] = c[2] + add; CHECKS[k] = tuple(c)

m = {
 "version": 1,
 "setup_cmd": f"{ENV}; cd /verif/harness && mkdir -p ../bin && go build -o ../bin/vcheck ./cmd/vcheck && go build -tags verif -o /dev/null ./cmd/vworker && go build -race -tags verif -o /dev/null ./cmd/vworker",
 "hooks": {
  "guard": "verif",
  "enable": "go build -tags verif (the harness module /verif/harness replaces github.com/uhppoted/uhppote-core with /repo and is rebuilt by every check)",
  "baseline_off_cmd": f"{ENV}; cd /repo && go test -vet=off -count=1 ./...",
  "source_commits": [HOOK_COMMIT],
  "add_only": True,
 },
 "engines": [
  {"name": "vcheck+vworker", "path": "/verif/harness", "serves_properties": sorted(CHECKS), "kind_free_text": "runtime monitoring: parent (plans batches, merges observations, known-findings filter, evidence) + child worker processes linked with the library under test (-tags verif, -race where needed), reference model independent of /repo"},
 ],
 "checks": [],
 "notes": "Technique family: runtime monitoring and sanitizers. See DESIGN.md. ./check <ID> <tier> rebuilds the worker from /repo's working tree on every run.",
 "not_applicable": [{"property_id": k, "reason": v} for k, v in sorted(PENDING.items()) if k not in CHECKS],
}
for pid in sorted(CHECKS):
    cat, tech, text, note, ref = CHECKS[pid]
    m["checks"].append({
     "property_id": pid,
     "quick_cmd": f"./check {pid} quick",
     "thorough_cmd": f"./check {pid} thorough",
     "evidence_file": f"/verif/evidence/{pid}.json",
     "replay_cmd_template": f"./check {pid} quick --replay {{path}}",
     "engine": "vcheck+vworker",
     "level_claimed": {"category": cat, "text": text, "design_ref": ref},
     "level_note": note,
     "technique": tech,
    })
json.dump(m, open("/verif/MANIFEST.json", "w"), indent=1)
print("claimed:", sorted(CHECKS), "pending:", [x["property_id"] for x in m["not_applicable"]])
