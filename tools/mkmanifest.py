#!/usr/bin/env python3
"""Regenerates /verif/MANIFEST.json from the table below (keeps the manifest consistent and valid)."""
import json, subprocess

ENV = "export GOFLAGS=-mod=mod GOPROXY=off GOSUMDB=off GOTOOLCHAIN=local"
HOOK_COMMIT = subprocess.run(["git", "-C", "/repo", "log", "--format=%h", "-1", "--", "uhppote/verif_hooks.go"], capture_output=True, text=True).stdout.strip()

H = "in-memory driver installed through the verif hook"
CHECKS = {
 "C01": ("exploration", "runtime monitor at the driver hook + reference-model oracle",
         "Every request the library hands to the transport (recorded at the driver hook, {H}) is compared byte-for-byte with an independent reference encoding over random interleaved call histories on several clients and goroutines and per-field sweeps (all u8/HH:mm/PIN/port/date values in thorough). Sampling, not proof: 32-bit fields are sampled.".replace("{H}", H),
         "trusted: the frozen protocol table, the reference encoder, the hook forwarding exactly what the real driver would get", "§4 C01"),
 "C02": ("exploration", "reference-model oracle over scripted replies (in-memory driver)",
         "Replies drawn from each field's full byte-pattern domain are played to all 31 reply-bearing operations; the API result is judged by a three-valued reference decoder (must / error-or-zero / don't-care). Exhaustive per single-byte field, HH:mm pair and (thorough) the 10^8 BCD date patterns; 32-bit fields sampled.",
         "trusted: frozen protocol table and reference decoder; TZ=UTC (zones are C13)", "§4 C02"),
 "C05": ("exploration", "round-trip monitor over the repository's own message structs, one child process per time zone",
         "Reflection-filled in-domain values of all 65 message structs are encoded, compared with the reference encoding, decoded and compared canonically; bytes outside fields are randomised; dispatchers probed with all 256 codes x lengths x protocol ids; repeated with TZ = 40 (quick) / every distinct zone file (thorough).",
         "trusted: frozen protocol table; installed tz database", "§4 C05"),
 "C07": ("exploration", "acceptance monitor at the driver hook against the documented validation rules",
         "Calls on both sides of every validation rule: rejected calls must error and reach the driver zero times, accepted calls exactly once with the documented bytes; thorough sweeps all 2^32 card numbers against Wiegand-26.",
         "trusted: the rule transcription (Wiegand-26 = FFFNNNNN <= 8 digits)", "§4 C07"),
 "C12": ("exploration", "reference BCD oracle, bounded-exhaustive + random",
         "All strings up to 5 (quick) / 6 (thorough) symbols over a 12-symbol alphabet, all byte slices up to 3 bytes, every Unicode code point, random long inputs with one bad symbol/nibble at every position; checks bytes, error iff bad symbol, both round trips.",
         "position independence beyond the enumerated lengths is sampled up to length 64, not proved", "§4 C12"),
 "C15": ("exploration", "three-valued address oracle, bounded-exhaustive + mutation",
         "All strings up to 6 (quick) / 7 (thorough) symbols over a 9-symbol alphabet x 4 roles, all 65536 ports, random addresses and single-character mutations; must-accept values compared with the written address/port, Set/JSON/format-parse round trips.",
         "strings containing a dotted quad that are not exactly a.b.c.d[:port] are don't-care", "§4 C15"),
 "C16": ("exploration", "order-axiom monitor against calendar tuples",
         "All 1441^2 HH:mm pairs, all adjacent-day pairs (thorough; sampled years in quick), random pairs and triples, DateTime.Before around second boundaries, SetTimeProfile segment acceptance through the in-memory driver.",
         "DateTime.Before judged from 1970 on", "§4 C16"),
 "C18": ("exploration", "generated message layouts (reflect.StructOf) against a reference field encoder",
         "Struct types generated from the tag grammar: exhaustive single-field layouts (22 kinds x every offset), random multi-field layouts with embedding and tagged values; encode bytes, round trip, enforcement of tagged values, no aliasing, no panic.",
         "layouts limited to what reflect.StructOf can express", "§4 C18"),
}
PENDING = {
 "C03": "check under construction in this session (loopback farm not yet built)",
 "C04": "check under construction in this session",
 "C06": "check under construction in this session (loopback farm not yet built)",
 "C08": "check under construction in this session (loopback farm not yet built)",
 "C09": "check under construction in this session (loopback farm not yet built)",
 "C10": "check under construction in this session (loopback farm not yet built)",
 "C11": "check under construction in this session (loopback farm not yet built)",
 "C13": "check under construction in this session",
 "C14": "check under construction in this session",
 "C17": "check under construction in this session",
}
import importlib.util, os, sys
ov = os.path.join(os.path.dirname(__file__), "manifest_table.py")
if os.path.exists(ov):
    spec = importlib.util.spec_from_file_location("mt", ov); mt = importlib.util.module_from_spec(spec); spec.loader.exec_module(mt)
    CHECKS.update(mt.CHECKS); PENDING = {k: v for k, v in mt.PENDING.items()}

m = {
 "version": 1,
 "setup_cmd": f"{ENV}; cd /verif/harness && mkdir -p ../bin && go build -o ../bin/vcheck ./cmd/vcheck && go build -tags verif -o /dev/null ./cmd/vworker && go build -race -tags verif -o /dev/null ./cmd/vworker",
 "hooks": {
  "guard": "verif",
  "enable": "go build -tags verif (the harness module /verif/harness replaces github.com/uhppoted/uhppote-core with /repo and is rebuilt by every check)",
  "baseline_off_cmd": f"{ENV}; cd /repo && go test -vet=off -count=1 ./...",
  "source_commits": [HOOK_COMMIT],
  "add_only": True,
 },
 "engines": [
  {"name": "vcheck+vworker", "path": "/verif/harness", "serves_properties": sorted(CHECKS), "kind_free_text": "runtime monitoring: parent (plans batches, merges observations, known-findings filter, evidence) + child worker processes linked with the library under test (-tags verif, -race where needed), reference model independent of /repo"},
 ],
 "checks": [],
 "notes": "Technique family: runtime monitoring and sanitizers. See DESIGN.md. ./check <ID> <tier> rebuilds the worker from /repo's working tree on every run.",
 "not_applicable": [{"property_id": k, "reason": v} for k, v in sorted(PENDING.items()) if k not in CHECKS],
}
for pid in sorted(CHECKS):
    cat, tech, text, note, ref = CHECKS[pid]
    m["checks"].append({
     "property_id": pid,
     "quick_cmd": f"./check {pid} quick",
     "thorough_cmd": f"./check {pid} thorough",
     "evidence_file": f"/verif/evidence/{pid}.json",
     "replay_cmd_template": f"./check {pid} quick --replay {{path}}",
     "engine": "vcheck+vworker",
     "level_claimed": {"category": cat, "text": text, "design_ref": ref},
     "level_note": note,
     "technique": tech,
    })
json.dump(m, open("/verif/MANIFEST.json", "w"), indent=1)
print("claimed:", sorted(CHECKS), "pending:", [x["property_id"] for x in m["not_applicable"]])
