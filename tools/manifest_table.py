# extra rows for tools/mkmanifest.py (merged over its built-in table)
CHECKS = {
 "C13": ("exploration", "zone-quantified monitor: one child process per time zone, oracle built from the UTC->local direction only",
         "Per zone: every transition 1800..2200 (all transitions to 9999 in thorough) yields the local days around it - in particular days whose midnight is skipped - and civil times within +-25h; these plus random dates/date-times go through ToDate, ParseDate, JSON, wire decode/encode, GetStatus and the listener; days without any instant are exempt. 48 zones quick, every distinct zone file thorough.",
         "trusted: Go's UTC->local conversion and the installed tz database", "§4 C13"),
 "C14": ("exploration", "JSON/text round-trip monitor with semantic equality, one child per time zone for the date-bearing types",
         "In-domain values of every public type are JSON encoded and decoded into fresh zero variables (nil maps), compared semantically; text forms formatted and parsed; the listed reject classes must error. 4 deep UTC batches + 36 zones quick, all zones thorough.",
         "domains as stated in the property (cards with non-zero dates, segments a prefix of 1..3, ...)", "§4 C14"),
 "C17": ("exploration", "history monitor at the driver hook: construct / mutate caller data / call / overwrite transport buffers / compare",
         "Random histories: the route (transport method + address) of every call must be that of the configuration the client was built with, whatever the caller mutates afterwards; argument snapshots unchanged by calls; results unchanged when transport buffers are overwritten; clones equal and disjoint.",
         "trusted: the hook sees what the real driver would be handed", "§4 C17"),
}
PENDING = {
 "C03": "check under construction in this session (loopback farm not yet built)",
 "C04": "check under construction in this session",
 "C06": "check under construction in this session (loopback farm not yet built)",
 "C08": "check under construction in this session (loopback farm not yet built)",
 "C09": "check under construction in this session (loopback farm not yet built)",
 "C10": "check under construction in this session (loopback farm not yet built)",
 "C11": "check under construction in this session (loopback farm not yet built)",
}
