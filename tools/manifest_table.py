# extra rows for tools/mkmanifest.py (merged over its built-in table)
CHECKS = {
 "C13": ("exploration", "zone-quantified monitor: one child process per time zone, oracle built from the UTC->local direction only",
         "Per zone: every transition 1800..2200 (all transitions to 9999 in thorough) yields the local days around it - in particular days whose midnight is skipped - and civil times within +-25h; these plus random dates/date-times go through ToDate, ParseDate, JSON, wire decode/encode, GetStatus and the listener; days without any instant are exempt. 48 zones quick, every distinct zone file thorough.",
         "trusted: Go's UTC->local conversion and the installed tz database", "§4 C13"),
 "C14": ("exploration", "JSON/text round-trip monitor with semantic equality, one child per time zone for the date-bearing types",
         "In-domain values of every public type are JSON encoded and decoded into fresh zero variables (nil maps), compared semantically; text forms formatted and parsed; the listed reject classes must error. 4 deep UTC batches + 36 zones quick, all zones thorough.",
         "domains as stated in the property (cards with non-zero dates, segments a prefix of 1..3, ...)", "§4 C14"),
 "C17": ("exploration", "history monitor at the driver hook: construct / mutate caller data / call / overwrite transport buffers / compare",
         "Random histories: the route (transport method + address) of every call must be that of the configuration the client was built with, whatever the caller mutates afterwards; argument snapshots unchanged by calls; results unchanged when transport buffers are overwritten; clones equal and disjoint.",
         "trusted: the hook sees what the real driver would be handed", "§4 C17"),
}
PENDING = {
 "C03": "check under construction in this session (loopback farm not yet built)",
 "C04": "check under construction in this session",
 "C06": "check under construction in this session (loopback farm not yet built)",
 "C08": "check under construction in this session (loopback farm not yet built)",
 "C09": "check under construction in this session (loopback farm not yet built)",
 "C10": "check under construction in this session (loopback farm not yet built)",
 "C11": "check under construction in this session (loopback farm not yet built)",
}

CHECKS.update({
 "C03": ("fault_enumeration", "datagram-class sequence enumeration against an acceptance automaton (hooked layer + real sockets against a loopback controller farm)",
         "All sequences of datagram classes up to length 2 (quick) / 3 (thorough) on real broadcast / connected-UDP / TCP sockets against a scripted farm (6 operations, every valid-looking datagram carries a unique marker), all sequences up to length 3/4 for all 31 operations through the in-memory driver, random sequences up to length 8; the observed outcome and marker are compared with a 20-line acceptance automaton.",
         "loopback stands in for the network; per-write framing on TCP", "§4 C03"),
 "C06": ("exploration", "arrival log of a loopback controller farm + driver-hook log against the routing rule",
         "Generated client configurations x all operations: the farm (paired UDP/TCP controller endpoints + broadcast endpoint) logs every arrival with transport, source address and bytes; exactly one arrival at the endpoint the routing rule names, from the bind address, reference bytes, silence elsewhere; the hooked layer decides the unset default broadcast address.",
         "reception at 255.255.255.255:60000 cannot be observed in the sandbox: decided at the driver hook", "§4 C06"),
 "C08": ("exploration", "Go race detector + echo oracle over recorded call/farm events + porcupine linearizability check",
         "Plans of up to 32 goroutines x mixed operations with unique ids on 1-3 clients (UDP/TCP/broadcast, bind port 0 and fixed, overlapping bind addresses), farm reply delays from {0,1ms,0.3T,0.7T}, discovery and listener stop-under-traffic alongside; every call judged against echo(own request) when the farm measurably answered in time; served-in-turn scenario; porcupine on PutCard/GetCardByID/DeleteCard histories; -race batches at GOMAXPROCS 4/16 (2/4/8/16 thorough).",
         "race detector sees only executed accesses; schedules perturbed, not enumerated", "§4 C08"),
})
for k in ("C03","C06","C08"):
    PENDING.pop(k, None)

CHECKS.update({
 "C04": ("exploration", "panic monitor (recover around every call + crash trace of the worker process) over hostile inputs",
         "Byte strings of length 0..2048 into every decoding entry point for all registered message types, every operation with replies of arbitrary length/content through the in-memory driver with each result rendered via String/fmt/JSON (also field by field), the listener with arbitrary buffers and a shutdown while the event callback is busy, hostile arguments (nil maps/IPs, extreme times, out-of-range enums).",
         "only panics are judged; sampling, not enumeration", "§4 C04"),
 "C09": ("fault_enumeration", "timing + resource-conservation monitor: /proc socket census, goroutine census, farm-measured reply times",
         "Every path x network behaviour one call at a time (return time bounds, success iff an acceptable reply was measurably sent in time, zero library sockets the moment the call returns, library goroutines gone within 1 s), stray floods that outlast the deadline, calls queued on a fixed bind port served in turn, then parallel leak batches with listener start/stop cycles and a socket/goroutine census before/after with the GC off; one batch under -race.",
         "time is the property: 1.5 s late-side slack, measured premises, second attempt in the parallel phase", "§4 C09"),
 "C10": ("exploration", "offline checker over the listener's callback log vs. the senders' log (exactly-once, order, content, conservation of error callbacks)",
         "Start/stop cycles of the real listener on loopback with 1-4 acknowledgement-paced senders mixing valid events and every malformed class, slow consumers, stops mid-stream, 1500 (quick) rapid start/stop/re-bind cycles; per-datagram three-valued verdict from the reference decoder; DST zones as process zone; one batch under -race.",
         "kernel drops detected via RcvbufErrors make a loss inconclusive", "§4 C10"),
 "C11": ("exploration", "reply-list monitor: ordered comparison of GetDevices results with the reference decoding of what was sent (hooked layer + loopback farm with several sockets and deadlines)",
         "Random reply lists (valid, duplicates, malformed classes) through the in-memory driver (20k quick / 400k thorough discoveries per batch) and over real broadcast sockets with measured send times (must / grey / late), configured names and ports; one batch under -race.",
         "grey zone 0.6T..T+0.3s is don't-care", "§4 C11"),
})
PENDING.clear()
