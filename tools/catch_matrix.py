#!/usr/bin/env python3
"""Rewrites the catch matrix in DESIGN.md (between the markers) from seeded/*/meta.json and notes.md."""
import json, glob, os, re
rows = []
def short(d):
    n = os.path.join(d, "notes.md")
    m = json.load(open(os.path.join(d, "meta.json")))
    if m.get("what"): return m["what"]
    if not os.path.exists(n): return ""
    txt = open(n).read()
    paras = [p.strip() for p in re.split(r"\n\s*\n", txt) if p.strip() and not p.strip().startswith("#")]
    paras = [p for p in paras if not re.match(r"^(- )?`?(patch\.diff|verif_demo|File|Files)", p) and len(p) > 40]
    t = " ".join((paras[0] if paras else "").split())
    t = re.sub(r"\*\*|`", "", t)
    return (t[:230] + "…") if len(t) > 230 else t
for d in sorted(glob.glob("/verif/seeded/*/")):
    name = os.path.basename(d.rstrip("/"))
    try: m = json.load(open(d + "meta.json"))
    except Exception: continue
    if name.startswith("historic"): continue
    caught = []
    missed = []
    for c, v in (m.get("checks") or {}).items():
        (caught if v.get("exit") == 1 else missed).append(c + (" (" + ", ".join(k.split(":", 1)[1] for k in v.get("keys", [])[:2]) + ")" if v.get("exit") == 1 and v.get("keys") else ""))
    rows.append((name, short(d), "; ".join(caught) if caught else "**not caught** (" + ", ".join(missed) + ")"))
table = "| change | what it is (from the author's notes) | caught by (quick tier) |\n|---|---|---|\n" + "\n".join(f"| {a} | {b} | {c} |" for a, b, c in rows)
p = "/verif/DESIGN.md"; s = open(p).read()
a, b = "<!-- catch-matrix:begin -->", "<!-- catch-matrix:end -->"
if a in s:
    s = s[:s.index(a) + len(a)] + "\n" + table + "\n" + s[s.index(b):]
    open(p, "w").write(s)
print(len(rows), "rows;", sum(1 for r in rows if "not caught" in r[2]), "not caught")
